"""E3: run the compile-fail / compiling-twin doc-tests of witness/ against the current repository tree."""
import os
import re
import shutil
import subprocess

from . import facts

VERIF = os.path.dirname(os.path.dirname(os.path.abspath(__file__)))


def run(prop, names):
    repo = facts.repo_path()
    work = os.path.join(facts.CACHE, "witness")
    os.makedirs(os.path.join(work, "src"), exist_ok=True)
    tpl = open(os.path.join(VERIF, "witness", "Cargo.toml.in")).read().replace("@REPO@", repo)
    open(os.path.join(work, "Cargo.toml"), "w").write(tpl)
    shutil.copy(os.path.join(VERIF, "witness", "src", "lib.rs"), os.path.join(work, "src", "lib.rs"))
    if os.path.exists(os.path.join(repo, "Cargo.lock")):
        shutil.copy(os.path.join(repo, "Cargo.lock"), os.path.join(work, "Cargo.lock"))
    env = dict(os.environ, CARGO_NET_OFFLINE="true", CARGO_TARGET_DIR=os.path.join(facts.CACHE, "witness-target"))
    env.pop("RUSTC_WORKSPACE_WRAPPER", None)
    r = subprocess.run(["cargo", "+nightly", "test", "--doc", "--offline"], cwd=work, env=env, stdout=subprocess.PIPE,
                       stderr=subprocess.STDOUT, text=True)
    out = r.stdout
    results = []
    for nm in names:
        lines = [l for l in out.splitlines() if re.search(r"- %s \(line \d+\)" % re.escape(nm), l)]
        if not lines:
            results.append((nm, False, "witness doc-tests not found in output (build failed?): " + out[-400:]))
            continue
        bad = [l for l in lines if not l.rstrip().endswith("... ok")]
        has_cf = any("compile fail" in l for l in lines)
        has_twin = any("compile fail" not in l for l in lines)
        if bad:
            results.append((nm, False, "; ".join(bad)))
        elif not (has_cf and has_twin):
            results.append((nm, False, "witness lacks its compile-fail test or its compiling twin"))
        else:
            results.append((nm, True, "%d doc-tests ok" % len(lines)))
    return dict(cmd="cargo +nightly test --doc --offline (in .cache/witness, path-dependency on %s)" % repo, results=results)
