"""Thorough tier extras: rule self-test (mutants of the current tree, a sample of behaviour-preserving edits) and type-level witnesses.

Evidence about the checker only: nothing here decides the exit code except a *missed* mutant whose anchor text still applies,
which is reported in the evidence (and on stdout) but never as a violation of /repo."""
import os
import subprocess
import sys
from concurrent.futures import ThreadPoolExecutor

VERIF = os.path.dirname(os.path.dirname(os.path.abspath(__file__)))


def extra(ctx, spec):
    sys.path.insert(0, VERIF)
    from selftest.mutants import MUTANTS
    from selftest.run import run_mutant, seed_mutants
    todo = [m for m in MUTANTS if any(p == ctx.prop for p, _ in m["expects"])] + seed_mutants(ctx.prop)
    # restrict each mutant's expectations to this property (the others are exercised by their own thorough run)
    todo = [dict(m, expects=[(p, k) for (p, k) in m["expects"] if p == ctx.prop]) for m in todo]
    results = []
    if todo and not os.environ.get("VERIF_NO_SELFTEST"):
        with ThreadPoolExecutor(max_workers=int(os.environ.get("VERIF_JOBS", "8"))) as ex:
            results = list(ex.map(run_mutant, todo))
    summ = dict(mutants=len(results), detected=sum(r["status"] == "detected" for r in results),
                skipped=sum(r["status"] == "skipped" for r in results),
                missed=[r["name"] for r in results if r["status"] in ("MISSED", "error", "does-not-compile")],
                detail=[dict(name=r["name"], status=r["status"], expects=["%s:%s" % e for e in r["expects"]]) for r in results])
    ctx.notes.append(dict(rule_selftest=summ))
    # the other direction: a sample of the behaviour-preserving refactorings (selftest/equiv) must leave this check silent
    if not os.environ.get("VERIF_NO_SELFTEST"):
        import random
        from selftest.run import equiv_patches
        eq = equiv_patches()
        rnd = random.Random(1000 + ctx.seed)
        sample = rnd.sample(eq, min(int(os.environ.get("VERIF_EQUIV_SAMPLE", "8")), len(eq)))
        sample = [dict(m, props=[ctx.prop]) for m in sample]
        with ThreadPoolExecutor(max_workers=int(os.environ.get("VERIF_JOBS", "8"))) as ex:
            eres = list(ex.map(run_mutant, sample))
        fa = [dict(name=r["name"], detail=r["detail"][:300]) for r in eres if r["status"] == "FALSE-ALARM"]
        ctx.notes.append(dict(equivalent_edit_sample=dict(sampled=[r["name"] for r in eres], silent=sum(r["status"] == "silent" for r in eres),
                                                          skipped=sum(r["status"] == "skipped" for r in eres), false_alarms=fa)))
        for r in eres:
            print("selftest %-10s %s" % (r["status"], r["name"]))
    for r in results:
        print("selftest %-10s %s" % (r["status"], r["name"]))
    # type-level witnesses (E3)
    wdir = os.path.join(VERIF, "witness")
    wprops = getattr(spec, "WITNESSES", None)
    if wprops and os.path.isdir(wdir):
        from lint import witness
        w = witness.run(ctx.prop, wprops)
        ctx.notes.append(dict(witnesses=w))
        for name, ok, msg in w["results"]:
            if ok:
                ctx.ok("E3", name, "compile-fail witness and its compiling twin behave as expected", ["witness/src/lib.rs: %s" % name])
            else:
                ctx.bad("E3", name, "type-level witness failed: %s" % msg, "witness/src/lib.rs")
