"""In-memory model of the extracted program and the basic analyses A1..A11.

Everything here is a pure function of the facts JSON; no source text, no line
numbers are used for decisions (lines are only carried into reports).
"""
from collections import defaultdict, deque

NOISE_MACROS = ("trace", "tracing", "info", "event", "span", "valueset", "level_enabled",
                "callsite", "dbg", "eprintln", "debug")


def is_noise(x):
    """Statement / terminator produced inside a logging macro expansion."""
    e = x.get("exp")
    if not e:
        return False
    parts = e.replace("$crate::", "").split(">")
    for p in parts:
        p = p.split("::")[-1]
        if p in ("trace", "info", "event", "span", "info_span", "valueset", "level_enabled",
                 "callsite", "dbg", "eprintln", "debug", "enabled", "__tracing_log",
                 "metadata", "callsite2", "fieldset", "__macro_support", "if_log_enabled"):
            return True
    return False


def exp_has(x, name):
    e = x.get("exp")
    if not e:
        return False
    for p in e.replace("$crate::", "").split(">"):
        if p.split("::")[-1] == name:
            return True
    return False


class Body:
    def __init__(self, j, fn, promoted_index=None):
        self.j = j
        self.fn = fn
        self.blocks = j["blocks"]
        self.locals = j["locals"]
        self.arg_count = j["arg_count"]
        self.n = len(self.blocks)
        self.promoted_index = promoted_index
        self._defs = None
        self._preds = {}
        self._dom = {}

    # ---- CFG ------------------------------------------------------------
    def term(self, b):
        return self.blocks[b]["term"]

    def succs(self, b, unwind=False):
        t = self.blocks[b]["term"]
        k = t["k"]
        out = []
        if k == "goto":
            out = [t["target"]]
        elif k == "switch":
            out = [x[1] for x in t["targets"]] + [t["otherwise"]]
        elif k in ("call", "drop", "assert"):
            if t.get("target") is not None:
                out = [t["target"]]
            if unwind and isinstance(t.get("unwind"), int):
                out = out + [t["unwind"]]
        return out

    def preds(self, unwind=False):
        if unwind not in self._preds:
            p = defaultdict(list)
            for b in range(self.n):
                for s in self.succs(b, unwind):
                    p[s].append(b)
            self._preds[unwind] = p
        return self._preds[unwind]

    def reachable(self, start=0, unwind=False, removed_edge=None, blocked=None):
        seen = {start}
        dq = [start]
        while dq:
            b = dq.pop()
            for s in self.succs(b, unwind):
                if removed_edge and (b, s) == removed_edge:
                    continue
                if blocked and s in blocked:
                    continue
                if s not in seen:
                    seen.add(s)
                    dq.append(s)
        return seen

    def return_blocks(self):
        return [b for b in range(self.n) if self.term(b)["k"] == "return"]

    def rpo(self, unwind=False):
        seen = set()
        order = []

        def dfs(b):
            stack = [(b, iter(self.succs(b, unwind)))]
            seen.add(b)
            while stack:
                node, it = stack[-1]
                adv = False
                for s in it:
                    if s not in seen:
                        seen.add(s)
                        stack.append((s, iter(self.succs(s, unwind))))
                        adv = True
                        break
                if not adv:
                    order.append(node)
                    stack.pop()
        dfs(0)
        order.reverse()
        return order

    def dominators(self, unwind=False):
        """dom[b] = set of blocks dominating b (including b)."""
        if unwind in self._dom:
            return self._dom[unwind]
        order = self.rpo(unwind)
        preds = self.preds(unwind)
        allb = set(order)
        dom = {b: set(allb) for b in order}
        dom[0] = {0}
        changed = True
        while changed:
            changed = False
            for b in order:
                if b == 0:
                    continue
                ps = [p for p in preds[b] if p in dom]
                new = None
                for p in ps:
                    new = set(dom[p]) if new is None else (new & dom[p])
                new = (new or set()) | {b}
                if new != dom[b]:
                    dom[b] = new
                    changed = True
        self._dom[unwind] = dom
        return dom

    def postdominators(self):
        """pdom[b] = blocks post-dominating b (including b) over normal edges; returns, diverging calls and `unreachable`
        all lead to one virtual exit."""
        if getattr(self, "_pdom", None) is not None:
            return self._pdom
        nodes = list(self.rpo())
        ns = set(nodes)
        EXIT = -1
        succ = {b: ([x for x in self.succs(b) if x in ns] or [EXIT]) for b in nodes}
        pdom = {b: set(ns) | {EXIT} for b in nodes}
        pdom[EXIT] = {EXIT}
        changed = True
        while changed:
            changed = False
            for b in nodes:             # rpo of the forward graph visited backwards converges quickly enough for these sizes
                new = None
                for x in succ[b]:
                    new = set(pdom[x]) if new is None else (new & pdom[x])
                new = (new or set()) | {b}
                if new != pdom[b]:
                    pdom[b] = new
                    changed = True
        self._pdom = pdom
        return pdom

    def control_deps(self, b):
        """Branch blocks the execution of block b depends on (transitively): switches with one successor from which b is
        inevitable and another from which it can be avoided.  Unlike dominating guards this also sees a bypass that is taken
        under a conjunction (`if a && b { return }`)."""
        pdom = self.postdominators()
        if b not in pdom:
            return set()
        out = set()
        work = [b]
        while work:
            x = work.pop()
            for s in pdom:
                if s < 0 or s in out or self.blocks[s]["term"]["k"] != "switch":
                    continue
                if x in pdom[s] and x != s:
                    continue            # x post-dominates the branch: not decided there
                if any((y in pdom and x in pdom[y]) for y in self.succs(s)):
                    out.add(s)
                    work.append(s)
        return out

    # ---- definitions / expressions -----------------------------------------
    def defs(self):
        """local -> list of ('stmt', bb, idx, stmt) | ('call', bb, term)."""
        if self._defs is None:
            d = defaultdict(list)
            for b, blk in enumerate(self.blocks):
                for i, s in enumerate(blk["stmts"]):
                    if s["k"] in ("=", "setdiscr") and not s["lhs"]["p"]:
                        d[s["lhs"]["l"]].append(("stmt", b, i, s))
                t = blk["term"]
                if t["k"] == "call" and not t["dest"]["p"]:
                    d[t["dest"]["l"]].append(("call", b, t))
            self._defs = d
        return self._defs

    def local_name(self, l):
        return self.locals[l].get("name")

    def expr_of_local(self, l, depth=0, seen=None):
        if 1 <= l <= self.arg_count:
            return ("param", l, self.local_name(l) or ("_%d" % l))
        if depth > 24:
            return ("local", l)
        seen = seen or frozenset()
        if l in seen:
            return ("local", l)
        ds = self.defs().get(l, [])
        if len(ds) != 1:
            nm = self.local_name(l)
            # all defs assign constants -> phi of constants
            return ("phi", l, nm or ("_%d" % l))
        d = ds[0]
        seen = seen | {l}
        if d[0] == "stmt":
            s = d[3]
            if s["k"] != "=":
                return ("local", l)
            return self.expr_of_rvalue(s["rv"], depth + 1, seen)
        t = d[2]
        return ("call", callee_path(t), [self.expr_of_operand(a, depth + 1, seen) for a in t["args"]], d[1])

    def expr_of_place(self, p, depth=0, seen=None):
        e = self.expr_of_local(p["l"], depth, seen)
        for pr in p["p"]:
            if pr == "*":
                e = e[1] if e[0] == "ref" else ("deref", e)
            elif isinstance(pr, dict) and "i" in pr and "closure" in pr and e[0] == "agg" and isinstance(e[1], str) and \
                    "{closure" in e[1] and pr["i"] < len(e[3]):
                # the closure value was built in this very body (a desugared / inlined closure): the captured operand
                e = e[3][pr["i"]]
            elif isinstance(pr, dict) and "i" in pr and "closure" in pr:
                ups = self.fn.j.get("upvars") or []
                nm = ups[pr["i"]] if pr["i"] < len(ups) else "upvar%d" % pr["i"]
                e = ("upvar", pr["i"], nm)
            elif isinstance(pr, dict) and "i" in pr:
                e = ("field", e, pr.get("f", str(pr["i"])), pr.get("a"))
            elif isinstance(pr, dict) and "dc" in pr:
                e = ("as", e, pr["dc"])
            elif isinstance(pr, dict) and "idx" in pr:
                e = ("index", e, self.expr_of_local(pr["idx"], depth + 1, seen))
            elif isinstance(pr, dict) and "cidx" in pr:
                e = ("index", e, ("const", {"int": pr["cidx"]}))
            else:
                e = ("proj", e, str(pr))
        return e

    def expr_of_operand(self, o, depth=0, seen=None):
        if "k" in o:
            k = o["k"]
            if "promoted" in k and self.promoted_index is None and k["promoted"] < len(self.fn.promoted):
                pb = self.fn.promoted[k["promoted"]]
                return pb.expr_of_local(0, depth + 1)
            return ("const", k)
        p = o.get("c") or o.get("m")
        return self.expr_of_place(p, depth, seen)

    def expr_of_rvalue(self, rv, depth=0, seen=None):
        k = rv["k"]
        if k == "use":
            return self.expr_of_operand(rv["op"], depth, seen)
        if k == "ref" or k == "rawptr":
            return ("ref", self.expr_of_place(rv["place"], depth, seen))
        if k == "binop":
            return ("binop", rv["op"], self.expr_of_operand(rv["a"], depth, seen),
                    self.expr_of_operand(rv["b"], depth, seen))
        if k == "unop":
            return ("unop", rv["op"], self.expr_of_operand(rv["a"], depth, seen))
        if k == "cast":
            return ("cast", rv["kind"], self.expr_of_operand(rv["op"], depth, seen), rv["from"], rv["ty"])
        if k == "discr":
            return ("discr", self.expr_of_place(rv["place"], depth, seen), rv.get("adt"), rv.get("variants"))
        if k == "agg":
            return ("agg", rv.get("adt") or rv.get("closure") or rv["agg"], rv.get("variant"),
                    [self.expr_of_operand(o, depth, seen) for o in rv["ops"]], rv.get("field_names"))
        if k == "tlsref":
            return ("static", rv["static"])
        if k == "repeat":
            return ("repeat", self.expr_of_operand(rv["op"], depth, seen))
        return ("other", k)

    # ---- uses -----------------------------------------------------------------
    def uses_of_local(self, l):
        """All (bb, kind, obj) where local l is read as an operand base."""
        out = []
        for b, blk in enumerate(self.blocks):
            for i, s in enumerate(blk["stmts"]):
                if s["k"] == "=" and rvalue_mentions(s["rv"], l):
                    out.append((b, "stmt", s))
            t = blk["term"]
            if t["k"] == "call":
                for ai, a in enumerate(t["args"]):
                    if operand_local(a) == l:
                        out.append((b, "arg%d" % ai, t))
            elif t["k"] == "switch" and operand_local(t["op"]) == l:
                out.append((b, "switch", t))
            elif t["k"] == "drop" and t["place"]["l"] == l:
                out.append((b, "drop", t))
        return out


def operand_local(o):
    p = o.get("c") or o.get("m")
    return p["l"] if p else None


def operand_place(o):
    return o.get("c") or o.get("m")


def rvalue_operands(rv):
    k = rv["k"]
    if k in ("use", "cast", "repeat"):
        return [rv["op"]]
    if k == "binop":
        return [rv["a"], rv["b"]]
    if k == "unop":
        return [rv["a"]]
    if k == "agg":
        return list(rv["ops"])
    return []


def rvalue_places(rv):
    ps = [operand_place(o) for o in rvalue_operands(rv)]
    ps = [p for p in ps if p]
    if rv["k"] in ("ref", "rawptr", "discr"):
        ps.append(rv["place"])
    return ps


def rvalue_mentions(rv, l):
    return any(p["l"] == l for p in rvalue_places(rv))


def callee_path(term):
    f = term["func"]
    if "k" in f and "fn" in f["k"]:
        return f["k"]["fn"]
    return "<indirect>"


def const_of(op):
    return op.get("k")


def const_variant(op):
    k = op.get("k")
    return k.get("variant") if k else None


def const_int(op):
    k = op.get("k")
    return k.get("int") if k else None


# ------------------------------------------------------------------ expression helpers

def strip(e):
    """Drop refs / derefs / copies: canonical access path."""
    while e and e[0] in ("ref", "deref"):
        e = e[1]
    return e


def canon(e):
    """Canonical string of an expression (refs/derefs dropped)."""
    if e is None:
        return "?"
    k = e[0]
    if k in ("ref", "deref"):
        return canon(e[1])
    if k == "param":
        return e[2]
    if k == "upvar":
        return e[2]
    if k == "local":
        return "_%d" % e[1]
    if k == "phi":
        return "phi(%s)" % e[2]
    if k == "field":
        return "%s.%s" % (canon(e[1]), e[2])
    if k == "as":
        return "%s as %s" % (canon(e[1]), e[2])
    if k == "index":
        return "%s[%s]" % (canon(e[1]), canon(e[2]))
    if k == "const":
        c = e[1]
        if "variant" in c:
            return c["variant"]
        if "int" in c:
            return str(c["int"])
        if "fn" in c:
            return c["fn"]
        return c.get("text", "?")
    if k == "call":
        return "%s(%s)" % (e[1], ", ".join(canon(a) for a in e[2]))
    if k == "binop":
        return "(%s %s %s)" % (canon(e[2]), e[1], canon(e[3]))
    if k == "unop":
        return "%s(%s)" % (e[1], canon(e[2]))
    if k == "cast":
        return "(%s as %s)" % (canon(e[2]), e[4])
    if k == "discr":
        return "discr(%s)" % canon(e[1])
    if k == "agg":
        return "%s::%s{%s}" % (e[1], e[2], ", ".join(canon(a) for a in e[3]))
    if k == "static":
        return "static(%s)" % e[1]
    return str(e)


def subexprs(e):
    """All sub-expressions, pre-order."""
    if not isinstance(e, tuple):
        return
    yield e
    for x in e[1:]:
        if isinstance(x, tuple):
            yield from subexprs(x)
        elif isinstance(x, list):
            for y in x:
                if isinstance(y, tuple):
                    yield from subexprs(y)


def calls_in(e):
    return [x for x in subexprs(e) if x[0] == "call"]


class Fn:
    def __init__(self, key, j):
        self.key = key
        self.j = j
        self.kind = j["kind"]
        self.file = j["file"]
        self.line = j["line"]
        self.body = Body(j["body"], self)
        self.promoted = [Body(p, self, i) for i, p in enumerate(j.get("promoted", []))]

    def __repr__(self):
        return "Fn(%s)" % self.key

    @property
    def name(self):
        return self.j.get("name") or self.key.split("::")[-1]

    def loc(self, line=None):
        return "%s:%s" % (self.file, line or self.line)


class Inst:
    def __init__(self, j):
        self.id = j["id"]
        self.key = j["def"]
        self.args = j["args"]
        self.root = j["root"]
        self.identity = j["identity"]
        self.calls = {int(k): v for k, v in j["calls"].items()}
        self.drops = {int(k): v for k, v in j["drops"].items()}

    def __repr__(self):
        return "Inst#%d(%s%s)" % (self.id, self.key, "" if self.identity else " " + self.args)


# behaviour models of external higher-order functions: how often they invoke a closure argument.
# 'once'  = exactly once or diverge;  'opt' = at most once;  anything unlisted = any number ('many').
HOF_MODELS = {
    "scoped_tls::ScopedKey::<T>::with": "once",
    "scoped_tls::ScopedKey::<T>::set": "once",
    "std::thread::LocalKey::<T>::with": "once",
    "tracing::subscriber::with_default": "once",
    "tracing::dispatcher::get_default": "once",
    "std::option::Option::<T>::map": "opt",
    "std::option::Option::<T>::and_then": "opt",
    "std::option::Option::<T>::map_or": "opt",
    "std::option::Option::<T>::map_or_else": "opt",
    "std::option::Option::<T>::unwrap_or_else": "opt",
    "std::option::Option::<T>::ok_or_else": "opt",
    "std::option::Option::<T>::or_else": "opt",
    "std::option::Option::<T>::filter": "opt",
    "std::result::Result::<T, E>::map": "opt",
    "std::result::Result::<T, E>::map_err": "opt",
    "std::result::Result::<T, E>::and_then": "opt",
    "std::result::Result::<T, E>::unwrap_or_else": "opt",
    "std::result::Result::<T, E>::or_else": "opt",
}


class Program:
    def __init__(self, j, config="all", path=None):
        self.config = config
        self.path = path
        self.crate = j["crate"]
        self.fns = {k: Fn(k, v) for k, v in j["fns"].items()}
        for f in self.fns.values():
            f.prog = self
        self.adts = j["adts"]
        self.statics = j["statics"]
        self.impls = j["impls"]
        self.insts = [Inst(x) for x in j["instances"]]
        self.by_def = defaultdict(list)
        for i in self.insts:
            self.by_def[i.key].append(i.id)
        self._edges = {}
        self._writers = None

    # ---- lookup ----------------------------------------------------------------
    def fn(self, key):
        f = self.fns.get(key)
        if f is not None and f.j.get("stub"):
            return None         # flattened into its callers by lint/normalize.py: as an anchor it does not exist
        return f

    def body_of(self, inst_id):
        return self.fns[self.insts[inst_id].key].body

    def ident(self, key):
        """Identity instance id of a definition (None if absent)."""
        f = self.fns.get(key)
        if f is not None and f.j.get("stub"):
            return None
        for i in self.by_def.get(key, []):
            if self.insts[i].identity:
                return i
        ids = self.by_def.get(key, [])
        return ids[0] if ids else None

    def find_fns(self, suffix=None, pred=None):
        out = []
        for k, f in self.fns.items():
            if suffix is not None and not (k == suffix or k.endswith("::" + suffix)):
                continue
            if pred and not pred(f):
                continue
            out.append(k)
        return out

    def closures_of(self, key):
        """Closures (transitively) defined in `key`.  Uses the parent links, so that closures of an inlined private helper
        (lint/normalize.py re-parents them) belong to the function the helper was inlined into."""
        out = []
        for k, f in self.fns.items():
            if f.kind != "Closure":
                continue
            cur = f
            for _ in range(8):
                pk = cur.j.get("parent_fn")
                if pk == key:
                    out.append(k)
                    break
                cur = self.fns.get(pk)
                if cur is None or cur.kind != "Closure":
                    break
        return out

    # ---- call graph ------------------------------------------------------------------
    def call_targets(self, inst_id, bb, with_model=False):
        """Instances possibly invoked by the call terminator at (inst, bb).
        Returns list of (inst_id, how) with how in {'direct','once','opt','many'}."""
        inst = self.insts[inst_id]
        c = inst.calls.get(bb)
        if not c:
            return []
        out = []
        if c["k"] == "inst":
            out.append((c["id"], "direct"))
        elif c["k"] in ("ext", "virtual", "intrinsic", "cloneshim", "shim", "fnptr"):
            model = HOF_MODELS.get(c.get("path", ""), "many")
            for fa in c.get("fnargs", []):
                if "inst" in fa:
                    out.append((fa["inst"], model))
        elif c["k"] == "dropglue":
            for d in c["glue"]["drops"]:
                out.append((d, "many"))
        return out

    def drop_targets(self, inst_id, bb):
        inst = self.insts[inst_id]
        g = inst.drops.get(bb)
        if not g:
            return []
        return list(g["drops"])

    def edges(self, inst_id, unwind=True):
        """All (bb, target_inst, how) leaving an instance (calls + drop glue)."""
        key = (inst_id, unwind)
        if key in self._edges:
            return self._edges[key]
        body = self.body_of(inst_id)
        out = []
        for b in range(body.n):
            t = body.term(b)
            if t["k"] in ("call", "tailcall"):
                for (ti, how) in self.call_targets(inst_id, b):
                    out.append((b, ti, how))
            elif t["k"] == "drop":
                for ti in self.drop_targets(inst_id, b):
                    out.append((b, ti, "drop"))
        self._edges[key] = out
        return out

    def reach(self, roots, skip_cleanup=False, stop=None):
        """BFS over the instance graph. Returns {inst: (pred_inst, bb)}."""
        parent = {}
        dq = deque()
        for r in roots:
            if r is not None and r not in parent:
                parent[r] = None
                dq.append(r)
        while dq:
            i = dq.popleft()
            if stop and stop(i):
                continue
            body = self.body_of(i)
            for (b, t, how) in self.edges(i):
                if skip_cleanup and body.blocks[b]["cleanup"]:
                    continue
                if t not in parent:
                    parent[t] = (i, b)
                    dq.append(t)
        return parent

    def witness(self, parent, target):
        path = []
        cur = target
        while cur is not None:
            p = parent.get(cur)
            if p is None:
                path.append((cur, None))
                break
            path.append((cur, p[1]))
            cur = p[0]
        path.reverse()
        return path

    def fmt_path(self, path):
        out = []
        for (i, b) in path:
            inst = self.insts[i]
            fn = self.fns[inst.key]
            out.append(inst.key if b is None else "%s (called at bb%d)" % (inst.key, b))
        return " -> ".join(out)

    # ---- call sites ------------------------------------------------------------------
    def sites(self, inst_id):
        """Yield (bb, term, callee_record) for every call in an instance."""
        if inst_id is None:
            return          # e.g. the instance of a closure that was desugared / a helper that was flattened
        inst = self.insts[inst_id]
        body = self.body_of(inst_id)
        for b in range(body.n):
            t = body.term(b)
            if t["k"] in ("call", "tailcall"):
                yield b, t, inst.calls.get(b, {"k": "none", "path": callee_path(t)})

    def callee_key(self, c):
        """Def key the call resolves to (instance def or external path)."""
        if c["k"] == "inst":
            return self.insts[c["id"]].key
        return c.get("path", "?")

    def site_loc(self, inst_id, bb):
        inst = self.insts[inst_id]
        fn = self.fns[inst.key]
        t = fn.body.term(bb)
        return "%s:%s (%s bb%d)" % (fn.file, t.get("ln", fn.line), inst.key, bb)

    # ---- A6 writers ---------------------------------------------------------------
    def writers(self):
        """(adt, field) -> list of dict(fn, bb, idx, kind, exact, stmt)."""
        if self._writers is not None:
            return self._writers
        w = defaultdict(list)
        for key, fn in self.fns.items():
            body = fn.body
            for b, blk in enumerate(body.blocks):
                if blk["cleanup"]:
                    # unwind copies of `place = value` (drop-and-replace) repeat the normal-path write
                    continue
                for i, s in enumerate(blk["stmts"]):
                    if s["k"] in ("=", "setdiscr") and s["lhs"]["p"] == ["*"]:
                        # whole-value write through a `&mut T` reference (T a local ADT): key (T, "*")
                        lt = body.locals[s["lhs"]["l"]]["ty"]
                        if lt.startswith("&mut ") and lt[5:] in self.adts:
                            w[(lt[5:], "*")].append(dict(fn=key, bb=b, idx=i, kind="assign", exact=True, stmt=s))
                    if s["k"] in ("=", "setdiscr"):
                        fields = [p for p in s["lhs"]["p"] if isinstance(p, dict) and "f" in p and p.get("a")]
                        for n, p in enumerate(fields):
                            last_field = (p is fields[-1])
                            # exact: nothing but derefs/downcasts after the last field
                            w[(p["a"], p["f"])].append(dict(fn=key, bb=b, idx=i, kind="assign",
                                                             exact=last_field, stmt=s))
                    if s["k"] == "=" and s["rv"]["k"] in ("ref", "rawptr") and s["rv"].get("mut"):
                        fields = [p for p in s["rv"]["place"]["p"] if isinstance(p, dict) and "f" in p and p.get("a")]
                        for p in fields:
                            w[(p["a"], p["f"])].append(dict(fn=key, bb=b, idx=i, kind="borrow_mut",
                                                             exact=(p is fields[-1]), stmt=s))
                t = blk["term"]
                if t["k"] == "call":
                    fields = [p for p in t["dest"]["p"] if isinstance(p, dict) and "f" in p and p.get("a")]
                    for p in fields:
                        w[(p["a"], p["f"])].append(dict(fn=key, bb=b, idx="term", kind="assign",
                                                         exact=(p is fields[-1]), stmt=t))
                # aggregates constructing the ADT
                for i, s in enumerate(blk["stmts"]):
                    if s["k"] == "=" and s["rv"]["k"] == "agg" and s["rv"].get("agg") == "adt":
                        for fname, op in zip(s["rv"].get("field_names", []), s["rv"]["ops"]):
                            w[(s["rv"]["adt"], fname)].append(dict(fn=key, bb=b, idx=i, kind="construct",
                                                                    exact=True, stmt=s, op=op))
        self._writers = w
        return w

    # ---- flow of a mutable borrow to its consumer ------------------------------------
    def borrow_consumer(self, fn_key, bb, idx):
        """For `_t = &mut place` at (bb, idx): the call (bb, term, argpos) that receives _t
        (following moves / reborrows within straight-line successors)."""
        body = self.fns[fn_key].body
        blk = body.blocks[bb]
        s = blk["stmts"][idx]
        cur = {s["lhs"]["l"]}
        b = bb
        start = idx + 1
        for _ in range(6):
            blk = body.blocks[b]
            for st in blk["stmts"][start:]:
                if st["k"] != "=":
                    continue
                rv = st["rv"]
                if rv["k"] == "use" and operand_local(rv["op"]) in cur and not operand_place(rv["op"])["p"]:
                    cur.add(st["lhs"]["l"])
                elif rv["k"] == "ref" and rv["place"]["l"] in cur and rv["place"]["p"] == ["*"]:
                    cur.add(st["lhs"]["l"])
            t = blk["term"]
            if t["k"] == "call":
                for ai, a in enumerate(t["args"]):
                    if operand_local(a) in cur and not operand_place(a)["p"]:
                        return (b, t, ai)
                return None
            if t["k"] == "goto":
                b = t["target"]
                start = 0
                continue
            return None
        return None


# ---------------------------------------------------------------------- must / may analyses

TOP = None  # universe (path never returns)


def _meet(a, b):
    if a is TOP:
        return b
    if b is TOP:
        return a
    return a & b


class EventAnalysis:
    """A2/A3: must-pass-through over the resolved, partially monomorphised program.

    `matcher(prog, inst_id, bb, term, callee)` returns an iterable of event names generated by
    the call *itself* (before descending into the callee)."""

    def __init__(self, prog, matcher, use_drops=True, skip_noise=True, stop=None, assume=None):
        self.assume = assume       # PEval-style assumption pruning switch edges (all instances)
        self._allowed = {}
        self.p = prog
        self.matcher = matcher
        self.use_drops = use_drops
        self.skip_noise = skip_noise
        self.stop = stop           # inst -> bool: treat as opaque leaf (no events inside)
        self.must = {}
        self.may = {}
        self._gen_cache = {}

    def _direct(self, i, b, t):
        key = (i, b)
        if key not in self._gen_cache:
            inst = self.p.insts[i]
            c = inst.calls.get(b, {"k": "none", "path": callee_path(t)})
            self._gen_cache[key] = frozenset(self.matcher(self.p, i, b, t, c) or ())
        return self._gen_cache[key]

    def _site_must(self, i, b, t):
        """Events that must have occurred when the terminator at b completes normally."""
        if t["k"] in ("call", "tailcall"):
            if self.skip_noise and is_noise(t):
                return frozenset()
            g = set(self._direct(i, b, t))
            for (ti, how) in self.p.call_targets(i, b):
                if how in ("direct", "once"):
                    m = self.must.get(ti, TOP)
                    if m is TOP:
                        return TOP
                    g |= m
            return frozenset(g)
        if t["k"] == "drop" and self.use_drops:
            own = self.p.insts[i].drops.get(b, {}).get("own")
            if own is not None:
                m = self.must.get(own, TOP)
                if m is TOP:
                    return TOP
                return frozenset(m)
        return frozenset()

    def _site_may(self, i, b, t):
        if t["k"] in ("call", "tailcall"):
            if self.skip_noise and is_noise(t):
                return frozenset()
            g = set(self._direct(i, b, t))
            for (ti, how) in self.p.call_targets(i, b):
                g |= self.may.get(ti, frozenset())
            return frozenset(g)
        if t["k"] == "drop" and self.use_drops:
            g = set()
            for ti in self.p.drop_targets(i, b):
                g |= self.may.get(ti, frozenset())
            return frozenset(g)
        return frozenset()

    def block_out(self, i):
        """Forward must-dataflow inside one instance (normal edges). Returns (IN, OUT) per block."""
        body = self.p.body_of(i)
        order = body.rpo(False)
        preds = body.preds(False)
        if self.assume is not None:
            preds = self._pruned_preds(body)
        IN = {b: TOP for b in order}
        OUT = {b: TOP for b in order}
        IN[0] = frozenset()
        changed = True
        it = 0
        while changed and it < 50:
            changed = False
            it += 1
            for b in order:
                if b != 0:
                    acc = TOP
                    anyp = False
                    for pb in preds[b]:
                        if pb in OUT:
                            anyp = True
                            acc = _meet(acc, OUT[pb])
                    new_in = acc if anyp else TOP
                else:
                    new_in = frozenset()
                t = body.term(b)
                if new_in is TOP:
                    new_out = TOP
                else:
                    g = self._site_must(i, b, t)
                    diverges = t["k"] == "call" and t.get("target") is None
                    new_out = TOP if (g is TOP or diverges) else (new_in | g)
                if new_in != IN[b] or new_out != OUT[b]:
                    IN[b] = new_in
                    OUT[b] = new_out
                    changed = True
        return IN, OUT

    def _pruned_preds(self, body):
        key = id(body)
        if key not in self._allowed:
            p = defaultdict(list)
            for b in range(body.n):
                t = body.term(b)
                succs = body.succs(b, False)
                if t["k"] == "switch":
                    al = self.assume(body, b, t, body.expr_of_operand(t["op"]))
                    if al is not None:
                        succs = [x for x in succs if x in al]
                for x in succs:
                    p[x].append(b)
            self._allowed[key] = p
        return self._allowed[key]

    def solve(self, roots):
        sub = list(self.p.reach(roots, stop=self.stop).keys())
        self.sub = sub
        for i in sub:
            self.must[i] = TOP
            self.may[i] = frozenset()
        # may: least fixpoint
        changed = True
        while changed:
            changed = False
            for i in sub:
                if self.stop and self.stop(i):
                    continue
                body = self.p.body_of(i)
                acc = set(self.may[i])
                for b in range(body.n):
                    acc |= self._site_may(i, b, body.term(b))
                acc = frozenset(acc)
                if acc != self.may[i]:
                    self.may[i] = acc
                    changed = True
        # must: greatest fixpoint
        changed = True
        rounds = 0
        while changed and rounds < 100:
            changed = False
            rounds += 1
            for i in sub:
                if self.stop and self.stop(i):
                    new = frozenset()
                else:
                    body = self.p.body_of(i)
                    IN, OUT = self.block_out(i)
                    new = TOP
                    for rb in body.return_blocks():
                        if rb in OUT:
                            new = _meet(new, OUT[rb])
                if new != self.must[i]:
                    self.must[i] = new
                    changed = True
        return self

    def must_of(self, i):
        m = self.must.get(i, TOP)
        return m

    def holds_on_all_paths(self, i, ev):
        m = self.must.get(i, TOP)
        return m is TOP or ev in m

    def sites_may(self, i, ev):
        """Blocks of instance i whose terminator may generate ev (directly or transitively)."""
        body = self.p.body_of(i)
        return [b for b in range(body.n) if ev in self._site_may(i, b, body.term(b))]

    def must_before(self, i, first, then, depth=0, trail=None):
        """A3: on every path inside instance i, each occurrence of `then` is preceded by `first`.
        Returns list of violation witnesses (empty = holds)."""
        trail = (trail or []) + [i]
        if depth > 12:
            return []
        body = self.p.body_of(i)
        IN, OUT = self.block_out(i)
        bad = []
        for b in range(body.n):
            t = body.term(b)
            if b not in IN or IN[b] is TOP:
                # unreachable via normal edges (e.g. cleanup) -> ignore
                continue
            if then not in self._site_may(i, b, t):
                continue
            if first in IN[b]:
                continue
            direct = then in (self._direct(i, b, t) if t["k"] in ("call", "tailcall") else ())
            if direct:
                bad.append(dict(inst=i, bb=b, trail=trail))
                continue
            # both inside the callee(s): recurse
            targets = self.p.call_targets(i, b) if t["k"] in ("call", "tailcall") else \
                [(x, "drop") for x in self.p.drop_targets(i, b)]
            for (ti, how) in targets:
                if then in self.may.get(ti, ()):
                    if ti in trail:
                        continue
                    bad += self.must_before(ti, first, then, depth + 1, trail)
        return bad

    def must_after(self, i, first, then):
        """On every path in instance i, after each site generating `first` (may), `then` must occur
        before the function returns.  Intraprocedural on i with callee summaries."""
        body = self.p.body_of(i)
        bad = []
        for b in range(body.n):
            t = body.term(b)
            if first not in self._site_may(i, b, t):
                continue
            # forward must from successor of b
            if not self._must_reach_from(i, b, then):
                bad.append(dict(inst=i, bb=b))
        return bad

    def _must_reach_from(self, i, start_b, ev):
        """Every normal path from the end of start_b to a return passes a site that must generate ev."""
        body = self.p.body_of(i)
        # blocks whose terminator surely generates ev
        sure = set()
        for b in range(body.n):
            g = self._site_must(i, b, body.term(b))
            if g is TOP or ev in g:
                sure.add(b)
        # search for a path from succs(start_b) to return avoiding `sure`
        seen = set()
        st = self._site_must(i, start_b, body.term(start_b))
        if st is not TOP and ev in st and False:
            return True
        dq = list(body.succs(start_b))
        while dq:
            b = dq.pop()
            if b in seen:
                continue
            seen.add(b)
            if b in sure:
                continue
            t = body.term(b)
            if t["k"] == "return":
                return False
            if t["k"] == "call" and t.get("target") is None:
                continue
            dq.extend(body.succs(b))
        return True


def path_matcher(table):
    """Build a matcher from {event_name: predicate(callee_key, term, callee_record) -> bool}
    or {event_name: 'def path'}."""
    def m(prog, i, b, t, c):
        key = prog.callee_key(c)
        out = []
        for ev, pr in table.items():
            if isinstance(pr, str):
                if key == pr:
                    out.append(ev)
            elif isinstance(pr, (set, frozenset, list, tuple)):
                if key in pr:
                    out.append(ev)
            elif pr(key, t, c):
                out.append(ev)
        return out
    return m


# ---------------------------------------------------------------------- A4 guards / A5 partial evaluation

class Guards:
    """Branch conditions controlling a block: edge-dominance + path-sensitive reachability."""

    def __init__(self, body):
        self.body = body

    def controlling(self, bb, unwind=False):
        """List of (switch_bb, expr, value|('not', [values])) for switch edges that dominate bb."""
        body = self.body
        dom = body.dominators(unwind)
        out = []
        if bb not in dom:
            return out
        for d in sorted(dom[bb]):
            t = body.term(d)
            if t["k"] != "switch" or d == bb:
                continue
            edges = [(v, tb) for v, tb in t["targets"]] + [("otherwise", t["otherwise"])]
            taken = []
            for (v, tb) in edges:
                # does bb stay reachable if only this edge out of d is allowed?
                others = [e for e in edges if e[1] != tb]
                # remove all other edges: bb reachable only via this edge?
                reach_without = self._reach_without_edge(d, tb, unwind)
                if bb not in reach_without:
                    taken.append(v)
            if len(taken) == 1 and len({tb for _, tb in edges}) > 1:
                v = taken[0]
                e = body.expr_of_operand(t["op"])
                if v == "otherwise":
                    out.append((d, e, ("not", [x[0] for x in t["targets"]])))
                else:
                    out.append((d, e, v))
            elif len(taken) > 1 and "otherwise" in taken and len({tb for _, tb in edges}) > 1 and \
                    len({tb for (v_, tb) in edges if v_ in taken}) == 1:
                # a listed value and the otherwise edge lead to the same block (`match x { A => .., _ => .. }` written out as
                # `[A -> a, B -> b] else b`): the block is entered exactly when the value is none of the others
                e = body.expr_of_operand(t["op"])
                out.append((d, e, ("not", [x[0] for x in t["targets"] if x[0] not in taken])))
        return out

    def _reach_without_edge(self, d, tb, unwind):
        body = self.body
        seen = {0}
        dq = [0]
        while dq:
            b = dq.pop()
            for s in body.succs(b, unwind):
                if b == d and s == tb:
                    continue
                if s not in seen:
                    seen.add(s)
                    dq.append(s)
        return seen


def truth_of_guard(expr, val):
    """Normalise a guard on a boolean / discriminant expression.
    Returns list of atoms (kind, subject_expr, payload, polarity)."""
    e = expr
    pol = None
    if isinstance(val, tuple) and val[0] == "not":
        vals = val[1]
        if vals == [0]:
            pol = True
        elif vals == [1]:
            pol = False
    elif val == 0:
        pol = False
    elif val == 1:
        pol = True
    # unwrap Not
    while e[0] == "unop" and e[1] == "Not" and pol is not None:
        e = e[2]
        pol = not pol
    return e, pol, val


class PEval:
    """A5: path-sensitive reachability of blocks under assumptions.

    assume(body, bb, term, expr) -> None (unknown) or set of allowed successor blocks.
    Locals assigned boolean / integer constants are tracked per path (bounded), so that
    `matches!`-temporaries and `let mut flag = false; ... flag = true` idioms are followed."""

    def __init__(self, body, assume=None, unwind=False, bindings=None):
        self.body = body
        self.assume = assume
        self.unwind = unwind
        self.bindings = bindings or {}    # local -> ('int', n) | ('variant', adt, name)
        self._tracked = self._tracked_locals()
        self._flow = self._flow_locals()

    def _tracked_locals(self):
        tr = set()
        body = self.body
        for l, ds in body.defs().items():
            if not ds:
                continue
            ok = True
            for d in ds:
                if d[0] == "call" and self.assume is not None and self.body.locals[l]["ty"] == "bool" and len(ds) > 1:
                    # a bool join of constants and predicate calls (e.g. an inlined `a() && b()` helper): the value of the
                    # call is asked from the assumption when the path passes the call
                    continue
                if d[0] != "stmt" or d[3]["k"] != "=":
                    ok = False
                    break
                rv = d[3]["rv"]
                if not (rv["k"] == "use" and "k" in rv["op"] and "int" in rv["op"]["k"]):
                    ok = False
                    break
            if ok:
                tr.add(l)
        return tr

    def _flow_locals(self):
        """bool locals that take part in a multi-definition flow (a join of constants, copies, calls, comparisons) - directly or
        as the source copied into such a join.  Only used with an assumption (otherwise nothing could be known about them)."""
        if self.assume is None:
            return set()
        body = self.body
        out = set()
        defs = body.defs()
        for l, ds in defs.items():
            if l < len(body.locals) and body.locals[l]["ty"] == "bool" and len(ds) > 1 and l not in self._tracked:
                out.add(l)
        changed = True
        while changed:
            changed = False
            for l in list(out):
                for d in defs.get(l, []):
                    if d[0] == "stmt" and d[3]["k"] == "=" and d[3]["rv"]["k"] == "use":
                        src = operand_local(d[3]["rv"]["op"])
                        p = operand_place(d[3]["rv"]["op"])
                        if src is not None and p is not None and not p["p"] and src not in out and src not in self._tracked and \
                                src < len(body.locals) and body.locals[src]["ty"] == "bool" and src > body.arg_count:
                            out.add(src)
                            changed = True
        return out

    def _option_local(self, op):
        """The Option-typed local an is_some/is_none receiver (`&opt`, possibly through one copy) refers to."""
        p = operand_place(op)
        if p is None or p["p"]:
            return None
        l = p["l"]
        for _ in range(3):
            ds = self.body.defs().get(l, [])
            if len(ds) == 1 and ds[0][0] == "stmt" and ds[0][3]["k"] == "=":
                rv = ds[0][3]["rv"]
                if rv["k"] == "ref" and not rv["place"]["p"]:
                    l = rv["place"]["l"]
                    continue
                if rv["k"] == "use" and operand_place(rv["op"]) is not None and not operand_place(rv["op"])["p"]:
                    l = operand_place(rv["op"])["l"]
                    continue
            break
        return l

    def _eval_rvalue(self, rv, env, b):
        k = rv["k"]
        hook = getattr(self.assume, "value_of", None)
        if k == "use":
            v = self._eval_operand(rv["op"], env)
            if v is None and hook is not None:
                # a flag copied out of state the assumption talks about (`let hidden = newer.seq_cst`)
                r = hook(self.body, b, self.body.expr_of_operand(rv["op"]))
                if r is not None:
                    return ("int", 1 if r else 0)
            return v
        if k == "unop" and rv["op"] == "Not":
            v = self._eval_operand(rv["a"], env)
            return ("int", 0 if v[1] else 1) if v and v[0] == "int" else None
        if hook is not None:
            r = hook(self.body, b, self.body.expr_of_rvalue(rv))
            if r is not None:
                return ("int", 1 if r else 0)
        if k == "binop" and rv["op"] in ("Eq", "Ne", "Lt", "Le", "Gt", "Ge"):
            a = self._eval_operand(rv["a"], env)
            c = self._eval_operand(rv["b"], env)
            if a and c and a[0] == "int" and c[0] == "int":
                r = {"Eq": a[1] == c[1], "Ne": a[1] != c[1], "Lt": a[1] < c[1], "Le": a[1] <= c[1],
                     "Gt": a[1] > c[1], "Ge": a[1] >= c[1]}[rv["op"]]
                return ("int", 1 if r else 0)
        return None

    def _eval_operand(self, o, env):
        if "k" in o:
            k = o["k"]
            if "int" in k:
                return ("int", k["int"])
            return None
        p = operand_place(o)
        if p["p"]:
            return None
        return self._eval_local(p["l"], env, 0)

    def _eval_local(self, l, env, depth):
        if l in env:
            return env[l]
        if l in self.bindings:
            return self.bindings[l]
        if depth > 10:
            return None
        ds = self.body.defs().get(l, [])
        if len(ds) != 1 or ds[0][0] != "stmt" or ds[0][3]["k"] != "=":
            return None
        rv = ds[0][3]["rv"]
        if rv["k"] == "use":
            o = rv["op"]
            if "k" in o:
                return ("int", o["k"]["int"]) if "int" in o["k"] else None
            p = operand_place(o)
            if not p["p"]:
                return self._eval_local(p["l"], env, depth + 1)
            return None
        if rv["k"] == "discr":
            p = rv["place"]
            base = None
            if not p["p"] or p["p"] == ["*"]:
                base = self._eval_local(p["l"], env, depth + 1)
            if base and base[0] == "variant":
                return ("int", base[3]) if len(base) > 3 and base[3] is not None else None
            return None
        if rv["k"] == "ref" and (not rv["place"]["p"]):
            return self._eval_local(rv["place"]["l"], env, depth + 1)
        if rv["k"] == "unop" and rv["op"] == "Not":
            v = self._eval_operand(rv["a"], env)
            if v and v[0] == "int":
                return ("int", 0 if v[1] else 1)
        if rv["k"] == "binop" and rv["op"] in ("Eq", "Ne", "Lt", "Le", "Gt", "Ge"):
            a = self._eval_operand(rv["a"], env)
            b = self._eval_operand(rv["b"], env)
            if a and b and a[0] == "int" and b[0] == "int":
                r = {"Eq": a[1] == b[1], "Ne": a[1] != b[1], "Lt": a[1] < b[1], "Le": a[1] <= b[1],
                     "Gt": a[1] > b[1], "Ge": a[1] >= b[1]}[rv["op"]]
                return ("int", 1 if r else 0)
        return None

    def run(self, start=0, env0=None, stop_blocks=()):
        """Returns (reached_blocks, edges_taken).  Blocks in stop_blocks are reached but not expanded."""
        body = self.body
        env0 = tuple(sorted((env0 or {}).items()))
        seen = set()
        dq = [(start, env0)]
        reached = set()
        edges = set()
        steps = 0
        while dq:
            b, envt = dq.pop()
            if (b, envt) in seen:
                continue
            seen.add((b, envt))
            steps += 1
            if steps > 20000:
                # give up path sensitivity: everything reachable
                return body.reachable(start, self.unwind), None
            reached.add(b)
            env = dict(envt)
            for s in body.blocks[b]["stmts"]:
                if s["k"] != "=" or s["lhs"]["p"]:
                    continue
                l = s["lhs"]["l"]
                if l in self._tracked and s["rv"]["k"] == "use" and "k" in s["rv"]["op"] and "int" in s["rv"]["op"]["k"]:
                    env[l] = ("int", s["rv"]["op"]["k"]["int"])
                elif s["rv"]["k"] == "agg" and s["rv"].get("adt") in ("std::option::Option", "core::option::Option") and \
                        s["rv"].get("variant") in ("Some", "None") and len(body.defs().get(l, [])) > 1:
                    # an Option assembled on several paths: remember which variant this path built (None = 0, Some = 1)
                    env[l] = ("int", 1 if s["rv"]["variant"] == "Some" else 0)
                elif s["rv"]["k"] == "discr" and not s["rv"]["place"]["p"] and s["rv"]["place"]["l"] in env and \
                        s["rv"].get("adt") in ("std::option::Option", "core::option::Option"):
                    env[l] = env[s["rv"]["place"]["l"]]
                elif l in self._flow:
                    # bool temporaries that are copied / negated / compared along the path (the shape desugared combinators and
                    # inlined predicates leave behind): evaluate when the operands are known on this path
                    v = self._eval_rvalue(s["rv"], env, b)
                    if v is not None:
                        env[l] = v
                    else:
                        env.pop(l, None)
            t = body.term(b)
            succs = body.succs(b, self.unwind)
            if b in stop_blocks and b != start:
                continue
            optsrc = None
            if t["k"] == "call" and not t["dest"]["p"] and callee_path(t).split("::")[-1] in ("is_some", "is_none") and \
                    "Option" in callee_path(t) and len(t["args"]) == 1:
                optsrc = self._option_local(t["args"][0])
                if optsrc not in env:
                    optsrc = None
            if optsrc is not None:
                some = env[optsrc][1] == 1
                env[t["dest"]["l"]] = ("int", 1 if (some == callee_path(t).endswith("is_some")) else 0)
            elif t["k"] == "call" and not t["dest"]["p"] and (t["dest"]["l"] in self._tracked or t["dest"]["l"] in self._flow):
                probe = {"k": "switch", "targets": [[0, -1]], "otherwise": -2}
                e = ("call", callee_path(t), [body.expr_of_operand(a) for a in t["args"]], b)
                allowed = self.assume(body, b, probe, e) if self.assume else None
                if allowed == {-2}:
                    env[t["dest"]["l"]] = ("int", 1)
                elif allowed == {-1}:
                    env[t["dest"]["l"]] = ("int", 0)
                else:
                    env.pop(t["dest"]["l"], None)
            if t["k"] == "switch":
                allowed = None
                v = self._eval_operand(t["op"], env)
                if v and v[0] == "int":
                    tgt = None
                    for (val, tb) in t["targets"]:
                        if val == v[1]:
                            tgt = tb
                    allowed = {tgt if tgt is not None else t["otherwise"]}
                elif self.assume:
                    ex = body.expr_of_operand(t["op"])
                    allowed = self.assume(body, b, t, ex)
                    fn_state = getattr(self.assume, "stateful", None)
                    if allowed is None and fn_state is not None:
                        # assumptions that depend on what the path has already seen ("the first test of this field ..."):
                        # the hook may keep per-path markers in env under negative keys
                        allowed = fn_state(body, b, t, ex, env)
                    fn_first = getattr(self.assume, "first_next", None)
                    if allowed is None and fn_first is not None and ex[0] == "discr" and strip(ex[1])[0] == "call" and \
                            strip(ex[1])[1] == "std::iter::Iterator::next":
                        # optional knowledge about the *first* element request of a loop on this path (e.g. "the collection is
                        # not empty"): a per-path marker records that this loop head was passed before
                        marker = -1000 - b
                        allowed = fn_first(body, b, t, ex, marker not in env)
                        env[marker] = ("int", 1)
                if allowed is not None:
                    succs = [s for s in succs if s in allowed]
            envt2 = tuple(sorted(env.items()))
            for s in succs:
                edges.add((b, s))
                dq.append((s, envt2))
        return reached, edges


def switch_targets_for(term, truth):
    """Successor blocks of a bool switch for the given truth value."""
    tgt = None
    for (val, tb) in term["targets"]:
        if val == (1 if truth else 0):
            tgt = tb
    if tgt is None:
        # otherwise-edge covers it unless an explicit target for the other value exists only
        tgt = term["otherwise"]
    return {tgt}
