"""Developer helper: pretty-print facts (not used by checks)."""
import json, sys
from . import facts
from .program import *

def show(prog, key, noise=False):
    fn = prog.fns[key]
    b = fn.body
    print("=====", key, fn.loc())
    print(" locals:", [(i, l.get("name"), l["ty"][:60]) for i, l in enumerate(b.locals)])
    inst = prog.ident(key)
    for i, bl in enumerate(b.blocks):
        print(" bb%d%s" % (i, " CLEANUP" if bl["cleanup"] else ""))
        for s in bl["stmts"]:
            if not noise and is_noise(s):
                continue
            if s["k"] == "=":
                print("    %s = %s   [%s]" % (canon(b.expr_of_place(s["lhs"])) if s["lhs"]["p"] else "_%d" % s["lhs"]["l"],
                                          json.dumps(s["rv"])[:200], s.get("exp", "")))
            else:
                print("    ", json.dumps(s)[:200])
        t = bl["term"]
        if not noise and is_noise(t):
            print("    T <noise %s> -> %s" % (t["k"], b.succs(i)))
            continue
        if t["k"] == "call":
            c = prog.insts[inst].calls.get(i) if inst is not None else None
            print("    T call %s(%s) -> _%d%s ; target=%s unwind=%s  resolved=%s [%s]" % (
                callee_path(t), ", ".join(canon(b.expr_of_operand(a)) for a in t["args"]), t["dest"]["l"],
                t["dest"]["p"] or "", t["target"], t["unwind"],
                (c or {}).get("k") + ":" + str((c or {}).get("id", (c or {}).get("path"))), t.get("exp", "")))
        elif t["k"] == "switch":
            print("    T switch %s %s else %s" % (canon(b.expr_of_operand(t["op"])), t["targets"], t["otherwise"]))
        elif t["k"] == "drop":
            g = prog.insts[inst].drops.get(i) if inst is not None else None
            print("    T drop %s : %s -> %s unwind=%s glue=%s" % (canon(b.expr_of_place(t["place"])), t["ty"][:60], t["target"], t["unwind"], g and (g["own"], g["drops"], g["opaque"])))
        else:
            print("    T", json.dumps({k: v for k, v in t.items() if k not in ("ln",)})[:200])

if __name__ == "__main__":
    prog = facts.load(sys.argv[2] if len(sys.argv) > 2 else "all")
    for k in prog.fns:
        if sys.argv[1] in k:
            show(prog, k)
