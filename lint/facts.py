"""Fact extraction orchestration and loading.

Facts are produced by the `loomfacts` rustc driver (E1) under `cargo +nightly check`
from the *current* working tree of the repository (default /repo, override with
VERIF_REPO).  Nothing of the repository is executed.  Facts are cached under the
SHA-256 of every source/manifest file so that the 20 checks of one tree share one
extraction and any edit forces a new one (fail closed if the driver did not write a
fresh file).
"""
import fcntl
import hashlib
import json
import os
import shutil
import subprocess
import sys
import time

VERIF = os.path.dirname(os.path.dirname(os.path.abspath(__file__)))
CACHE = os.path.join(VERIF, ".cache")
DRIVER_DIR = os.path.join(VERIF, "loomfacts")
DRIVER = os.path.join(DRIVER_DIR, "target", "debug", "loomfacts")

CONFIGS = {
    "all": ["--all-features"],
    "default": [],
    "checkpoint": ["--features", "checkpoint"],
    "futures": ["--features", "futures"],
}


def repo_path():
    return os.environ.get("VERIF_REPO", "/repo")


def source_hash(repo):
    h = hashlib.sha256()
    files = []
    for root, dirs, fs in os.walk(repo):
        dirs[:] = sorted(d for d in dirs if d not in ("target", ".git"))
        for f in sorted(fs):
            p = os.path.join(root, f)
            rel = os.path.relpath(p, repo)
            if rel.endswith((".rs", ".toml", ".lock")):
                files.append((rel, p))
    for rel, p in sorted(files):
        h.update(rel.encode())
        h.update(b"\0")
        with open(p, "rb") as fh:
            h.update(fh.read())
        h.update(b"\0")
    # the driver itself is part of the key: a changed extractor must not reuse old facts
    for root, dirs, fs in os.walk(os.path.join(DRIVER_DIR, "src")):
        for f in sorted(fs):
            with open(os.path.join(root, f), "rb") as fh:
                h.update(fh.read())
    return h.hexdigest()[:24]


def _nightly_sysroot():
    return subprocess.check_output(["rustc", "+nightly", "--print", "sysroot"], text=True).strip()


def ensure_driver():
    """Build the driver if it is missing or older than its sources (offline)."""
    newest = 0
    for root, _, fs in os.walk(os.path.join(DRIVER_DIR, "src")):
        for f in fs:
            newest = max(newest, os.path.getmtime(os.path.join(root, f)))
    if os.path.exists(DRIVER) and os.path.getmtime(DRIVER) >= newest:
        return
    os.makedirs(CACHE, exist_ok=True)
    with open(os.path.join(CACHE, "driver.lock"), "w") as lk:
        fcntl.flock(lk, fcntl.LOCK_EX)
        if os.path.exists(DRIVER) and os.path.getmtime(DRIVER) >= newest:
            return
        env = dict(os.environ, CARGO_NET_OFFLINE="true")
        r = subprocess.run(["cargo", "build", "--offline"], cwd=DRIVER_DIR, env=env,
                           stdout=subprocess.PIPE, stderr=subprocess.STDOUT, text=True)
        if r.returncode != 0:
            sys.stderr.write(r.stdout)
            raise SystemExit("loomfacts driver failed to build")


def extract(config="all", repo=None, crate="loom", target_dir=None, quiet=True):
    """Return the path of a facts file for (repo tree, config); extract if not cached."""
    repo = repo or repo_path()
    os.makedirs(os.path.join(CACHE, "facts"), exist_ok=True)
    key = source_hash(repo)
    out = os.path.join(CACHE, "facts", "%s-%s-%s.json" % (crate, key, config))
    if os.path.exists(out) and os.path.getsize(out) > 1000:
        return out
    ensure_driver()
    tdir = target_dir or os.environ.get("VERIF_TARGET_DIR") or os.path.join(CACHE, "target")
    os.makedirs(tdir, exist_ok=True)
    with open(os.path.join(tdir, ".verif.lock"), "w") as lk:
        fcntl.flock(lk, fcntl.LOCK_EX)
        if os.path.exists(out) and os.path.getsize(out) > 1000:
            return out
        # cargo must not replay a cached result for the crate under analysis
        fp = os.path.join(tdir, "debug", ".fingerprint")
        if os.path.isdir(fp):
            for d in os.listdir(fp):
                if d.startswith(crate.replace("_", "-") + "-") or d.startswith(crate + "-"):
                    shutil.rmtree(os.path.join(fp, d), ignore_errors=True)
        tmp_out = out + ".new.%d" % os.getpid()      # concurrent extractions of the same tree (different target dirs) must not collide
        if os.path.exists(tmp_out):
            os.remove(tmp_out)
        env = dict(os.environ)
        env.update({
            "CARGO_NET_OFFLINE": "true",
            "LD_LIBRARY_PATH": _nightly_sysroot() + "/lib:" + env.get("LD_LIBRARY_PATH", ""),
            "RUSTFLAGS": "-Zmir-opt-level=0 -Awarnings",
            "RUSTC_WORKSPACE_WRAPPER": DRIVER,
            "LOOMFACTS_OUT": tmp_out,
            "LOOMFACTS_CRATE": crate,
            "CARGO_TARGET_DIR": tdir,
        })
        env.pop("RUSTC_WRAPPER", None)
        cmd = ["cargo", "+nightly", "check", "--offline", "--lib"] + CONFIGS[config]
        t0 = time.time()
        r = subprocess.run(cmd, cwd=repo, env=env, stdout=subprocess.PIPE,
                           stderr=subprocess.STDOUT, text=True)
        if r.returncode != 0 or not os.path.exists(tmp_out):
            sys.stderr.write(r.stdout[-6000:])
            raise SystemExit("fact extraction failed (config=%s, repo=%s): the tree does not build "
                             "or the driver wrote no facts" % (config, repo))
        os.replace(tmp_out, out)
        if not quiet:
            sys.stderr.write("extracted %s in %.1fs\n" % (out, time.time() - t0))
    return out


def prune_cache(keep=12):
    d = os.path.join(CACHE, "facts")
    if not os.path.isdir(d):
        return
    fs = sorted((os.path.getmtime(os.path.join(d, f)), f) for f in os.listdir(d))
    for _, f in fs[:-keep]:
        try:
            os.remove(os.path.join(d, f))
        except OSError:
            pass


_loaded = {}


def load(config="all", repo=None, crate="loom", target_dir=None):
    from .program import Program
    p = extract(config, repo, crate, target_dir)
    if p not in _loaded:
        with open(p) as fh:
            j = json.load(fh)
        inlined = {}
        if not os.environ.get("VERIF_NO_INLINE"):
            from .normalize import normalize
            inlined = normalize(j)
        _loaded[p] = Program(j, config=config, path=p)
        _loaded[p].inlined = inlined
        _loaded[p].renamed = j.get("renamed", {})
        _loaded[p].desugared = j.get("desugared", {})
    return _loaded[p]
