"""Rule results, known findings, reports and evidence."""
import json
import os
import re
import time

VERIF = os.path.dirname(os.path.dirname(os.path.abspath(__file__)))
KNOWN_FILE = os.path.join(VERIF, "known_findings.txt")


def load_known():
    """known: property=Cnn key=<key> <text>   |   fixed: property=Cnn <commit> <text>"""
    known = {}
    fixed = []
    if not os.path.exists(KNOWN_FILE):
        return known, fixed
    for line in open(KNOWN_FILE):
        line = line.strip()
        if not line or line.startswith("#"):
            continue
        m = re.match(r"known:\s+property=(C\d+)\s+key=(\S+)\s*(.*)$", line)
        if m:
            known[(m.group(1), m.group(2))] = m.group(3)
            continue
        m = re.match(r"fixed:\s+property=(C\d+)\s+(\S+)\s*(.*)$", line)
        if m:
            fixed.append((m.group(1), m.group(2), m.group(3)))
    return known, fixed


class Ctx:
    """Collects the verdicts of one property check."""

    def __init__(self, prop, tier, progs, seed=0):
        self.prop = prop
        self.tier = tier
        self.progs = progs            # config name -> Program
        self.seed = seed
        self.results = []             # dict(rule, instance, status, detail, sites)
        self.violations = []          # dict(key, rule, msg, site, extra)
        self.floors = []              # dict(rule, count, floor)
        self.assumptions = []
        self.notes = []
        self.t0 = time.time()
        self.analysed_fns = set()
        self.analysed_sites = 0
        self.config = None

    @property
    def prog(self):
        return self.progs[self.config or "all"]

    # -- recording -----------------------------------------------------------
    def ok(self, rule, instance, detail="", sites=None):
        self.results.append(dict(rule=rule, instance=instance, status="pass", detail=detail,
                                 sites=sites or [], config=self.config or "all"))

    def bad(self, rule, anchor, msg, site=None, detail=None, extra=None):
        key = ("%s:%s" % (rule, anchor) + ((":" + detail) if detail else "")).replace(" ", "_")
        # the same violation may be seen in several feature configurations: report once
        for v in self.violations:
            if v["key"] == key:
                v["configs"].append(self.config or "all")
                return
        self.violations.append(dict(key=key, rule=rule, anchor=anchor, msg=msg, site=site,
                                    extra=extra or {}, configs=[self.config or "all"]))
        self.results.append(dict(rule=rule, instance=anchor + ((":" + detail) if detail else ""),
                                 status="violation", detail=msg, sites=[site] if site else [],
                                 config=self.config or "all"))

    def missing(self, rule, anchor, what="anchor does not resolve"):
        """Fail closed: the rule cannot find what it is about."""
        self.bad(rule, anchor, "ANCHOR-MISSING: %s (the rule cannot be evaluated; if the item was "
                 "renamed update lint/spec, if it was removed the property lost its mechanism)" % what,
                 detail="anchor-missing")

    def floor(self, rule, count, floor, what=""):
        self.floors.append(dict(rule=rule, count=count, floor=floor, what=what, config=self.config or "all"))
        if count < floor:
            self.bad(rule, "floor", "FLOOR: rule matched %d instance(s), fewer than the %d confirmed by "
                     "hand on the pinned tree (%s): the rule would pass vacuously" % (count, floor, what),
                     detail="floor")

    def touch(self, fn_key, sites=0):
        self.analysed_fns.add(fn_key)
        self.analysed_sites += sites

    def assume(self, text):
        if text not in self.assumptions:
            self.assumptions.append(text)

    # -- output ------------------------------------------------------------------
    def finish(self, explanation, rule_text, level_note=""):
        known, fixed = load_known()
        selftest = bool(os.environ.get("VERIF_NO_EVIDENCE"))
        if selftest:
            # rule self-test on a scratch copy: print machine-readable keys, never touch reports/evidence of /repo
            for v in self.violations:
                kind = "known" if known.get((self.prop, v["key"])) is not None else "new"
                print("SELFTEST-KEY\t%s\t%s\t%s" % (self.prop, v["key"], kind))
            return 0
        rep_dir = os.path.join(VERIF, "reports", self.prop)
        os.makedirs(rep_dir, exist_ok=True)
        # remove stale reports of earlier runs
        for f in os.listdir(rep_dir):
            if f.endswith(".json"):
                os.remove(os.path.join(rep_dir, f))
        new_violations = 0
        known_hits = 0
        lines = []
        for v in self.violations:
            fname = re.sub(r"[^A-Za-z0-9_.-]+", "_", v["key"])[:150] + ".json"
            path = os.path.join(rep_dir, fname)
            kf = known.get((self.prop, v["key"]))
            with open(path, "w") as fh:
                json.dump(dict(property=self.prop, key=v["key"], rule=v["rule"], anchor=v["anchor"],
                               message=v["msg"], site=v["site"], extra=v["extra"], configs=v["configs"],
                               known_finding=kf), fh, indent=1, default=str)
            if kf is not None:
                known_hits += 1
                lines.append("KNOWN-FINDING: property=%s %s %s" % (self.prop, v["key"], kf))
            else:
                new_violations += 1
                lines.append("VIOLATION property=%s replay=%s" % (self.prop, path))
                lines.append("  rule %s at %s: %s" % (v["rule"], v["site"] or v["anchor"], v["msg"]))
        # stale known-findings (listed but no longer reported) are informational only
        stale = [k for (p, k) in known if p == self.prop and k not in {v["key"] for v in self.violations}]
        for k in stale:
            lines.append("note: known finding %s is no longer reported on this tree" % k)
        passes = [r for r in self.results if r["status"] == "pass"]
        nontrivial = {(r["rule"], r["instance"]) for r in passes if r["sites"]}
        samples = []
        seen_rules = set()
        for r in passes:
            if r["sites"] and r["rule"] not in seen_rules:
                seen_rules.add(r["rule"])
                samples.append(dict(rule=r["rule"], instance=r["instance"], detail=r["detail"],
                                    sites=r["sites"][:4]))
        for v in self.violations[:6]:
            samples.append(dict(rule=v["rule"], instance=v["key"], status="violation" if
                                known.get((self.prop, v["key"])) is None else "known-finding",
                                detail=v["msg"][:300], sites=[v["site"]] if v["site"] else []))
        per_rule = {}
        for r in self.results:
            d = per_rule.setdefault(r["rule"], dict(instances=0, passed=0, with_sites=0))
            d["instances"] += 1
            d["passed"] += r["status"] == "pass"
            d["with_sites"] += bool(r["sites"])
        ev = dict(
            property_id=self.prop,
            tier=self.tier,
            seed=self.seed,
            level="other",
            coverage=dict(
                evaluations=len(self.results),
                distinct_nontrivial=len(nontrivial),
                rule=rule_text,
                samples=samples[:24],
                explanation=explanation,
                exhaustive=True,
                rules=per_rule,
                floors=self.floors,
                functions_analysed=len(self.analysed_fns),
                call_sites_analysed=self.analysed_sites,
                feature_configs=sorted(self.progs.keys()),
                facts_files=[os.path.basename(p.path) for p in self.progs.values()],
                program_size={c: dict(fns=len(p.fns), instances=len(p.insts), adts=len(p.adts))
                              for c, p in self.progs.items()},
                known_findings_reported=known_hits,
                normalisation={c: dict(inlined={h: sorted(set(cs)) for h, cs in sorted(getattr(p, "inlined", {}).items())},
                                       renamed=getattr(p, "renamed", {}), desugared=getattr(p, "desugared", {}))
                               for c, p in self.progs.items()},
                notes=self.notes,
            ),
            assumptions=self.assumptions + ([level_note] if level_note else []),
            wall_s=round(time.time() - self.t0, 3),
            violations=new_violations,
        )
        os.makedirs(os.path.join(VERIF, "evidence"), exist_ok=True)
        with open(os.path.join(VERIF, "evidence", self.prop + ".json"), "w") as fh:
            json.dump(ev, fh, indent=1, default=str)
        for l in lines:
            print(l)
        print("%s: %d rule instances evaluated (%d matched concrete code sites), %d new violation(s), "
              "%d known finding(s), configs=%s, %.1fs" %
              (self.prop, len(self.results), len(nontrivial), new_violations, known_hits,
               ",".join(sorted(self.progs.keys())), time.time() - self.t0))
        return 1 if new_violations else 0
