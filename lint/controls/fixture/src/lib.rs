//! Positive controls for the deny-list rules (P1, Z2): every construct the rules forbid in loom
//! appears here exactly once, so a matcher that stops matching is noticed on every run.
use std::collections::{HashMap, HashSet};

pub struct Noisy(pub u32);
impl Drop for Noisy {
    fn drop(&mut self) {}
}

pub fn p1_catch_unwind() -> bool {
    std::panic::catch_unwind(|| 1).is_ok()
}
pub fn p1_resume_unwind() {
    std::panic::resume_unwind(Box::new(1))
}
pub fn p1_abort() {
    std::process::abort()
}
pub fn p1_exit() {
    std::process::exit(1)
}
pub fn z2_iter(m: &HashMap<usize, Noisy>) -> u32 {
    m.iter().map(|(_, v)| v.0).sum()
}
pub fn z2_values_mut(m: &mut HashMap<usize, Noisy>) {
    for v in m.values_mut() {
        v.0 += 1;
    }
}
pub fn z2_values(m: &HashMap<usize, Noisy>) -> u32 {
    m.values().map(|v| v.0).sum()
}
pub fn z2_keys(m: &HashMap<usize, Noisy>) -> usize {
    m.keys().sum()
}
pub fn z2_drain(m: &mut HashMap<usize, Noisy>) -> usize {
    m.drain().count()
}
pub fn z2_into_iter(m: HashMap<usize, Noisy>) -> usize {
    m.into_iter().count()
}
pub fn z2_for_ref(m: &HashMap<usize, Noisy>) -> u32 {
    let mut s = 0;
    for (_, v) in m {
        s += v.0;
    }
    s
}
pub fn z2_set_iter(m: &HashSet<usize>) -> usize {
    m.iter().sum()
}
pub fn z2_drop_map(m: HashMap<usize, Box<dyn std::any::Any>>) {
    drop(m)
}
pub fn z2_drop_map_scope(m: HashMap<usize, Box<dyn std::any::Any>>) -> usize {
    m.len()
}
pub fn z2_retain(m: &mut HashMap<usize, Noisy>) {
    m.retain(|_, v| v.0 > 0)
}
pub fn z2_instant() -> std::time::Instant {
    std::time::Instant::now()
}
pub fn z2_system_time() -> std::time::SystemTime {
    std::time::SystemTime::now()
}
pub fn z2_thread_id() -> std::thread::ThreadId {
    std::thread::current().id()
}
pub fn z2_env() -> bool {
    std::env::var("X").is_ok()
}
