"""Normalisation of the extracted program before any rule looks at it: *private helper inlining*.

Why: the rules anchor on functions the properties name (Path::branch_thread, Execution::schedule, ...) and inspect their
control flow.  "Extract method" is the most common behaviour-preserving edit a maintainer makes; it moves a fragment of an
anchored function into a new private helper the rules have never heard of.  Instead of teaching every rule to look through
unknown helpers, the extracted program is rewritten: every call of a helper that

  * is a plain (non-trait, non-closure) function private to its module,
  * has a name no rule mentions (no word of lint/spec/*.py equals its last path segment) or does not exist in the
    reference tree the rules were written against (lint/reference.json),
  * is only ever *called directly* (never taken as a value), from at most MAX_SITES sites, and is not recursive,

is replaced by the helper's MIR (locals and blocks renumbered, arguments bound by assignments, `return` turned into an
assignment of the call destination plus a goto), and the per-instance call resolution of the helper's blocks is copied to the
caller's instances.  The helper itself is left as an empty stub.  The transformation is semantics preserving, so a rule judged
on the normalised program judges an equivalent program; it can only remove findings that were artefacts of where a fragment
of code lives.  What was inlined is recorded in prog.inlined and printed into the evidence notes.
"""
import copy
import json
import os
import re
from collections import defaultdict

MAX_SITES = 4
MAX_BLOCKS = 120
MAX_PASSES = 3

_words = None
FORCE_INLINE = set()    # selftest/inline_sim.py: helpers to inline and delete regardless of the criteria below
REPARENT = {}       # inlined helper -> (first) function it was inlined into; consulted by spec.common.enclosing_fn


def spec_words():
    """Every identifier-like word occurring in the rule sources: helpers with such a name are never inlined."""
    global _words
    if _words is None:
        w = set()
        here = os.path.dirname(os.path.abspath(__file__))
        for d in (here, os.path.join(here, "spec")):
            for f in sorted(os.listdir(d)):
                if f.endswith(".py") and f != "normalize.py":
                    with open(os.path.join(d, f)) as fh:
                        w.update(re.findall(r"[A-Za-z_][A-Za-z0-9_]*", fh.read()))
        _words = w
    return _words


_ref = None


def reference():
    """lint/reference.json: {"fns": {key: {"sig"}}, "adts": {adt: [[field, type], ..]}} of the reference tree."""
    global _ref
    if _ref is None:
        p = os.path.join(os.path.dirname(os.path.abspath(__file__)), "reference.json")
        try:
            with open(p) as fh:
                _ref = json.load(fh)
        except (OSError, ValueError):
            _ref = dict(fns={}, adts={})
    return _ref


def reference_fns():
    return set(reference()["fns"])


def _scope(key):
    return key.rsplit("::", 1)[0]


def detect_renames(j):
    """(function renames {current key: reference key}, field renames {adt: {current name: reference name}}).
    A function is taken to be renamed when, within one impl / module, exactly one reference function vanished and exactly
    one new function has the vanished one's signature.  A struct field is taken to be renamed when the struct has the same
    number of fields with the same types in the same positions and the differing names are unknown to the reference
    (a pure re-ordering keeps all names and is left alone)."""
    ref = reference()
    fns = j["fns"]
    cur = {k for k, f in fns.items() if f["kind"] in ("Fn", "AssocFn")}
    vanished = defaultdict(list)
    fresh = defaultdict(list)
    for k in ref["fns"]:
        if k not in cur:
            vanished[_scope(k)].append(k)
    for k in cur:
        if k not in ref["fns"]:
            fresh[_scope(k)].append(k)
    fn_ren = {}
    for sc, vs in vanished.items():
        ns = fresh.get(sc, [])
        if not ns:
            continue
        for v in vs:
            sig = ref["fns"][v].get("sig")
            cands = [n for n in ns if fns[n].get("sig") == sig]
            back = [x for x in vs if ref["fns"][x].get("sig") == sig]
            if len(cands) == 1 and len(back) == 1:
                fn_ren[cands[0]] = v
    # several functions of one scope renamed at once, with one signature: pair them by what they call (as closures are)
    for sc, vs in vanished.items():
        ns = [n for n in fresh.get(sc, []) if n not in fn_ren]
        vs2 = [v for v in vs if v not in fn_ren.values()]
        by_sig = defaultdict(lambda: ([], []))
        for v in vs2:
            by_sig[ref["fns"][v].get("sig")][0].append(v)
        for n in ns:
            by_sig[fns[n].get("sig")][1].append(n)
        for sig, (olds, news) in by_sig.items():
            if len(olds) < 2 or len(olds) != len(news):
                continue
            gone = {x.rsplit("::", 1)[-1] for x in olds}
            come = {x.rsplit("::", 1)[-1] for x in news}

            def fp_of(names, drop):
                # calls of the renamed functions among themselves say nothing about which is which
                return [c for c in names if c.rsplit("::", 1)[-1] not in drop]
            scores = []
            for o in olds:
                fo = fp_of(ref["fns"][o].get("fp") or [], gone)
                for n in news:
                    fn_ = fp_of(_closure_fp(fns[n]), come)
                    a, b = set(fo), set(fn_)
                    jac = (len(a & b) / len(a | b)) if (a | b) else 0.0
                    scores.append((jac, o, n))
            scores.sort(reverse=True)
            used_o, used_n, pairs = set(), set(), []
            for (jac, o, n) in scores:
                if o in used_o or n in used_n or jac < 0.5:
                    continue
                # unambiguous: no other free candidate scores the same for this old function
                if any(j2 == jac and o2 == o and n2 != n and n2 not in used_n for (j2, o2, n2) in scores):
                    continue
                used_o.add(o)
                used_n.add(n)
                pairs.append((n, o))
            if len(pairs) == len(olds):
                for n, o in pairs:
                    fn_ren[n] = o
    # moved: a method became a free function of the enclosing module (or the reverse) under the same name
    for sc, vs in vanished.items():
        for v in vs:
            if v in fn_ren.values():
                continue
            if "::" not in v:
                continue
            name = v.rsplit("::", 1)[1]
            mod = sc.rsplit("::", 1)[0] if "::" in sc else sc
            cands = [n for n in cur if n not in ref["fns"] and n not in fn_ren and "::" in n and n.rsplit("::", 1)[1] == name and
                     (_scope(n) == mod or _scope(_scope(n)) == sc or _scope(n).rsplit("::", 1)[0] == sc)]
            if len(cands) == 1 and sum(1 for x in ref["fns"] if x not in cur and x.rsplit("::", 1)[1] == name and
                                       (_scope(x) == sc)) == 1:
                fn_ren[cands[0]] = v
    fld_ren = {}
    for a, rf in ref["adts"].items():
        d = j["adts"].get(a)
        if not d or d.get("kind") != "struct" or len(d["variants"]) != 1:
            continue
        cf = [[x["name"], x["ty"]] for x in d["variants"][0]["fields"]]
        if len(cf) != len(rf) or [t for _, t in cf] != [t for _, t in rf]:
            continue
        rn = {n for n, _ in rf}
        cn = {n for n, _ in cf}
        m = {}
        for (c, _), (r, _) in zip(cf, rf):
            if c != r:
                if c in rn or r in cn:
                    m = None
                    break
                m[c] = r
        if m:
            fld_ren[a] = m
    return fn_ren, fld_ren


def _closure_fp(f):
    out = []
    for blk in f["body"]["blocks"]:
        t = blk["term"]
        if t["k"] == "call" and "k" in t["func"] and "fn" in t["func"]["k"]:
            e = t.get("exp")
            if e and any(w in e for w in ("trace", "info", "event", "span", "valueset", "level_enabled", "callsite", "dbg",
                                          "eprintln", "debug", "enabled", "__tracing_log", "metadata", "fieldset",
                                          "__macro_support", "if_log_enabled")):
                continue
            out.append(t["func"]["k"]["fn"])
    return sorted(out)


def _sim(a, b):
    """Jaccard similarity of two multisets of callee paths."""
    from collections import Counter
    ca, cb = Counter(a), Counter(b)
    inter = sum((ca & cb).values())
    union = sum((ca | cb).values())
    return 1.0 if union == 0 else inter / union


def detect_closure_renumbering(j):
    """Closures are numbered in source order inside their parent, so adding or removing a closure shifts the numbers of the
    others.  The closures of each parent are matched with the reference closures of that parent by what they call; a closure
    whose best match carries another number gets that number back, new closures get numbers the reference does not use."""
    refc = reference().get("closures") or {}
    fns = j["fns"]
    cur_by_parent = defaultdict(list)
    for k, f in fns.items():
        if f["kind"] == "Closure" and f.get("parent_fn"):
            cur_by_parent[f["parent_fn"]].append(k)
    ref_by_parent = defaultdict(list)
    for k in refc:
        i = k.rfind("::{closure#")
        ref_by_parent[k[:i]].append(k)
    ren = {}
    for parent, cks in cur_by_parent.items():
        # top-down: a renumbered parent closure carries its nested closures along via the prefix rule of apply_renames
        rks = ref_by_parent.get(parent, [])
        if not rks:
            continue
        cfp = {k: _closure_fp(fns[k]) for k in cks}
        if set(cks) == set(rks) and all(_sim(cfp[k], refc[k]) >= 0.5 for k in cks):
            continue
        def sim2(c, r):
            if not cfp[c] and not refc[r]:
                return 1.0 if c == r else 0.0       # closures that call nothing are only matched with themselves
            return _sim(cfp[c], refc[r])
        pairs = sorted(((sim2(c, r), c, r) for c in cks for r in rks), key=lambda x: (-x[0], 0 if x[1] == x[2] else 1, x[1], x[2]))
        used_c, used_r, m = set(), set(), {}
        for sim_, c, r in pairs:
            if sim_ < 0.5:
                break
            if c in used_c or r in used_r:
                continue
            m[c] = r
            used_c.add(c)
            used_r.add(r)
        # a closure without a counterpart keeps its number unless a matched closure now carries that number
        claimed = set(m.values())
        taken = claimed | set(cks) | set(rks)
        nxt = 0
        for c in sorted(cks):
            if c in m or c not in claimed:
                continue
            while "%s::{closure#%d}" % (parent, 100 + nxt) in taken:
                nxt += 1
            m[c] = "%s::{closure#%d}" % (parent, 100 + nxt)
            taken.add(m[c])
        for c, r in m.items():
            if c != r:
                ren[c] = r
    return ren


def apply_renames(j, fn_ren, fld_ren):
    """Rewrite the facts so that renamed functions / fields carry their reference names again."""
    if fn_ren:
        pref = [(n + "::{closure", v + "::{closure") for n, v in fn_ren.items()]

        def ren(s):
            if s in fn_ren:
                return fn_ren[s]
            for a, b in pref:
                if s.startswith(a):
                    return b + s[len(a):]
            return s

        def walk(x):
            if isinstance(x, dict):
                for k in list(x.keys()):
                    v = x[k]
                    if isinstance(v, str):
                        x[k] = ren(v)
                    else:
                        walk(v)
            elif isinstance(x, list):
                for i, v in enumerate(x):
                    if isinstance(v, str):
                        x[i] = ren(v)
                    else:
                        walk(v)
        walk(j["instances"])
        walk(j["impls"])
        newfns = {}         # built aside: a permutation of names (closures that swapped places) must not overwrite entries
        for k in list(j["fns"].keys()):
            f = j["fns"][k]
            walk(f)
            nk = ren(k)
            if nk in fn_ren.values() and "name" in f:
                f["name"] = nk.split("::")[-1]
            newfns[nk] = f
        j["fns"].clear()
        j["fns"].update(newfns)
    if fld_ren:
        def walk2(x):
            if isinstance(x, dict):
                a = x.get("a")
                if a in fld_ren and isinstance(x.get("f"), str) and x["f"] in fld_ren[a]:
                    x["f"] = fld_ren[a][x["f"]]
                if x.get("adt") in fld_ren and isinstance(x.get("field_names"), list):
                    m = fld_ren[x["adt"]]
                    x["field_names"] = [m.get(n, n) for n in x["field_names"]]
                for v in x.values():
                    walk2(v)
            elif isinstance(x, list):
                for v in x:
                    walk2(v)
        for f in j["fns"].values():
            walk2(f.get("body"))
            walk2(f.get("promoted"))
        for a, m in fld_ren.items():
            for fld in j["adts"][a]["variants"][0]["fields"]:
                fld["name"] = m.get(fld["name"], fld["name"])
    j["renamed"] = dict(fns=fn_ren, fields=fld_ren)


def _remap_locals_map(node, m):
    if isinstance(node, dict):
        if "l" in node and "p" in node and isinstance(node["l"], int) and isinstance(node["p"], list):
            node["l"] = m.get(node["l"], node["l"])
            for pr in node["p"]:
                if isinstance(pr, dict) and "idx" in pr:
                    pr["idx"] = m.get(pr["idx"], pr["idx"])
            return
        for v in node.values():
            _remap_locals_map(v, m)
    elif isinstance(node, list):
        for v in node:
            _remap_locals_map(v, m)


def restore_param_order(j):
    """A private function whose parameters were merely re-ordered (same names and types as in the reference tree, different
    positions) is put back into the reference order: its parameter locals are renumbered and the argument lists of all its
    direct call sites are permuted.  Rules that address an argument by position are then indifferent to the change."""
    ref = reference()["fns"]
    fns = j["fns"]
    done = {}
    for k, f in fns.items():
        r = ref.get(k)
        if not r or "params" not in r or f["kind"] not in ("Fn", "AssocFn"):
            continue
        body = f["body"]
        n = body["arg_count"]
        cur = [[body["locals"][l].get("name") or "", body["locals"][l]["ty"]] for l in range(1, n + 1)]
        want = r["params"]
        if cur == want or len(cur) != len(want) or n < 2:
            continue
        # match by (name, type) if that is a bijection, else by type alone if types are pairwise distinct
        def bij(keyf):
            ck = [keyf(x) for x in cur]
            wk = [keyf(x) for x in want]
            if len(set(ck)) != len(ck) or sorted(ck) != sorted(wk):
                return None
            return [wk.index(x) for x in ck]          # current position -> reference position
        perm = bij(lambda x: (x[0], x[1])) or bij(lambda x: x[1])
        if perm is None or perm == list(range(n)):
            continue
        # renumber parameter locals: current local (i+1) becomes local (perm[i]+1)
        m = {i + 1: perm[i] + 1 for i in range(n)}
        newlocals = list(body["locals"])
        for i in range(n):
            newlocals[perm[i] + 1] = body["locals"][i + 1]
        body["locals"] = newlocals
        for blk in body["blocks"]:
            _remap_locals_map(blk["stmts"], m)
            _remap_locals_map(blk["term"], m)
        for un in body.get("upvar_names", []):
            _remap_locals_map(un, m)
        # permute the arguments at every direct call site
        for k2, f2 in fns.items():
            for blk in f2["body"]["blocks"]:
                t = blk["term"]
                if t["k"] == "call" and "k" in t["func"] and t["func"]["k"].get("fn") == k and len(t["args"]) == n:
                    na = [None] * n
                    for i in range(n):
                        na[perm[i]] = t["args"][i]
                    t["args"] = na
        f["sig"] = r.get("sig", f.get("sig"))
        done[k] = perm
    j.setdefault("renamed", {})["param_order"] = done
    return done


def normalize(j):
    """All normalisations, in order: undo renames, then inline unknown private helpers."""
    if j.get("crate") != "loom":
        # the positive-control crate: nothing to compare with; its tiny functions must stay as written
        j["renamed"] = dict(fns={}, fields={})
        j["desugared"] = {}
        j["inlined"] = {}
        return {}
    fn_ren, fld_ren = detect_renames(j)
    if fn_ren or fld_ren:
        apply_renames(j, fn_ren, fld_ren)
    else:
        j["renamed"] = dict(fns={}, fields={})
    cl_ren = detect_closure_renumbering(j)
    if cl_ren:
        keep = j["renamed"]
        apply_renames(j, cl_ren, {})
        keep["closures"] = cl_ren
        j["renamed"] = keep
    restore_param_order(j)
    if not os.environ.get("VERIF_NO_DESUGAR"):
        desugar_combinators(j)
    else:
        j["desugared"] = {}
    r = inline_helpers(j)
    if not os.environ.get("VERIF_NO_DESUGAR"):
        inline_closure_calls(j)
        # helpers exposed by the previous step (a closure that only forwarded to a private helper)
        r2 = inline_helpers(j)
        for k_, v_ in r2.items():
            r.setdefault(k_, []).extend(v_)
        j["inlined"] = r
    fold_constant_switches(j, set(x for v_ in r.values() for x in v_))
    return r


def fold_constant_switches(j, fn_keys):
    """After a helper with a constant mode argument (`block_pending(.., writers_only = true)`) was inlined, the tests of that
    argument have only one live edge.  A switch whose operand is - through single-definition copies - a constant is replaced by
    a jump, so that the dead arm's conditions are not taken for conditions of the code behind it.  Only functions that received
    inlined code are touched."""
    for k in fn_keys:
        f = j["fns"].get(k)
        if not f or f.get("stub"):
            continue
        body = f["body"]
        ndefs = defaultdict(int)
        cdef = {}
        borrowed = set()
        for blk in body["blocks"]:
            for st in blk["stmts"]:
                if st.get("k") in ("=", "setdiscr") and "lhs" in st:
                    l = st["lhs"]["l"]
                    ndefs[l] += 1
                    if st["k"] == "=" and not st["lhs"]["p"]:
                        cdef[l] = st["rv"]
                    if st["k"] == "=" and st["rv"].get("k") in ("ref", "rawptr") and st["rv"].get("mut"):
                        borrowed.add(st["rv"]["place"]["l"])
            t = blk["term"]
            if t.get("k") == "call" and "dest" in t:
                ndefs[t["dest"]["l"]] += 1
        nargs = body.get("arg_count", 0)

        def const_of(l, depth=0):
            if depth > 4 or l <= nargs or ndefs.get(l) != 1 or l in borrowed or l not in cdef:
                return None
            rv = cdef[l]
            if rv.get("k") != "use":
                return None
            op = rv["op"]
            if "k" in op and isinstance(op["k"], dict) and "int" in op["k"]:
                return op["k"]["int"]
            pl = op.get("c") or op.get("m")
            if pl is not None and not pl["p"]:
                return const_of(pl["l"], depth + 1)
            return None
        for blk in body["blocks"]:
            t = blk["term"]
            if t.get("k") != "switch":
                continue
            op = t["op"]
            pl = op.get("c") or op.get("m")
            if pl is None or pl["p"]:
                continue
            v = const_of(pl["l"])
            if v is None:
                continue
            tgt = None
            for (val, tb) in t["targets"]:
                if val == v:
                    tgt = tb
            blk["term"] = {"k": "goto", "target": tgt if tgt is not None else t["otherwise"], "ln": t.get("ln")}


def _walk(x, f):
    if isinstance(x, dict):
        f(x)
        for v in x.values():
            _walk(v, f)
    elif isinstance(x, list):
        for v in x:
            _walk(v, f)


def _fn_refs(node):
    out = []

    def f(d):
        if "fn" in d and "gargs" in d and isinstance(d["fn"], str):
            out.append(d["fn"])
    _walk(node, f)
    return out


def _private_to_module(key, f):
    vis = f.get("vis", "")
    m = re.match(r"Restricted\(DefId\([^~]*~ [A-Za-z0-9_]+\[[0-9a-f]+\](?:::(.*))?\)\)$", vis)
    if not m or not m.group(1):
        return False
    mod = m.group(1)
    if not key.startswith(mod + "::"):
        return False
    rest = [x for x in re.sub(r"<[^<>]*(?:<[^<>]*>[^<>]*)*>", "", key[len(mod) + 2:]).split("::") if x]
    return len(rest) <= 2


TINY_BLOCKS = 6
FLATTEN_TINY = not os.environ.get("VERIF_NO_FLATTEN_TINY")   # canonical form: tiny pure private helpers are always flattened


def _is_tiny(f):
    """A closure-free function of at most TINY_BLOCKS non-cleanup blocks: one-line predicates, accessors, forwarders."""
    body = f["body"]
    n = 0
    for blk in body["blocks"]:
        if blk["cleanup"]:
            continue
        n += 1
        for st in blk["stmts"]:
            if st.get("k") == "=" and st["rv"].get("k") == "agg" and st["rv"].get("closure"):
                return False
            if st.get("k") in ("=", "setdiscr") and st["lhs"]["p"]:
                return False        # writes through a reference / into a field: an action, not a predicate or accessor
    return n <= TINY_BLOCKS


def _remap_place(p, loff):
    p["l"] += loff
    for pr in p["p"]:
        if isinstance(pr, dict) and "idx" in pr:
            pr["idx"] += loff


def _remap_locals(node, loff):
    """Add loff to every local index inside a statement / terminator (places are dicts with keys l,p)."""
    if isinstance(node, dict):
        if "l" in node and "p" in node and isinstance(node["l"], int) and isinstance(node["p"], list):
            _remap_place(node, loff)
            return
        for v in node.values():
            _remap_locals(v, loff)
    elif isinstance(node, list):
        for v in node:
            _remap_locals(v, loff)


def _remap_promoted(node, poff):
    def f(d):
        if "promoted" in d and isinstance(d["promoted"], int) and "ty" in d:
            d["promoted"] += poff
    _walk(node, f)


def _remap_targets(t, boff, unwind_to):
    for k in ("target", "otherwise"):
        if isinstance(t.get(k), int):
            t[k] += boff
    if "targets" in t and isinstance(t["targets"], list):
        for pair in t["targets"]:
            if isinstance(pair, list) and len(pair) == 2 and isinstance(pair[1], int):
                pair[1] += boff
    if "unwind" in t:
        if isinstance(t["unwind"], int):
            t["unwind"] += boff
        elif t["unwind"] == "continue" and unwind_to is not None:
            t["unwind"] = unwind_to


def _inline_at(F, b, G):
    fb = F["body"]
    gb = G["body"]
    call = fb["blocks"][b]["term"]
    loff = len(fb["locals"])
    boff = len(fb["blocks"])
    poff = len(F.get("promoted", []))
    in_cleanup = fb["blocks"][b]["cleanup"]
    unwind_to = call.get("unwind") if isinstance(call.get("unwind"), int) else None
    fb["locals"].extend(copy.deepcopy(gb["locals"]))
    F.setdefault("promoted", []).extend(copy.deepcopy(G.get("promoted", [])))
    ln = call.get("ln")
    blk = fb["blocks"][b]
    for i, a in enumerate(call["args"]):
        st = {"k": "=", "lhs": {"l": loff + 1 + i, "p": []}, "rv": {"k": "use", "op": a}}
        if ln is not None:
            st["ln"] = ln
        blk["stmts"].append(st)
    for gi, gblk in enumerate(gb["blocks"]):
        nb = copy.deepcopy(gblk)
        _remap_locals(nb["stmts"], loff)
        _remap_locals(nb["term"], loff)
        if poff:
            _remap_promoted(nb, poff)
        t = nb["term"]
        if t["k"] == "return":
            st = {"k": "=", "lhs": copy.deepcopy(call["dest"]), "rv": {"k": "use", "op": {"m": {"l": loff, "p": []}}}}
            if ln is not None:
                st["ln"] = ln
            nb["stmts"].append(st)
            nb["term"] = {"k": "goto", "target": call["target"]} if isinstance(call.get("target"), int) else {"k": "unreachable"}
            if ln is not None:
                nb["term"]["ln"] = ln
        elif t["k"] == "resume":
            if unwind_to is not None:
                nb["term"] = {"k": "goto", "target": unwind_to}
        else:
            _remap_targets(t, boff, unwind_to)
        if in_cleanup:
            nb["cleanup"] = True
        fb["blocks"].append(nb)
    blk["term"] = {"k": "goto", "target": boff}
    if ln is not None:
        blk["term"]["ln"] = ln
    return boff


# ---------------------------------------------------------------------------------------------------------------------
# Desugaring of std combinators whose behaviour is a `match` around a closure call.  `opt.map(f)`, `opt.and_then(f)`,
# `opt.map_or(d, f)`, `opt.is_some_and(p)`, `opt.is_none_or(p)`, `opt.filter(p)`, `opt.unwrap_or_else(f)`, `res.map(f)`,
# `res.map_err(f)` are rewritten into the switch on the discriminant plus the closure's MIR, so that a guard written as
# `x.map(|o| o.object()) == Some(me)`, as `x.is_some_and(|o| o.object() == me)` or as `match x { Some(o) => .., None => .. }`
# reaches the rules in one shape.  The closure itself is left as a stub.
OPT = "std::option::Option"
RES = "std::result::Result"
COMBINATORS = {
    # path: (enum, matched variant, closure argument index, what the matched arm yields, what the other arm yields)
    "std::option::Option::<T>::map": (OPT, "Some", 1, ("wrap", "Some"), ("unit", "None")),
    "std::option::Option::<T>::and_then": (OPT, "Some", 1, ("ret",), ("unit", "None")),
    "std::option::Option::<T>::map_or": (OPT, "Some", 2, ("ret",), ("arg", 1)),
    "std::option::Option::<T>::is_some_and": (OPT, "Some", 1, ("ret",), ("bool", 0)),
    "std::option::Option::<T>::is_none_or": (OPT, "Some", 1, ("ret",), ("bool", 1)),
    "std::option::Option::<T>::unwrap_or_else": (OPT, "None", 1, ("ret",), ("payload",)),
    "std::option::Option::<T>::filter": (OPT, "Some", 1, ("filter",), ("unit", "None")),
    "std::result::Result::<T, E>::unwrap_or_else": (RES, "Err", 1, ("ret",), ("payload",)),
    "std::result::Result::<T, E>::and_then": (RES, "Ok", 1, ("ret",), ("rewrap", "Err")),
    "std::result::Result::<T, E>::map": (RES, "Ok", 1, ("wrap", "Ok"), ("rewrap", "Err")),
    "std::result::Result::<T, E>::map_err": (RES, "Err", 1, ("wrap", "Err"), ("rewrap", "Ok")),
}
VARIANTS = {OPT: [[0, "None"], [1, "Some"]], RES: [[0, "Ok"], [1, "Err"]]}
MAX_CLOSURE_BLOCKS = 60


def _single_def_stmt(body, l):
    found = None
    for blk in body["blocks"]:
        for st in blk["stmts"]:
            if st.get("k") == "=" and st["lhs"]["l"] == l and not st["lhs"]["p"]:
                if found is not None:
                    return None
                found = st
        t = blk["term"]
        if t["k"] == "call" and t["dest"]["l"] == l and not t["dest"]["p"]:
            return None
    return found


def _closure_of_operand(body, op):
    """(closure key, local holding the closure value) if `op` moves/copies a local whose only definition builds a closure."""
    p = op.get("m") or op.get("c")
    if not p or p["p"]:
        return None, None
    st = _single_def_stmt(body, p["l"])
    if st is None:
        return None, None
    rv = st["rv"]
    if rv.get("k") == "agg" and rv.get("closure"):
        return rv["closure"], p["l"]
    if rv.get("k") == "use":
        return _closure_of_operand(body, rv["op"])
    return None, None


def _payload_place(l, enum, variant, ty):
    return {"l": l, "p": [{"dc": variant}, {"i": 0, "f": "0", "a": enum, "v": variant, "ty": ty}]}


def desugar_combinators(j):
    fns = j["fns"]
    insts = j["instances"]
    by_def = defaultdict(list)
    for i in insts:
        by_def[i["def"]].append(i)
    done = defaultdict(list)
    for fk in list(fns.keys()):
        F = fns[fk]
        fb = F["body"]
        b = -1
        while b + 1 < len(fb["blocks"]) and len(fb["blocks"]) < 4000:
            b += 1                      # blocks appended by a desugaring are visited too (nested combinators)
            blk = fb["blocks"][b]
            t = blk["term"]
            if t["k"] != "call" or "k" not in t["func"] or t["func"]["k"].get("fn") not in COMBINATORS:
                continue
            if not isinstance(t.get("target"), int) or blk["cleanup"]:
                continue
            path = t["func"]["k"]["fn"]
            enum, mvar, cidx, myield, oyield = COMBINATORS[path]
            if cidx >= len(t["args"]):
                continue
            ck, cl = _closure_of_operand(fb, t["args"][cidx])
            if not ck or ck not in fns or fns[ck].get("stub"):
                continue
            C = fns[ck]
            cb = C["body"]
            if len(cb["blocks"]) > MAX_CLOSURE_BLOCKS or cb["arg_count"] not in (1, 2):
                continue
            if any(x["term"]["k"] in ("yield", "asm", "tailcall") for x in cb["blocks"]):
                continue
            # every instance of the caller must know the closure instance the combinator invokes
            recs = []
            ok = True
            for ci in by_def.get(fk, []):
                c = ci["calls"].get(str(b))
                fa = [x for x in (c or {}).get("fnargs", []) if "inst" in x]
                if not c or len(fa) != 1 or insts[fa[0]["inst"]]["def"] != ck:
                    ok = False
                    break
                recs.append((ci, insts[fa[0]["inst"]]))
            if not ok:
                continue
            ln = t.get("ln")
            other = [v for (_, v) in VARIANTS[enum] if v != mvar][0]
            mval = [d for (d, v) in VARIANTS[enum] if v == mvar][0]
            oval = [d for (d, v) in VARIANTS[enum] if v == other][0]
            unwind_to = t.get("unwind") if isinstance(t.get("unwind"), int) else None
            loff = len(fb["locals"])
            poff = len(F.get("promoted", []))
            # new locals: [subject copy, discriminant] + the closure's locals
            subj, disc = loff, loff + 1
            fb["locals"].append({"ty": enum + "<..>"})
            fb["locals"].append({"ty": "isize"})
            coff = len(fb["locals"])
            fb["locals"].extend(copy.deepcopy(cb["locals"]))
            F.setdefault("promoted", []).extend(copy.deepcopy(C.get("promoted", [])))
            env_ty = cb["locals"][1]["ty"]
            arg_ty = cb["locals"][2]["ty"] if cb["arg_count"] == 2 else "?"
            # block layout: [matched arm entry, other arm, join] + closure blocks
            b_match = len(fb["blocks"])
            b_other = b_match + 1
            b_join = b_match + 2
            boff = b_match + 3

            def S(lhs, rv):
                st = {"k": "=", "lhs": lhs, "rv": rv}
                if ln is not None:
                    st["ln"] = ln
                return st

            def L(l):
                return {"l": l, "p": []}
            blk["stmts"].append(S(L(subj), {"k": "use", "op": t["args"][0]}))
            blk["stmts"].append(S(L(disc), {"k": "discr", "place": L(subj), "adt": enum, "variants": VARIANTS[enum]}))
            blk["term"] = {"k": "switch", "op": {"m": L(disc)}, "opty": "isize", "targets": [[mval, b_match], [oval, b_other]],
                           "otherwise": b_other}
            if ln is not None:
                blk["term"]["ln"] = ln
            # matched arm: bind the closure environment and argument, run the closure
            mst = []
            if env_ty.startswith("&mut "):
                mst.append(S(L(coff + 1), {"k": "ref", "mut": True, "place": L(cl)}))
            elif env_ty.startswith("&"):
                mst.append(S(L(coff + 1), {"k": "ref", "mut": False, "place": L(cl)}))
            else:
                mst.append(S(L(coff + 1), {"k": "use", "op": {"m": L(cl)}}))
            if cb["arg_count"] == 2 and myield[0] == "filter":
                mst.append(S(L(coff + 2), {"k": "ref", "mut": False, "place": _payload_place(subj, enum, mvar, arg_ty)}))
            elif cb["arg_count"] == 2:
                mst.append(S(L(coff + 2), {"k": "use", "op": {"m": _payload_place(subj, enum, mvar, arg_ty)}}))
            fb["blocks"].append({"cleanup": False, "stmts": mst, "term": {"k": "goto", "target": boff}})
            # other arm
            ost = []
            if oyield[0] == "unit":
                ost.append(S(copy.deepcopy(t["dest"]), {"k": "agg", "agg": "adt", "adt": enum, "variant": oyield[1], "field_names": [], "ops": []}))
            elif oyield[0] == "arg":
                ost.append(S(copy.deepcopy(t["dest"]), {"k": "use", "op": t["args"][oyield[1]]}))
            elif oyield[0] == "bool":
                ost.append(S(copy.deepcopy(t["dest"]), {"k": "use", "op": {"k": {"ty": "bool", "int": oyield[1], "text": "true" if oyield[1] else "false"}}}))
            elif oyield[0] == "payload":
                ost.append(S(copy.deepcopy(t["dest"]), {"k": "use", "op": {"m": _payload_place(subj, enum, other, "?")}}))
            elif oyield[0] == "rewrap":
                ost.append(S(copy.deepcopy(t["dest"]), {"k": "agg", "agg": "adt", "adt": enum, "variant": oyield[1], "field_names": ["0"],
                                                        "ops": [{"m": _payload_place(subj, enum, other, "?")}]}))
            fb["blocks"].append({"cleanup": False, "stmts": ost, "term": {"k": "goto", "target": t["target"]}})
            # join after the closure returned into local coff+0
            jst = []
            jterm = {"k": "goto", "target": t["target"]}
            if myield[0] == "ret":
                jst.append(S(copy.deepcopy(t["dest"]), {"k": "use", "op": {"m": L(coff)}}))
            elif myield[0] == "filter":
                # keep the value iff the predicate held: the `false` edge goes to the arm that yields None, the `true` edge to a
                # block that rebuilds Some(payload) (so that "the result is Some" implies the predicate's conditions)
                b_keep = boff + len(cb["blocks"])
                jterm = {"k": "switch", "op": {"c": L(coff)}, "opty": "bool", "targets": [[0, b_other]], "otherwise": b_keep}
            else:
                jst.append(S(copy.deepcopy(t["dest"]), {"k": "agg", "agg": "adt", "adt": enum, "variant": myield[1], "field_names": ["0"],
                                                        "ops": [{"m": L(coff)}]}))
            fb["blocks"].append({"cleanup": False, "stmts": jst, "term": jterm})
            # the closure's blocks
            for gblk in cb["blocks"]:
                nbk = copy.deepcopy(gblk)
                _remap_locals(nbk["stmts"], coff)
                _remap_locals(nbk["term"], coff)
                if poff:
                    _remap_promoted(nbk, poff)
                tt = nbk["term"]
                if tt["k"] == "return":
                    nbk["term"] = {"k": "goto", "target": b_join}
                elif tt["k"] == "resume":
                    if unwind_to is not None:
                        nbk["term"] = {"k": "goto", "target": unwind_to}
                else:
                    _remap_targets(tt, boff, unwind_to)
                fb["blocks"].append(nbk)
            if myield[0] == "filter":
                fb["blocks"].append({"cleanup": False, "stmts": [S(copy.deepcopy(t["dest"]), {
                    "k": "agg", "agg": "adt", "adt": enum, "variant": mvar, "field_names": ["0"],
                    "ops": [{"m": _payload_place(subj, enum, mvar, arg_ty)}]})], "term": {"k": "goto", "target": t["target"]}})
            for (ci, gi) in recs:
                ci["calls"].pop(str(b), None)
                for k, v in gi["calls"].items():
                    ci["calls"][str(boff + int(k))] = v
                for k, v in gi["drops"].items():
                    ci["drops"][str(boff + int(k))] = v
                gi["calls"] = {}
                gi["drops"] = {}
            # closures defined inside the desugared closure now belong to the enclosing function
            for k2, f2 in fns.items():
                if f2.get("parent_fn") == ck:
                    f2["parent_fn"] = fk
            C["body"] = {"arg_count": cb["arg_count"], "locals": cb["locals"], "upvar_names": [],
                         "blocks": [{"cleanup": False, "stmts": [], "term": {"k": "unreachable"}}]}
            C["promoted"] = []
            C["stub"] = True
            for gi2 in by_def.get(ck, []):
                gi2["calls"] = {}
                gi2["drops"] = {}
            done[path.split("::")[-1]].append(fk)
            REPARENT[ck] = fk
    j["desugared"] = {k: sorted(set(v)) for k, v in done.items()}
    return j["desugared"]


FN_CALLS = ("std::ops::FnOnce::call_once", "std::ops::FnMut::call_mut", "std::ops::Fn::call")


def _tuple_ops(body, op):
    """Operands of the argument tuple handed to an Fn*::call* (the tuple is built right before the call)."""
    p = op.get("m") or op.get("c")
    if not p or p["p"]:
        return None
    st = _single_def_stmt(body, p["l"])
    if st is None or st["rv"].get("k") != "agg" or st["rv"].get("agg") != "tuple":
        return None
    return st["rv"]["ops"]


def inline_closure_calls(j):
    """A closure that is built and called in the same body - the shape left behind when a helper taking `impl Fn..` is inlined
    into the caller that passed the closure (`branch_load(path, |seed| state.match_load_to_stores(..))`) - is replaced by the
    closure's MIR, like the closures of the desugared std combinators."""
    fns = j["fns"]
    insts = j["instances"]
    by_def = defaultdict(list)
    for i in insts:
        by_def[i["def"]].append(i)
    done = defaultdict(list)
    for fk in list(fns.keys()):
        F = fns[fk]
        fb = F["body"]
        b = -1
        while b + 1 < len(fb["blocks"]) and len(fb["blocks"]) < 4000:
            b += 1
            blk = fb["blocks"][b]
            t = blk["term"]
            if t["k"] != "call" or "k" not in t["func"] or t["func"]["k"].get("fn") not in FN_CALLS or len(t["args"]) != 2:
                continue
            if not isinstance(t.get("target"), int) or blk["cleanup"]:
                continue
            # the callee value: a local holding the closure, possibly through one reference
            a0 = t["args"][0]
            ck, cl = _closure_of_operand(fb, a0)
            via_ref = False
            if not ck:
                p0 = a0.get("m") or a0.get("c")
                if p0 and not p0["p"]:
                    st0 = _single_def_stmt(fb, p0["l"])
                    if st0 is not None and st0["rv"].get("k") == "ref" and not st0["rv"]["place"]["p"]:
                        ck, cl = _closure_of_operand(fb, {"c": st0["rv"]["place"]})
                        via_ref = True
            if not ck or ck not in fns or fns[ck].get("stub"):
                continue
            C = fns[ck]
            cb = C["body"]
            args = _tuple_ops(fb, t["args"][1])
            if args is None or len(args) != cb["arg_count"] - 1 or len(cb["blocks"]) > MAX_CLOSURE_BLOCKS:
                continue
            if any(x["term"]["k"] in ("yield", "asm", "tailcall") for x in cb["blocks"]):
                continue
            # the closure must have this one use (built once, called once) - otherwise keep it
            uses = 0
            for blk2 in fb["blocks"]:
                for x in _fn_refs(blk2):
                    pass
            recs = []
            ok = True
            for ci in by_def.get(fk, []):
                c = ci["calls"].get(str(b))
                tgt = None
                if c and c.get("k") == "inst":
                    tgt = c["id"]
                else:
                    fa = [x for x in (c or {}).get("fnargs", []) if "inst" in x]
                    if len(fa) == 1:
                        tgt = fa[0]["inst"]
                if tgt is None or insts[tgt]["def"] != ck:
                    ok = False
                    break
                recs.append((ci, insts[tgt]))
            if not ok:
                continue
            ln = t.get("ln")
            unwind_to = t.get("unwind") if isinstance(t.get("unwind"), int) else None
            coff = len(fb["locals"])
            poff = len(F.get("promoted", []))
            fb["locals"].extend(copy.deepcopy(cb["locals"]))
            F.setdefault("promoted", []).extend(copy.deepcopy(C.get("promoted", [])))
            boff = len(fb["blocks"]) + 1
            b_join = len(fb["blocks"])
            env_ty = cb["locals"][1]["ty"]

            def S(lhs, rv):
                st = {"k": "=", "lhs": lhs, "rv": rv}
                if ln is not None:
                    st["ln"] = ln
                return st

            def L(l):
                return {"l": l, "p": []}
            if env_ty.startswith("&mut "):
                blk["stmts"].append(S(L(coff + 1), {"k": "ref", "mut": True, "place": L(cl)}))
            elif env_ty.startswith("&"):
                blk["stmts"].append(S(L(coff + 1), {"k": "ref", "mut": False, "place": L(cl)}))
            else:
                blk["stmts"].append(S(L(coff + 1), {"k": "use", "op": {"m": L(cl)}}))
            for i, a in enumerate(args):
                blk["stmts"].append(S(L(coff + 2 + i), {"k": "use", "op": a}))
            blk["term"] = {"k": "goto", "target": boff}
            fb["blocks"].append({"cleanup": False, "stmts": [S(copy.deepcopy(t["dest"]), {"k": "use", "op": {"m": L(coff)}})],
                                 "term": {"k": "goto", "target": t["target"]}})
            for gblk in cb["blocks"]:
                nbk = copy.deepcopy(gblk)
                _remap_locals(nbk["stmts"], coff)
                _remap_locals(nbk["term"], coff)
                if poff:
                    _remap_promoted(nbk, poff)
                tt = nbk["term"]
                if tt["k"] == "return":
                    nbk["term"] = {"k": "goto", "target": b_join}
                elif tt["k"] == "resume":
                    if unwind_to is not None:
                        nbk["term"] = {"k": "goto", "target": unwind_to}
                else:
                    _remap_targets(tt, boff, unwind_to)
                fb["blocks"].append(nbk)
            for (ci, gi) in recs:
                ci["calls"].pop(str(b), None)
                for k, v in gi["calls"].items():
                    ci["calls"][str(boff + int(k))] = v
                for k, v in gi["drops"].items():
                    ci["drops"][str(boff + int(k))] = v
            for k2, f2 in fns.items():
                if f2.get("parent_fn") == ck:
                    f2["parent_fn"] = fk
            C["body"] = {"arg_count": cb["arg_count"], "locals": cb["locals"], "upvar_names": [],
                         "blocks": [{"cleanup": False, "stmts": [], "term": {"k": "unreachable"}}]}
            C["promoted"] = []
            C["stub"] = True
            for gi2 in by_def.get(ck, []):
                gi2["calls"] = {}
                gi2["drops"] = {}
            REPARENT[ck] = fk
            done[ck].append(fk)
    j["closure_calls_inlined"] = {k: sorted(set(v)) for k, v in done.items()}
    return j["closure_calls_inlined"]


def inline_helpers(j, log=None):
    """Rewrite the facts in place.  Returns {helper key: [caller keys]}."""
    words = spec_words()
    ref = reference_fns()
    fns = j["fns"]
    insts = j["instances"]
    by_def = defaultdict(list)
    for i in insts:
        by_def[i["def"]].append(i)
    done = {}
    for _pass in range(MAX_PASSES):
        calls = defaultdict(list)     # G -> [(F key, bb)]
        other = defaultdict(int)
        for key, f in fns.items():
            for bi, blk in enumerate(f["body"]["blocks"]):
                t = blk["term"]
                direct = None
                if t["k"] == "call" and "k" in t["func"] and "fn" in t["func"]["k"]:
                    direct = t["func"]["k"]["fn"]
                    calls[direct].append((key, bi))
                refs = _fn_refs(blk)
                if direct is not None:
                    refs.remove(direct)
                for r in refs:
                    other[r] += 1
            for pb in f.get("promoted", []):
                for r in _fn_refs(pb):
                    other[r] += 1
        cands = []
        vanished = {r.rsplit("::", 1)[0] for r in ref if r not in fns}
        for g, f in fns.items():
            if f["kind"] not in ("Fn", "AssocFn") or f.get("impl_trait") or f.get("in_trait") or f.get("stub"):
                continue
            name = g.split("::")[-1]
            forced = g in FORCE_INLINE
            # (a helper that does not exist in the reference tree cannot be an anchor: any crate-internal visibility will do)
            if not forced and not _private_to_module(g, f) and not (ref and g not in ref and str(f.get("vis", "")).startswith("Restricted")):
                continue
            # tiny in the reference tree as well (or new): a function that merely *became* small keeps its identity, so that a
            # rule anchored on it judges its (possibly broken) body instead of an empty stub
            # ... and a function that was tiny (hence flattened) in the reference tree is flattened whatever it has grown into: the
            # reference data and the rules know its effects only inside its callers
            tiny = FLATTEN_TINY and (reference()["fns"].get(g, {}).get("tiny", False) if g in ref else _is_tiny(f))
            if not forced and not tiny and name in words and (g in ref or not ref):
                continue            # a function the rules may anchor on (tiny closure-free helpers are always flattened:
                #                     the rules are written against the flattened form, so inlining them by hand changes nothing)
            if not forced and ref and g not in ref and g.rsplit("::", 1)[0] in vanished and len(calls.get(g, [])) > 1:
                continue            # several call sites + a reference function vanished from the same impl: possibly a rename the
                #                     signature test could not resolve; leave it for the rules to identify structurally
            sites = calls.get(g, [])
            if os.environ.get("VERIF_DEBUG_INLINE") and os.environ["VERIF_DEBUG_INLINE"] in g:
                print("INLINE?", g, "sites", sites, "other", other.get(g), "blocks", len(f["body"]["blocks"]), file=__import__("sys").stderr)
            if not sites or len(sites) > MAX_SITES or other.get(g):
                continue
            gb = f["body"]
            if len(gb["blocks"]) > MAX_BLOCKS:
                continue
            if any(blk["term"]["k"] in ("yield", "asm", "tailcall", "coroutine_drop") for blk in gb["blocks"]):
                continue
            callees = {c for c in _fn_refs(gb)}
            if g in callees:
                continue
            # every instance of every caller resolves the site to an instance of g
            ok = True
            for (fk, bi) in sites:
                if fk == g:
                    ok = False
                for ci in by_def.get(fk, []):
                    c = ci["calls"].get(str(bi))
                    if not c or c.get("k") != "inst" or insts[c["id"]]["def"] != g:
                        ok = False
            if ok:
                cands.append(g)
        # do not inline a helper into another helper that is itself inlined in this pass (next pass handles the chain)
        cset = set(cands)
        cands = [g for g in cands if not any(fk in cset for (fk, _b) in calls[g])]
        if not cands:
            break
        for g in cands:
            G = fns[g]
            for (fk, bi) in calls[g]:
                F = fns[fk]
                boff = _inline_at(F, bi, G)
                for ci in by_def.get(fk, []):
                    c = ci["calls"].pop(str(bi))
                    gi = insts[c["id"]]
                    for k, v in gi["calls"].items():
                        ci["calls"][str(boff + int(k))] = v
                    for k, v in gi["drops"].items():
                        ci["drops"][str(boff + int(k))] = v
                done.setdefault(g, []).append(fk)
            # closures of the helper now live in (the first of) its callers
            for ck, cf in fns.items():
                if cf.get("parent_fn") == g:
                    cf["parent_fn"] = calls[g][0][0]
            # leave an empty stub
            G["body"] = {"arg_count": G["body"]["arg_count"], "locals": G["body"]["locals"], "upvar_names": [],
                         "blocks": [{"cleanup": False, "stmts": [], "term": {"k": "unreachable"}}]}
            G["promoted"] = []
            G["stub"] = True
            if g in FORCE_INLINE:
                G["deleted"] = True
            for gi in by_def.get(g, []):
                gi["calls"] = {}
                gi["drops"] = {}
    gone = [k for k, f in fns.items() if f.get("deleted")]
    if gone:
        # simulation of "helper inlined and deleted": its instances are parked on a dummy definition nobody calls
        fns["<deleted>"] = {"kind": "Fn", "file": "", "line": 0, "attrs": [], "promoted": [],
                            "body": {"arg_count": 0, "locals": [{"ty": "()"}], "upvar_names": [],
                                     "blocks": [{"cleanup": False, "stmts": [], "term": {"k": "unreachable"}}]}}
        for g in gone:
            for gi in by_def.get(g, []):
                gi["def"] = "<deleted>"
                gi["identity"] = False
            del fns[g]
    j["inlined"] = done
    for g, callers in done.items():
        REPARENT[g] = callers[0]
    return done


def force_candidates(prog):
    """Functions a maintainer could plausibly inline away: not public API, small, 1-3 direct call sites, not recursive."""
    out = []
    calls = defaultdict(int)
    for k, f in prog.fns.items():
        for b in range(f.body.n):
            t = f.body.term(b)
            if t["k"] == "call" and "k" in t["func"] and "fn" in t["func"]["k"]:
                calls[t["func"]["k"]["fn"]] += 1
    for k, f in prog.fns.items():
        j = f.j
        if f.kind not in ("Fn", "AssocFn") or j.get("impl_trait") or j.get("in_trait") or j.get("stub"):
            continue
        if not _private_to_module(k, j):
            continue            # layer APIs (pub(crate) and wider) are the architecture; private helpers are what gets inlined
        if not (1 <= calls.get(k, 0) <= 3) or f.body.n > 40:
            continue
        out.append(k)
    return sorted(out)
