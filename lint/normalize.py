"""Normalisation of the extracted program before any rule looks at it: *private helper inlining*.

Why: the rules anchor on functions the properties name (Path::branch_thread, Execution::schedule, ...) and inspect their
control flow.  "Extract method" is the most common behaviour-preserving edit a maintainer makes; it moves a fragment of an
anchored function into a new private helper the rules have never heard of.  Instead of teaching every rule to look through
unknown helpers, the extracted program is rewritten: every call of a helper that

  * is a plain (non-trait, non-closure) function private to its module,
  * has a name no rule mentions (no word of lint/spec/*.py equals its last path segment) or does not exist in the
    reference tree the rules were written against (lint/reference.json),
  * is only ever *called directly* (never taken as a value), from at most MAX_SITES sites, and is not recursive,

is replaced by the helper's MIR (locals and blocks renumbered, arguments bound by assignments, `return` turned into an
assignment of the call destination plus a goto), and the per-instance call resolution of the helper's blocks is copied to the
caller's instances.  The helper itself is left as an empty stub.  The transformation is semantics preserving, so a rule judged
on the normalised program judges an equivalent program; it can only remove findings that were artefacts of where a fragment
of code lives.  What was inlined is recorded in prog.inlined and printed into the evidence notes.
"""
import copy
import json
import os
import re
from collections import defaultdict

MAX_SITES = 4
MAX_BLOCKS = 120
MAX_PASSES = 3

_words = None
REPARENT = {}       # inlined helper -> (first) function it was inlined into; consulted by spec.common.enclosing_fn


def spec_words():
    """Every identifier-like word occurring in the rule sources: helpers with such a name are never inlined."""
    global _words
    if _words is None:
        w = set()
        here = os.path.dirname(os.path.abspath(__file__))
        for d in (here, os.path.join(here, "spec")):
            for f in sorted(os.listdir(d)):
                if f.endswith(".py") and f != "normalize.py":
                    with open(os.path.join(d, f)) as fh:
                        w.update(re.findall(r"[A-Za-z_][A-Za-z0-9_]*", fh.read()))
        _words = w
    return _words


_ref = None


def reference():
    """lint/reference.json: {"fns": {key: {"sig"}}, "adts": {adt: [[field, type], ..]}} of the reference tree."""
    global _ref
    if _ref is None:
        p = os.path.join(os.path.dirname(os.path.abspath(__file__)), "reference.json")
        try:
            with open(p) as fh:
                _ref = json.load(fh)
        except (OSError, ValueError):
            _ref = dict(fns={}, adts={})
    return _ref


def reference_fns():
    return set(reference()["fns"])


def _scope(key):
    return key.rsplit("::", 1)[0]


def detect_renames(j):
    """(function renames {current key: reference key}, field renames {adt: {current name: reference name}}).
    A function is taken to be renamed when, within one impl / module, exactly one reference function vanished and exactly
    one new function has the vanished one's signature.  A struct field is taken to be renamed when the struct has the same
    number of fields with the same types in the same positions and the differing names are unknown to the reference
    (a pure re-ordering keeps all names and is left alone)."""
    ref = reference()
    fns = j["fns"]
    cur = {k for k, f in fns.items() if f["kind"] in ("Fn", "AssocFn")}
    vanished = defaultdict(list)
    fresh = defaultdict(list)
    for k in ref["fns"]:
        if k not in cur:
            vanished[_scope(k)].append(k)
    for k in cur:
        if k not in ref["fns"]:
            fresh[_scope(k)].append(k)
    fn_ren = {}
    for sc, vs in vanished.items():
        ns = fresh.get(sc, [])
        if not ns:
            continue
        for v in vs:
            sig = ref["fns"][v].get("sig")
            cands = [n for n in ns if fns[n].get("sig") == sig]
            back = [x for x in vs if ref["fns"][x].get("sig") == sig]
            if len(cands) == 1 and len(back) == 1:
                fn_ren[cands[0]] = v
    fld_ren = {}
    for a, rf in ref["adts"].items():
        d = j["adts"].get(a)
        if not d or d.get("kind") != "struct" or len(d["variants"]) != 1:
            continue
        cf = [[x["name"], x["ty"]] for x in d["variants"][0]["fields"]]
        if len(cf) != len(rf) or [t for _, t in cf] != [t for _, t in rf]:
            continue
        rn = {n for n, _ in rf}
        cn = {n for n, _ in cf}
        m = {}
        for (c, _), (r, _) in zip(cf, rf):
            if c != r:
                if c in rn or r in cn:
                    m = None
                    break
                m[c] = r
        if m:
            fld_ren[a] = m
    return fn_ren, fld_ren


def apply_renames(j, fn_ren, fld_ren):
    """Rewrite the facts so that renamed functions / fields carry their reference names again."""
    if fn_ren:
        pref = [(n + "::{closure", v + "::{closure") for n, v in fn_ren.items()]

        def ren(s):
            if s in fn_ren:
                return fn_ren[s]
            for a, b in pref:
                if s.startswith(a):
                    return b + s[len(a):]
            return s

        def walk(x):
            if isinstance(x, dict):
                for k in list(x.keys()):
                    v = x[k]
                    if isinstance(v, str):
                        x[k] = ren(v)
                    else:
                        walk(v)
            elif isinstance(x, list):
                for i, v in enumerate(x):
                    if isinstance(v, str):
                        x[i] = ren(v)
                    else:
                        walk(v)
        walk(j["instances"])
        walk(j["impls"])
        for k in list(j["fns"].keys()):
            f = j["fns"].pop(k)
            walk(f)
            nk = ren(k)
            if nk in fn_ren.values() and "name" in f:
                f["name"] = nk.split("::")[-1]
            j["fns"][nk] = f
    if fld_ren:
        def walk2(x):
            if isinstance(x, dict):
                a = x.get("a")
                if a in fld_ren and isinstance(x.get("f"), str) and x["f"] in fld_ren[a]:
                    x["f"] = fld_ren[a][x["f"]]
                if x.get("adt") in fld_ren and isinstance(x.get("field_names"), list):
                    m = fld_ren[x["adt"]]
                    x["field_names"] = [m.get(n, n) for n in x["field_names"]]
                for v in x.values():
                    walk2(v)
            elif isinstance(x, list):
                for v in x:
                    walk2(v)
        for f in j["fns"].values():
            walk2(f.get("body"))
            walk2(f.get("promoted"))
        for a, m in fld_ren.items():
            for fld in j["adts"][a]["variants"][0]["fields"]:
                fld["name"] = m.get(fld["name"], fld["name"])
    j["renamed"] = dict(fns=fn_ren, fields=fld_ren)


def normalize(j):
    """All normalisations, in order: undo renames, then inline unknown private helpers."""
    fn_ren, fld_ren = detect_renames(j)
    if fn_ren or fld_ren:
        apply_renames(j, fn_ren, fld_ren)
    else:
        j["renamed"] = dict(fns={}, fields={})
    return inline_helpers(j)


def _walk(x, f):
    if isinstance(x, dict):
        f(x)
        for v in x.values():
            _walk(v, f)
    elif isinstance(x, list):
        for v in x:
            _walk(v, f)


def _fn_refs(node):
    out = []

    def f(d):
        if "fn" in d and "gargs" in d and isinstance(d["fn"], str):
            out.append(d["fn"])
    _walk(node, f)
    return out


def _private_to_module(key, f):
    vis = f.get("vis", "")
    m = re.match(r"Restricted\(DefId\([^~]*~ [A-Za-z0-9_]+\[[0-9a-f]+\](?:::(.*))?\)\)$", vis)
    if not m or not m.group(1):
        return False
    mod = m.group(1)
    if not key.startswith(mod + "::"):
        return False
    rest = key[len(mod) + 2:].split("::")
    return len(rest) <= 2


def _remap_place(p, loff):
    p["l"] += loff
    for pr in p["p"]:
        if isinstance(pr, dict) and "idx" in pr:
            pr["idx"] += loff


def _remap_locals(node, loff):
    """Add loff to every local index inside a statement / terminator (places are dicts with keys l,p)."""
    if isinstance(node, dict):
        if "l" in node and "p" in node and isinstance(node["l"], int) and isinstance(node["p"], list):
            _remap_place(node, loff)
            return
        for v in node.values():
            _remap_locals(v, loff)
    elif isinstance(node, list):
        for v in node:
            _remap_locals(v, loff)


def _remap_promoted(node, poff):
    def f(d):
        if "promoted" in d and isinstance(d["promoted"], int) and "ty" in d:
            d["promoted"] += poff
    _walk(node, f)


def _remap_targets(t, boff, unwind_to):
    for k in ("target", "otherwise"):
        if isinstance(t.get(k), int):
            t[k] += boff
    if "targets" in t and isinstance(t["targets"], list):
        for pair in t["targets"]:
            if isinstance(pair, list) and len(pair) == 2 and isinstance(pair[1], int):
                pair[1] += boff
    if "unwind" in t:
        if isinstance(t["unwind"], int):
            t["unwind"] += boff
        elif t["unwind"] == "continue" and unwind_to is not None:
            t["unwind"] = unwind_to


def _inline_at(F, b, G):
    fb = F["body"]
    gb = G["body"]
    call = fb["blocks"][b]["term"]
    loff = len(fb["locals"])
    boff = len(fb["blocks"])
    poff = len(F.get("promoted", []))
    in_cleanup = fb["blocks"][b]["cleanup"]
    unwind_to = call.get("unwind") if isinstance(call.get("unwind"), int) else None
    fb["locals"].extend(copy.deepcopy(gb["locals"]))
    F.setdefault("promoted", []).extend(copy.deepcopy(G.get("promoted", [])))
    ln = call.get("ln")
    blk = fb["blocks"][b]
    for i, a in enumerate(call["args"]):
        st = {"k": "=", "lhs": {"l": loff + 1 + i, "p": []}, "rv": {"k": "use", "op": a}}
        if ln is not None:
            st["ln"] = ln
        blk["stmts"].append(st)
    for gi, gblk in enumerate(gb["blocks"]):
        nb = copy.deepcopy(gblk)
        _remap_locals(nb["stmts"], loff)
        _remap_locals(nb["term"], loff)
        if poff:
            _remap_promoted(nb, poff)
        t = nb["term"]
        if t["k"] == "return":
            st = {"k": "=", "lhs": copy.deepcopy(call["dest"]), "rv": {"k": "use", "op": {"m": {"l": loff, "p": []}}}}
            if ln is not None:
                st["ln"] = ln
            nb["stmts"].append(st)
            nb["term"] = {"k": "goto", "target": call["target"]} if isinstance(call.get("target"), int) else {"k": "unreachable"}
            if ln is not None:
                nb["term"]["ln"] = ln
        elif t["k"] == "resume":
            if unwind_to is not None:
                nb["term"] = {"k": "goto", "target": unwind_to}
        else:
            _remap_targets(t, boff, unwind_to)
        if in_cleanup:
            nb["cleanup"] = True
        fb["blocks"].append(nb)
    blk["term"] = {"k": "goto", "target": boff}
    if ln is not None:
        blk["term"]["ln"] = ln
    return boff


def inline_helpers(j, log=None):
    """Rewrite the facts in place.  Returns {helper key: [caller keys]}."""
    words = spec_words()
    ref = reference_fns()
    fns = j["fns"]
    insts = j["instances"]
    by_def = defaultdict(list)
    for i in insts:
        by_def[i["def"]].append(i)
    done = {}
    for _pass in range(MAX_PASSES):
        calls = defaultdict(list)     # G -> [(F key, bb)]
        other = defaultdict(int)
        for key, f in fns.items():
            for bi, blk in enumerate(f["body"]["blocks"]):
                t = blk["term"]
                direct = None
                if t["k"] == "call" and "k" in t["func"] and "fn" in t["func"]["k"]:
                    direct = t["func"]["k"]["fn"]
                    calls[direct].append((key, bi))
                refs = _fn_refs(blk)
                if direct is not None:
                    refs.remove(direct)
                for r in refs:
                    other[r] += 1
            for pb in f.get("promoted", []):
                for r in _fn_refs(pb):
                    other[r] += 1
        cands = []
        vanished = {r.rsplit("::", 1)[0] for r in ref if r not in fns}
        for g, f in fns.items():
            if f["kind"] not in ("Fn", "AssocFn") or f.get("impl_trait") or f.get("in_trait") or f.get("stub"):
                continue
            name = g.split("::")[-1]
            if not _private_to_module(g, f):
                continue
            if name in words and (g in ref or not ref):
                continue            # a function the rules may anchor on
            if ref and g not in ref and g.rsplit("::", 1)[0] in vanished and len(calls.get(g, [])) > 1:
                continue            # several call sites + a reference function vanished from the same impl: possibly a rename the
                #                     signature test could not resolve; leave it for the rules to identify structurally
            sites = calls.get(g, [])
            if not sites or len(sites) > MAX_SITES or other.get(g):
                continue
            gb = f["body"]
            if len(gb["blocks"]) > MAX_BLOCKS:
                continue
            if any(blk["term"]["k"] in ("yield", "asm", "tailcall", "coroutine_drop") for blk in gb["blocks"]):
                continue
            callees = {c for c in _fn_refs(gb)}
            if g in callees:
                continue
            # every instance of every caller resolves the site to an instance of g
            ok = True
            for (fk, bi) in sites:
                if fk == g:
                    ok = False
                for ci in by_def.get(fk, []):
                    c = ci["calls"].get(str(bi))
                    if not c or c.get("k") != "inst" or insts[c["id"]]["def"] != g:
                        ok = False
            if ok:
                cands.append(g)
        # do not inline a helper into another helper that is itself inlined in this pass (next pass handles the chain)
        cset = set(cands)
        cands = [g for g in cands if not any(fk in cset for (fk, _b) in calls[g])]
        if not cands:
            break
        for g in cands:
            G = fns[g]
            for (fk, bi) in calls[g]:
                F = fns[fk]
                boff = _inline_at(F, bi, G)
                for ci in by_def.get(fk, []):
                    c = ci["calls"].pop(str(bi))
                    gi = insts[c["id"]]
                    for k, v in gi["calls"].items():
                        ci["calls"][str(boff + int(k))] = v
                    for k, v in gi["drops"].items():
                        ci["drops"][str(boff + int(k))] = v
                done.setdefault(g, []).append(fk)
            # closures of the helper now live in (the first of) its callers
            for ck, cf in fns.items():
                if cf.get("parent_fn") == g:
                    cf["parent_fn"] = calls[g][0][0]
            # leave an empty stub
            G["body"] = {"arg_count": G["body"]["arg_count"], "locals": G["body"]["locals"], "upvar_names": [],
                         "blocks": [{"cleanup": False, "stmts": [], "term": {"k": "unreachable"}}]}
            G["promoted"] = []
            G["stub"] = True
            for gi in by_def.get(g, []):
                gi["calls"] = {}
                gi["drops"] = {}
    j["inlined"] = done
    for g, callers in done.items():
        REPARENT[g] = callers[0]
    return done
