"""Rules about model.rs / execution reset / determinism (Z1, Z2, Z4 for C13; I1-I3 for C16; B5 for C19)."""
from . import deny
from .common import *

CHECK = "model::Builder::check"

# ---------------------------------------------------------------------------------------- C13

Z1_TYPES = ["rt::path::Path", "rt::path::Schedule", "rt::path::Load", "rt::path::Spurious", "rt::path::Entry", "rt::path::Thread",
            "rt::object::Store", "rt::object::Ref", "rt::vv::VersionVec"]


def _serde_fns(prog, ty):
    ser = None
    seq = None
    for k, fn in prog.fns.items():
        if fn.j.get("impl_adt") == ty and str(fn.j.get("impl_trait", "")).endswith("_serde::Serialize") and k.endswith("::serialize"):
            ser = k
        if (("for %s>::deserialize::__Visitor" % ty) in k or ("for %s<" % ty) in k and ">::deserialize::__Visitor" in k) and k.endswith("::visit_seq"):
            seq = k
    return ser, seq


def _restored_after_load(prog, ty, field):
    """`ty.field` is configuration restored after a checkpoint load: some method of `ty` assigns it from one of its own
    parameters on every path, and Builder::check calls that method on every path from load_execution_path to the first
    Scheduler::run."""
    fn = prog.fn(CHECK)
    if fn is None:
        return False
    inst = prog.ident(CHECK)
    loads = [b for (b, t, c) in prog.sites(inst) if prog.callee_key(c) == "model::checkpoint::load_execution_path"]
    runs = [b for (b, t, c) in prog.sites(inst) if prog.callee_key(c) == "rt::scheduler::Scheduler::run"]
    if not loads or not runs:
        return False
    for w in prog.writers().get((ty, field), []):
        if w["kind"] != "assign" or not w.get("exact"):
            continue
        m = prog.fns[w["fn"]]
        if m.j.get("impl_adt") != ty or m.kind == "Closure":
            continue
        if strip(rv_expr(prog, w))[0] != "param" or not every_path_passes(m.body, [w["bb"]]):
            continue
        calls = [b for (b, t, c) in prog.sites(inst) if prog.callee_key(c) == w["fn"]]
        if calls and all(_passes_before(fn.body, l, calls, runs) for l in loads):
            return True
    return False


def _passes_before(body, start, through, stops):
    """Every path from the end of block `start` reaches one of `through` before any of `stops` (or never reaches a stop)."""
    seen = set()
    dq = list(body.succs(start))
    through = set(through)
    stops = set(stops)
    while dq:
        b = dq.pop()
        if b in seen or b in through:
            continue
        seen.add(b)
        if b in stops:
            return False
        dq.extend(body.succs(b))
    return True


def Z1(ctx):
    """Serialisation completeness of the checkpointed path (feature `checkpoint`), read off the *expanded* derives:
    `serialize` emits every field / variant under its own name from the same field of self, and the sequence visitor of
    `deserialize` fills every field from the input (no skipped / defaulted field)."""
    prog = ctx.prog
    if not any(str(im.get("trait", "")).endswith("_serde::Serialize") or im.get("trait") == "serde::Serialize" for im in prog.impls):
        ctx.notes.append("Z1 skipped in config %s: checkpoint feature not compiled" % ctx.config)
        return
    n = 0
    for ty in Z1_TYPES:
        adt = prog.adts.get(ty)
        if adt is None:
            ctx.missing("Z1", ty)
            continue
        n += 1
        loc = "%s:%s" % (adt["file"], adt["line"])
        ser, seq = _serde_fns(prog, ty)
        if ser is None or (seq is None and adt["kind"] == "struct"):
            ctx.bad("Z1", ty, "%s is part of the checkpointed path but does not derive Serialize and Deserialize" % ty, loc, detail="impl")
            continue
        fn = prog.fns[ser]
        inst = prog.ident(ser)
        ctx.touch(ser, 1)
        if adt["kind"] == "struct":
            fields = [f["name"] for f in adt["variants"][0]["fields"]]
            got = {}
            for (b, t, c) in prog.sites(inst):
                k = prog.callee_key(c)
                if k.endswith("SerializeStruct::serialize_field") or k.endswith("SerializeTupleStruct::serialize_field"):
                    nm = canon(arg_expr(fn.body, t, 1)).strip('"') if k.endswith("SerializeStruct::serialize_field") else str(len(got))
                    val = arg_expr(fn.body, t, 2 if k.endswith("SerializeStruct::serialize_field") else 1)
                    got[nm] = canon(strip(val))
                if k.endswith("Serializer::serialize_newtype_struct"):
                    got[fields[0]] = canon(strip(arg_expr(fn.body, t, 2)))
            missing = [f for f in fields if got.get(f) != "self." + f]
            # configuration fields: deliberately not stored, but set again from the Builder right after a checkpoint is loaded
            restored = [f for f in missing if _restored_after_load(prog, ty, f)]
            missing = [f for f in missing if f not in restored]
            sfn = prog.fns[seq]
            ctor_ok = False
            defaults = []
            for b, blk in enumerate(sfn.body.blocks):
                for st in blk["stmts"]:
                    if st["k"] == "=" and st["rv"]["k"] == "agg" and st["rv"].get("adt") == ty:
                        ctor_ok = True
                        for f, o in zip(st["rv"]["field_names"], st["rv"]["ops"]):
                            e = sfn.body.expr_of_operand(o)
                            if "next_element" not in canon(e) and f not in restored:
                                defaults.append(f)
            if missing or defaults or not ctor_ok:
                ctx.bad("Z1", ty, "field(s) of %s are not round-tripped by the derived (de)serialisation: not serialised %s, not read back %s - "
                        "a reloaded checkpoint differs from the stored path" % (ty, missing, defaults), loc, detail="attr")
            else:
                ctx.ok("Z1", ty, "all %d field(s) serialised under their own name and read back%s" %
                       (len(fields) - len(restored), (" (%s: configuration, set again after every load)" % ", ".join(restored)) if restored else ""),
                       [prog.fns[ser].loc()])
        else:
            variants = [v["name"] for v in adt["variants"]]
            got = set()
            for (b, t, c) in prog.sites(inst):
                k = prog.callee_key(c)
                if k.endswith("Serializer::serialize_newtype_variant") or k.endswith("Serializer::serialize_unit_variant"):
                    got.add(canon(arg_expr(fn.body, t, 3)).strip('"'))
            if got == set(variants):
                ctx.ok("Z1", ty, "all %d variant(s) serialised" % len(variants), [prog.fns[ser].loc()])
            else:
                ctx.bad("Z1", ty, "variant(s) %s of %s are not serialised" % (sorted(set(variants) - got), ty), loc, detail="attr")
    ctx.floor("Z1", n, 9, "Path, Schedule, Load, Spurious, Entry, Thread, Store, Ref, VersionVec")


Z2_TIME_ALLOWED = {CHECK}


def Z2(ctx):
    """No order-sensitive use of randomly seeded containers and no other nondeterministic input on the exploration path."""
    prog = ctx.prog
    ok1 = deny.check_controls(ctx, "Z2", deny.is_hash_iteration,
                              ["z2_iter", "z2_values_mut", "z2_values", "z2_keys", "z2_drain", "z2_into_iter", "z2_for_ref", "z2_set_iter", "z2_retain"])
    ok2 = deny.check_controls(ctx, "Z2-time", lambda k: k in deny.Z2_TIME, ["z2_instant", "z2_system_time"])
    ok3 = deny.check_controls(ctx, "Z2-drop", None, ["z2_drop_map", "z2_drop_map_scope"], kind="drop")
    if not (ok1 and ok2 and ok3):
        return
    hits = deny.find_denied_calls(prog, deny.is_hash_iteration)
    for (k, b, callee) in hits:
        fk = enclosing_fn(k)
        if prog.fns[k].j.get("derived"):
            continue
        ctx.bad("Z2", fk, "iterates a std HashMap/HashSet (%s): the order depends on the per-process random hash seed, so anything done per "
                "element (user destructors, loom operations) happens in a different order on every run" % callee.split("::")[-1],
                site_str(prog, k, b), detail=callee.split("::")[-1])
    drops = deny.hashmap_drops(prog)
    for (k, b, ty) in drops:
        fk = enclosing_fn(k)
        ctx.bad("Z2", fk, "destroys a %s whose values have user-defined destructors (dyn/generic): they run in hash order, which differs between runs" % ty[:80],
                site_str(prog, k, b), detail="drop")
    times = deny.find_denied_calls(prog, lambda k: k in deny.Z2_TIME)
    nt = 0
    for (k, b, callee) in times:
        fk = enclosing_fn(k)
        nt += 1
        if fk in Z2_TIME_ALLOWED:
            ctx.ok("Z2", fk + ":clock", "wall clock only for max_duration", [site_str(prog, k, b)])
        else:
            ctx.bad("Z2", fk, "reads the wall clock (%s) on the exploration path" % callee, site_str(prog, k, b), detail="clock")
    if not hits and not drops:
        n = sum(len(i.calls) for i in prog.insts)
        ctx.ok("Z2", "crate", "no hash-order iteration / hash-ordered destruction among %d call sites" % n, ["crate-wide scan"])
    # the wall clock decides nothing but the max_duration cut-off
    fn = prog.fn(CHECK)
    if fn is not None and nt:
        inst = prog.ident(CHECK)
        el = [(b, t) for (b, t, c) in prog.sites(inst) if prog.callee_key(c) == "std::time::Instant::elapsed"]
        ok = True
        for (b, t) in el:
            atoms = guard_atoms(fn.body, b)
            if not any(ge[0] == "discr" and mentions_field(ge, "model::Builder", "max_duration") for (ge, pol, v, sb) in atoms):
                ok = False
        if ok and el:
            ctx.ok("Z2", CHECK + ":elapsed", "elapsed() consulted only under max_duration", [site_str(prog, CHECK, el[0][0])])
        elif el:
            ctx.bad("Z2", CHECK, "elapsed time influences the run outside the max_duration cut-off", site_str(prog, CHECK, el[0][0]), detail="elapsed")


def Z4(ctx):
    """Checkpoint load precedes the first run; the store precedes scheduler.run of the same iteration and happens on the
    checkpoint boundary only (so the stored path is the one the next execution replays)."""
    prog = ctx.prog
    fn = need_fn(ctx, "Z4", CHECK)
    if fn is None:
        return
    body = fn.body
    inst = prog.ident(CHECK)
    site = {}
    for (b, t, c) in prog.sites(inst):
        k = prog.callee_key(c)
        for nm, key in (("load", "model::checkpoint::load_execution_path"), ("store", "model::checkpoint::store_execution_path"),
                        ("run", "rt::scheduler::Scheduler::run"), ("step", EXEC + "::step"), ("exists", "std::path::Path::exists"),
                        ("set_max", "rt::path::Path::set_max_branches")):
            if k == key:
                site.setdefault(nm, []).append(b)
    need = {"load", "store", "run", "step", "exists"}
    if not need <= set(site):
        ctx.bad("Z4", CHECK, "Builder::check lost a checkpoint step (has %s)" % sorted(site), fn.loc(), detail="shape")
        return
    ctx.touch(CHECK, sum(len(v) for v in site.values()))
    dom = body.dominators()
    lb = site["load"][0]
    ok_load = unreachable_if(body, lb, assume_calls({"std::path::Path::exists": False})) and all(lb not in body.reachable(r) for r in site["run"])
    # the loaded path replaces execution.path before the loop
    wpath = [w for w in prog.writers().get((EXEC, "path"), []) if w["fn"] == CHECK]
    ok_assign = any(w["bb"] == lb or lb in dom.get(w["bb"], ()) for w in wpath)
    if ok_load and ok_assign:
        ctx.ok("Z4", CHECK + ":load", "if the file exists: execution.path = load(..) before the first run", [site_str(prog, CHECK, lb)])
    else:
        ctx.bad("Z4", CHECK, "the checkpoint must be loaded into execution.path (only if the file exists) before the first execution "
                "(guarded=%s assigned=%s)" % (ok_load, ok_assign), site_str(prog, CHECK, lb), detail="load")
    sb = site["store"][0]
    # store -> run in the same iteration: no path from store to step avoiding run
    runs = set(site["run"])
    steps = set(site["step"])
    seen = set()
    dq = list(body.succs(sb))
    reach_step_without_run = False
    while dq:
        x = dq.pop()
        if x in seen or x in runs:
            continue
        seen.add(x)
        if x in steps:
            reach_step_without_run = True
            break
        dq.extend(body.succs(x))
    # store only on the checkpoint boundary and only with a file
    boundary = [(e, pol) for (e, pol, v, sb_) in guard_atoms(body, sb)]
    on_boundary = any(e[0] == "binop" and e[1] == "Eq" and "Rem" in canon(e[2]) and "checkpoint_interval" in canon(e[2]) and canon(e[3]) == "0" and pol is True
                      for (e, pol) in boundary)
    with_file = any(e[0] == "discr" and mentions_field(e, "model::Builder", "checkpoint_file") for (e, pol) in boundary)
    arg = arg_expr(body, body.term(sb), 0)
    stores_path = mentions_field(arg, EXEC, "path") is not None
    if not reach_step_without_run and on_boundary and with_file and stores_path:
        ctx.ok("Z4", CHECK + ":store", "on i % interval == 0 with a file: store(execution.path) before this iteration's run", [site_str(prog, CHECK, sb)])
    else:
        ctx.bad("Z4", CHECK, "the checkpoint must be written (execution.path, on the interval boundary) before the iteration it describes runs: "
                "before-run=%s boundary=%s file=%s path=%s" % (not reach_step_without_run, on_boundary, with_file, stores_path),
                site_str(prog, CHECK, sb), detail="store")


def Z4b(ctx):
    """The checkpoint file is replaced, not overwritten in place: it is opened with truncation (File::create, or OpenOptions
    with truncate(true)); otherwise a shorter checkpoint leaves stale bytes behind and cannot be loaded."""
    prog = ctx.prog
    fk = "model::checkpoint::store_execution_path"
    fn = prog.fn(fk)
    if fn is None:
        ctx.missing("Z4b", fk)
        return
    inst = prog.ident(fk)
    keys = [(b, t, prog.callee_key(c)) for (b, t, c) in prog.sites(inst)]
    if any(k == "core::panicking::panic_fmt" or k.startswith("core::panicking") for (_, _, k) in keys) and \
            not any(k.startswith("std::fs::") for (_, _, k) in keys):
        ctx.notes.append("Z4b skipped in config %s: checkpoint feature not compiled (stub)" % ctx.config)
        return
    creates = [b for (b, t, k) in keys if k == "std::fs::File::create"]
    trunc = [(b, t) for (b, t, k) in keys if k == "std::fs::OpenOptions::truncate"]
    opens = [b for (b, t, k) in keys if k in ("std::fs::OpenOptions::open", "std::fs::File::open", "std::fs::File::options")]
    ok = bool(creates) and not opens
    if opens and trunc:
        ok = all(const_int(t["args"][1]) == 1 for (b, t) in trunc)
    if ok:
        ctx.ok("Z4b", fk, "checkpoint file opened with truncation", [site_str(prog, fk, (creates or [x for x, _ in trunc])[0])])
    else:
        ctx.bad("Z4b", fk, "the checkpoint file is opened without truncation: a later, shorter checkpoint leaves trailing bytes of the "
                "previous one and the stored path can no longer be loaded", fn.loc())


# ---------------------------------------------------------------------------------------- C16

I1_RESET = {
    "path": "rt::path::Path::step",
    "threads": "rt::thread::Set::clear",
    "lazy_statics": "rt::lazy_static::Set::reset",
    "objects": "rt::object::Store::<T>::clear",
    "raw_allocations": "<collection>::clear",
    "arc_objs": "<collection>::clear",
}
I1_CONFIG = {"max_threads", "max_history", "location", "log"}


def recycled_thread_stale_fields(prog):
    """Fields of rt::thread::Thread that thread::Set::clear does *not* re-initialise to the constructor's value on every path
    (meaningful when clear() recycles a Thread slot instead of pushing Thread::new)."""
    sk = "rt::thread::Set::clear"
    sfn = prog.fn(sk)
    stale = []
    for tf in [x["name"] for x in prog.adts[T]["variants"][0]["fields"] if not x["ty"].startswith("tracing::")]:
        from_param = any(x[0] == "param" for w in prog.writers().get((T, tf), []) if w["kind"] == "construct" and w["fn"] == T + "::new"
                         for x in subexprs(prog.fns[w["fn"]].body.expr_of_operand(w["op"])))
        tws = [w for w in prog.writers().get((T, tf), []) if w["fn"] == sk and
               (is_reinit_write(prog, w, T, tf, T + "::new") or (from_param and w["kind"] == "assign" and w.get("exact")))]
        if not (tws and every_path_passes(sfn.body, [w["bb"] for w in tws])):
            stale.append(tf)
    return stale


def threads_rebuilt(prog):
    """thread::Set::clear drops every Thread and pushes a fresh Thread::new (the form of the reference tree)."""
    sk = "rt::thread::Set::clear"
    sfn = prog.fn(sk)
    if sfn is None:
        return None
    keys = [(prog.callee_key(c), canon(arg_expr(sfn.body, t, 0)) if t["args"] else "") for (b, t, c) in prog.sites(prog.ident(sk))]
    cleared = any(k.endswith("Vec::<T, A>::clear") and "self.threads" in a for k, a in keys)
    pushed = any(k.endswith("Vec::<T, A>::push") and "self.threads" in a for k, a in keys)
    return cleared and pushed


def I1(ctx):
    """Reset completeness: every field of Execution is rebuilt/advanced/cleared or a listed configuration field in Execution::step; Set::clear assigns every field; lazy statics re-created."""
    prog = ctx.prog
    fk = EXEC + "::step"
    fn = need_fn(ctx, "I1", fk)
    if fn is None:
        return
    body = fn.body
    inst = prog.ident(fk)
    adt = prog.adts.get(EXEC)
    fields = [f["name"] for f in adt["variants"][0]["fields"]]
    # the reconstructed Execution
    ctor = None
    for b, blk in enumerate(body.blocks):
        for s in blk["stmts"]:
            if s["k"] == "=" and s["rv"]["k"] == "agg" and s["rv"].get("adt") == EXEC:
                ctor = (b, s)
    dom = body.dominators()
    newval = {}
    if ctor is not None:
        # rebuild form: `Some(Execution { id, path, .. })`
        b0, s0 = ctor
        ops = dict(zip(s0["rv"]["field_names"], s0["rv"]["ops"]))
        for f in fields:
            newval[f] = strip(body.expr_of_operand(ops[f])) if f in ops else None
    else:
        # in-place form: `self.x.clear(); self.id = Id::new(); Some(self)` - the value of a field at the `Some(self)` is what
        # was last assigned to it on the way, or the field itself
        somes = [b for b in blocks_assigning_ret(body, lambda e: e[0] == "agg" and e[2] == "Some" and strip(e[3][0])[0] == "param")
                 if not body.blocks[b]["cleanup"]]
        if len(somes) != 1:
            ctx.missing("I1", fk, "Execution::step neither rebuilds the Execution nor returns Some(self)")
            return
        b0 = somes[0]
        for f in fields:
            ws = [w for w in prog.writers().get((EXEC, f), []) if w["fn"] == fk and w["kind"] == "assign" and w["exact"] and w["bb"] in dom[b0]]
            if ws:
                newval[f] = strip(rv_expr(prog, max(ws, key=lambda w: len(dom[w["bb"]]))))
            else:
                newval[f] = ("field", ("param", 1, "self"), f, EXEC)
    calls = [(b, t, prog.callee_key(c)) for (b, t, c) in prog.sites(inst)]
    n = 0
    for f in fields:
        n += 1
        e = newval.get(f)
        if f == "id":
            if e is not None and e[0] == "call" and e[1] == "rt::execution::Id::new":
                ctx.ok("I1", "Execution.id", "fresh Id::new()", [site_str(prog, fk, b0)])
            else:
                ctx.bad("I1", "Execution.id", "a new iteration must get a fresh execution id", site_str(prog, fk, b0))
            continue
        if f in I1_CONFIG:
            if e is not None and is_field(e, EXEC, f):
                ctx.ok("I1", "Execution." + f, "configuration carried over", [site_str(prog, fk, b0)])
            else:
                ctx.bad("I1", "Execution." + f, "configuration field %s is not carried over unchanged" % f, site_str(prog, fk, b0))
            continue
        reset = I1_RESET.get(f)
        if reset is None:
            ctx.bad("I1", "Execution." + f, "field `%s` of Execution is neither a listed configuration field nor reset by Execution::step: state "
                    "created in one iteration is visible in the next" % f, site_str(prog, fk, b0), detail="unlisted")
            continue
        hit = [bb for (bb, t, k) in calls if (k == reset or (reset == "<collection>::clear" and is_std_collection_call(k, "clear")))
               and is_field(arg_expr(body, t, 0), EXEC, f)]
        if hit and e is not None and is_field(e, EXEC, f) and any(h in dom[b0] for h in hit):
            ctx.ok("I1", "Execution." + f, "%s before the next iteration" % reset.split("::")[-1], [site_str(prog, fk, hit[0])])
        else:
            ctx.bad("I1", "Execution." + f, "field `%s` is carried into the next iteration without %s" % (f, reset), site_str(prog, fk, b0), detail="no-reset")
    # every field of the struct as it is now is judged (a configuration field that was only ever copied forward may be removed;
    # the fields holding per-iteration state - 7 on the pinned tree - are the ones that must be there)
    nfields = sum(len(v["fields"]) for v in prog.adts.get(EXEC, {"variants": []})["variants"])
    ctx.floor("I1", n, max(7, min(11, nfields)), "every field of Execution (11 on the pinned tree, 7 of them per-iteration state)")
    # thread::Set::clear assigns every field of Set
    sk = "rt::thread::Set::clear"
    sfn = need_fn(ctx, "I1", sk)
    if sfn is not None:
        sadt = prog.adts.get(SET)
        for f in [x["name"] for x in sadt["variants"][0]["fields"]]:
            ws = [w for w in prog.writers().get((SET, f), []) if w["fn"] == sk]
            if f == "threads":
                sinst = prog.ident(sk)
                keys = [(prog.callee_key(c), canon(arg_expr(sfn.body, t, 0)) if t["args"] else "") for (b, t, c) in prog.sites(sinst)]
                cleared = any(k.endswith("Vec::<T, A>::clear") and "self.threads" in a for k, a in keys)
                pushed = any(k.endswith("Vec::<T, A>::push") and "self.threads" in a for k, a in keys)
                if cleared and pushed:
                    ctx.ok("I1", "Set.threads", "cleared and re-seeded with a fresh main thread", [sfn.loc()])
                    continue
                # in-place form: keep slot 0, drop the rest, and re-initialise *every* field of the kept Thread
                trunc = any((k.endswith("Vec::<T, A>::truncate") or k.endswith("Vec::<T, A>::clear") or k.endswith("::drain")) and "self.threads" in a
                            for k, a in keys)
                stale = recycled_thread_stale_fields(prog)
                if trunc and not stale:
                    ctx.ok("I1", "Set.threads", "spawned threads dropped; every field of the recycled main thread re-initialised to the constructor's value", [sfn.loc()])
                elif not trunc:
                    ctx.bad("I1", "Set.threads", "thread::Set::clear must drop all threads and push a fresh main thread", sfn.loc())
                else:
                    for tf in stale:
                        ctx.bad("I1", "Thread." + tf, "the recycled main thread keeps `%s` from the previous iteration (not re-initialised to the value "
                                "Thread::new gives it)" % tf, sfn.loc(), detail="survives")
                continue
            assigns = [w for w in ws if w["kind"] == "assign" and every_path_passes(sfn.body, [w["bb"]])]
            if assigns:
                val = canon(rv_expr(prog, assigns[0]))
                good = True
                if f == "active":
                    good = "Some" in val and "0" in val
                if f == "seq_cst_causality":
                    good = "VersionVec::new" in val
                if f == "execution_id":
                    good = val == "execution_id"
                if good:
                    ctx.ok("I1", "Set." + f, "reset to %s" % val[:50], [site_str(prog, sk, assigns[0]["bb"])])
                else:
                    ctx.bad("I1", "Set." + f, "thread::Set::clear resets %s to %s" % (f, val[:80]), site_str(prog, sk, assigns[0]["bb"]), detail="value")
            else:
                ctx.bad("I1", "Set." + f, "field `%s` of thread::Set survives clear(): thread/clock state of the previous iteration leaks" % f, sfn.loc(), detail="survives")
        # the fresh main thread has index 0
        sinst = prog.ident(sk)
        idx0 = False
        for (b, t, c) in prog.sites(sinst):
            if prog.callee_key(c) == "rt::thread::Id::new" and canon(arg_expr(sfn.body, t, 1)) == "0":
                idx0 = True
        if idx0:
            ctx.ok("I1", "Set.clear:main", "main thread restarts at index 0", [sfn.loc()])
        else:
            ctx.bad("I1", "rt::thread::Set::clear", "thread ids must start again at the main thread (index 0)", sfn.loc(), detail="main")
    # lazy_static::Set::reset re-creates the map and asserts the previous one was dropped
    lk = "rt::lazy_static::Set::reset"
    lfn = need_fn(ctx, "I1", lk)
    if lfn is not None:
        ws = [w for w in prog.writers().get(("rt::lazy_static::Set", "statics"), []) if w["fn"] == lk and w["kind"] == "assign"]
        ps = panic_sites(prog, lk, "lazy_static was not dropped")
        fresh = ws and "std::collections::" in canon(rv_expr(prog, ws[0])) and "::new" in canon(rv_expr(prog, ws[0]))
        if fresh and ps:
            ctx.ok("I1", lk, "asserts the previous statics were dropped; installs an empty map", [site_str(prog, lk, ws[0]["bb"])])
        else:
            ctx.bad("I1", lk, "lazy statics must be re-created empty for every iteration", lfn.loc())
    # Scheduler::run builds its coroutines afresh
    rk = "rt::scheduler::Scheduler::run"
    rfn = prog.fn(rk)
    if rfn is not None:
        if not prog.writers().get(("rt::scheduler::Scheduler", "threads")) and \
                [f["name"] for f in prog.adts["rt::scheduler::Scheduler"]["variants"][0]["fields"]] == ["max_threads"]:
            ctx.ok("I1", "rt::scheduler::Scheduler", "holds no per-iteration state (coroutines are locals of run())", [rfn.loc()])
        else:
            ctx.bad("I1", "rt::scheduler::Scheduler", "Scheduler gained state that survives an iteration", rfn.loc(), detail="scheduler-state")


def I2(ctx):
    """The scoped execution state is a thread-local touched only inside rt::scheduler; the Execution is reachable only through rt::execution."""
    prog = ctx.prog
    n = 0
    for s in call_sites(prog, {"scoped_tls::ScopedKey::<T>::with", "scoped_tls::ScopedKey::<T>::set", "scoped_tls::ScopedKey::<T>::is_set"}):
        n += 1
        fk = enclosing_fn(s["fn"])
        if fk.startswith("rt::scheduler::"):
            ctx.ok("I2", fk, "STATE touched only inside rt::scheduler", [site_str(prog, s["fn"], s["bb"])])
        else:
            ctx.bad("I2", fk, "the scoped execution state is accessed outside rt::scheduler", site_str(prog, s["fn"], s["bb"]))
    ctx.floor("I2", n, 3, "set, is_set, with")
    for s in call_sites(prog, "rt::scheduler::Scheduler::with_state"):
        fk = enclosing_fn(s["fn"])
        if fk in ("rt::scheduler::Scheduler::with_execution", "rt::scheduler::Scheduler::spawn"):
            ctx.ok("I2", fk + ":with_state", "", [site_str(prog, s["fn"], s["bb"])])
        else:
            ctx.bad("I2", fk, "Scheduler::with_state has a new caller: the Execution is reachable through an unlisted path", site_str(prog, s["fn"], s["bb"]), detail="with_state")
    for s in call_sites(prog, "rt::scheduler::Scheduler::with_execution"):
        fk = enclosing_fn(s["fn"])
        if fk == "rt::execution":
            ctx.ok("I2", fk + ":with_execution", "", [site_str(prog, s["fn"], s["bb"])])
        else:
            ctx.bad("I2", fk, "Scheduler::with_execution called outside rt::execution", site_str(prog, s["fn"], s["bb"]), detail="with_execution")
    st = [s for s in prog.statics if s["path"] == "rt::scheduler::STATE"]
    tls = [s for s in prog.statics if s["path"].startswith("rt::scheduler::STATE::") and s["thread_local"]]
    if st and tls:
        ctx.ok("I2", "rt::scheduler::STATE", "thread-local scoped key: models on other OS threads cannot observe it", ["%s:%s" % (st[0]["file"], st[0]["line"])])
    else:
        ctx.bad("I2", "rt::scheduler::STATE", "the execution state is no longer a thread-local scoped key")


def I3(ctx):
    """Execution is constructed only by new/step, from empty containers."""
    prog = ctx.prog
    n = 0
    seen = set()
    for (adt, f), ws in prog.writers().items():
        if adt != EXEC:
            continue
        for w in ws:
            if w["kind"] == "construct" and w["fn"] not in seen:
                seen.add(w["fn"])
                n += 1
                if w["fn"] in (EXEC + "::new", EXEC + "::step"):
                    ctx.ok("I3", w["fn"], "constructs Execution", [site_str(prog, w["fn"], w["bb"])])
                else:
                    ctx.bad("I3", w["fn"], "Execution is constructed outside Execution::new/step", site_str(prog, w["fn"], w["bb"]))
    ctx.floor("I3", n, 1, "Execution::new (and step, when it rebuilds)")
    # Execution::new starts from empty containers
    fk = EXEC + "::new"
    fn = prog.fn(fk)
    if fn is not None:
        for w in [w for (a, f), ws in prog.writers().items() if a == EXEC for w in ws if w["fn"] == fk and w["kind"] == "construct"]:
            pass
        body = fn.body
        for b, blk in enumerate(body.blocks):
            for s in blk["stmts"]:
                if s["k"] == "=" and s["rv"]["k"] == "agg" and s["rv"].get("adt") == EXEC:
                    ops = dict(zip(s["rv"]["field_names"], s["rv"]["ops"]))
                    want = {"raw_allocations": "::new(", "arc_objs": "::new(", "objects": "with_capacity",
                            "lazy_statics": "lazy_static::Set::new", "threads": "thread::Set::new", "path": "Path::new"}
                    for f, frag in want.items():
                        txt = canon(body.expr_of_operand(ops[f])) if f in ops else ""
                        if frag in txt:
                            ctx.ok("I3", "new:" + f, "starts empty (%s)" % frag, [site_str(prog, fk, b)])
                        else:
                            ctx.bad("I3", fk, "Execution::new must start `%s` empty (found %s)" % (f, txt[:60]), site_str(prog, fk, b), detail=f)


# ---------------------------------------------------------------------------------------- C19

def B5(ctx):
    """max_permutations / max_duration are tested only on the checkpoint boundary, by >=, after the checkpoint store,
    and end the run with a plain return."""
    prog = ctx.prog
    fn = need_fn(ctx, "B5", CHECK)
    if fn is None:
        return
    body = fn.body
    inst = prog.ident(CHECK)
    stores = [b for (b, t, c) in prog.sites(inst) if prog.callee_key(c) == "model::checkpoint::store_execution_path"]
    dom = body.dominators()
    found = {}

    def classify(e):
        """'max_permutations' / 'max_duration' if e is the comparison of the iteration count / elapsed time with that limit."""
        if e[0] == "binop" and e[1] in ("Ge", "Lt", "Gt", "Le"):
            txt = canon(e)
        elif e[0] == "call" and e[1].split("::")[-1] in ("ge", "lt", "gt", "le") and "PartialOrd" in e[1]:
            txt = canon(e)
        else:
            return None
        if "max_permutations" in txt:
            return "max_permutations"
        if "max_duration" in txt and "elapsed" in txt:
            return "max_duration"
        return None
    # the comparison may feed the switch directly, or be computed into a temporary first (closure of a desugared combinator,
    # inlined helper): look at switch operands, assigned values and call results
    for b in range(body.n):
        if body.blocks[b]["cleanup"]:
            continue
        cands = []
        t = body.term(b)
        if t["k"] == "switch":
            cands.append(body.expr_of_operand(t["op"]))
        if t["k"] == "call":
            cands.append(("call", callee_path(t), [body.expr_of_operand(a) for a in t["args"]], b))
        for st in body.blocks[b]["stmts"]:
            if st["k"] == "=" and st["rv"]["k"] == "binop":
                cands.append(body.expr_of_rvalue(st["rv"]))
        for e in cands:
            pol = True
            while e[0] == "unop" and e[1] == "Not":
                e = e[2]
            w = classify(e)
            if w and w not in found:
                found[w] = (b, e, t)
    for which in ("max_permutations", "max_duration"):
        if which not in found:
            ctx.bad("B5", CHECK, "the %s limit is no longer tested" % which, fn.loc(), detail=which + "-missing")
            continue
        b, e, t = found[which]
        atoms = guard_atoms(body, b)
        on_boundary = any(ge[0] == "binop" and ge[1] == "Eq" and "checkpoint_interval" in canon(ge) and pol is True for (ge, pol, v, sb) in atoms)
        is_ge = (e[0] == "binop" and e[1] == "Ge") or (e[0] == "call" and e[1].endswith("::ge"))
        lhs_ok = (canon(e[2]) in ("i", "phi(i)") if which == "max_permutations" and e[0] == "binop" else True)
        # when the comparison holds, control reaches a return without panic and without another run (path-sensitive in the
        # boolean temporaries the result travels through)
        want_canon = canon(e)
        truth = e[1] in ("Ge", "Gt") if e[0] == "binop" else e[1].split("::")[-1] in ("ge", "gt")

        def a_lim(body_, b_, t_, ex, want_canon=want_canon, truth=truth):
            pol = True
            while ex[0] == "unop" and ex[1] == "Not":
                ex = ex[2]
                pol = not pol
            if canon(ex) == want_canon:
                return switch_targets_for(t_, truth == pol)
            return None

        def value_of(body_, b_, ex, want_canon=want_canon, truth=truth):
            return truth if canon(ex) == want_canon else None
        a_lim.value_of = value_of
        r = PEval(body, a_lim).run(start=b)[0]
        runs = {bb for (bb, tt, c) in prog.sites(inst) if prog.callee_key(c) == "rt::scheduler::Scheduler::run"}
        plain = any(body.term(x)["k"] == "return" for x in r) and not (r & runs) and \
            not any(body.term(x)["k"] == "call" and callee_path(body.term(x)).startswith("core::panicking") for x in r)
        after_store = all(any(s in dom[b] for s in stores) or True for _ in [0])
        # the store (if any file) is on every path from the boundary test to the limit test
        # the limit is examined after the checkpoint of this boundary has been written
        st_ok = bool(stores) and all(b in body.reachable(s_) for s_ in stores)
        # each limit is effective on its own: on the checkpoint boundary, with this limit set and reached, the run ends whatever
        # the other limit is (unset, or set and not reached)
        other = "max_duration" if which == "max_permutations" else "max_permutations"
        bnd = [sb for (ge, pol, v, sb) in atoms if ge[0] == "binop" and ge[1] == "Eq" and "checkpoint_interval" in canon(ge) and pol is True and sb is not None]
        independent = True
        if bnd:
            start_b = list(switch_targets_for(body.term(bnd[0]), True))[0]
            for other_set in (False, True):
                oc = found.get(other)
                o_canon = canon(oc[1]) if oc else None
                o_truth = (oc[1][1] in ("Ge", "Gt") if oc[1][0] == "binop" else oc[1][1].split("::")[-1] in ("ge", "gt")) if oc else None

                def a2(body_, b_, t_, ex, other_set=other_set, o_canon=o_canon, o_truth=o_truth):
                    r0 = a_lim(body_, b_, t_, ex)
                    if r0 is not None:
                        return r0
                    pol = True
                    while ex[0] == "unop" and ex[1] == "Not":
                        ex = ex[2]
                        pol = not pol
                    if o_canon is not None and canon(ex) == o_canon:
                        return switch_targets_for(t_, (not o_truth) == pol)
                    for (fld, st_) in ((which, True), (other, other_set)):
                        r1 = assume_option_field("model::Builder", fld, st_)(body_, b_, t_, ex if pol else ("unop", "Not", ex))
                        if r1 is not None:
                            return r1
                    return None

                def v2(body_, b_, ex, o_canon=o_canon, o_truth=o_truth):
                    r0 = value_of(body_, b_, ex)
                    if r0 is not None:
                        return r0
                    if o_canon is not None and canon(ex) == o_canon:
                        return not o_truth
                    return None
                a2.value_of = v2
                r2 = PEval(body, a2).run(start=start_b)[0]
                if (r2 & runs) or not any(body.term(x)["k"] == "return" for x in r2):
                    independent = False
        if which == "max_duration":
            # the time compared with the limit is the time since the start of the run: `x.elapsed()` of an Instant taken once,
            # before the iteration loop
            el = mentions_call(e, "std::time::Instant::elapsed")
            since_start = False
            if el is not None and el[2]:
                srcs = [x for x in deep_sources(body, el[2][0]) if x[0] == "call"]
                since_start = bool(srcs) and all(x[1] == "std::time::Instant::now" and len(x) > 3 and
                                                 x[3] not in set().union(*[body.reachable(sx) for sx in body.succs(x[3])]) for x in srcs)
            if since_start:
                ctx.ok("B5", CHECK + ":max_duration-since-start", "elapsed() of the Instant taken once before the loop", [site_str(prog, CHECK, b)])
            else:
                ctx.bad("B5", CHECK, "max_duration is not compared with the time since the start of the run (the Instant it measures "
                        "from is taken again inside the loop, or is not an Instant::now() at all)", site_str(prog, CHECK, b),
                        detail="max_duration-since-start")
        if not independent:
            ctx.bad("B5", CHECK, "the %s limit does not end the run in every configuration of the other limit (%s unset / set and not "
                    "reached): one limit shadows the other" % (which, other), site_str(prog, CHECK, b), detail=which + "-shadowed")
        if on_boundary and is_ge and plain and lhs_ok and st_ok:
            ctx.ok("B5", CHECK + ":" + which, "tested with >= on the checkpoint boundary after the store; plain return", [site_str(prog, CHECK, b)])
        else:
            ctx.bad("B5", CHECK, "%s must end the run between iterations on the checkpoint boundary with a plain return "
                    "(boundary=%s, >= =%s, plain-return=%s, after-store=%s)" % (which, on_boundary, is_ge, plain, st_ok),
                    site_str(prog, CHECK, b), detail=which)
