"""G-STATE: discipline of rt::thread::Thread.state (who blocks / wakes whom, guarded by what).

Used by C05, C07, C08, C09 (DESIGN.md section 4)."""
from .common import *
from .common import _closure_arg

STATE_SETTERS = {
    "rt::thread::Thread::new", "rt::thread::Thread::set_runnable", "rt::thread::Thread::set_blocked",
    "rt::thread::Thread::set_yield", "rt::thread::Thread::set_terminated",
    "rt::thread::Thread::set_unparked",
}


def receiver_is_active(body, term):
    """Is the receiver of a Thread::set_* call the active thread (derived from Set::active_mut /
    split_active().0 / active2_mut().0)?"""
    e = arg_expr(body, term, 0)
    if mentions_call(e, "rt::thread::Set::active_mut"):
        return True
    return False


def S1(ctx):
    """`state` is assigned only inside `impl Thread` setters."""
    prog = ctx.prog
    ws = prog.writers().get((T, "state"), [])
    n = 0
    for w in ws:
        if w["kind"] == "borrow_mut" and not w["exact"]:
            continue
        n += 1
        if is_reinit_write(prog, w, T, "state", T + "::new"):
            ctx.ok("S1", w["fn"], "re-initialises Thread.state to the constructor's value between iterations", [site_str(prog, w["fn"], w["bb"])])
            continue
        if w["fn"] in STATE_SETTERS:
            ctx.ok("S1", w["fn"], "writes Thread.state (%s)" % w["kind"], [site_str(prog, w["fn"], w["bb"])])
        else:
            ctx.bad("S1", w["fn"], "Thread.state is written outside the transition functions of `impl Thread` "
                    "(%s): the block/wake rules cannot see this transition" % w["kind"],
                    site_str(prog, w["fn"], w["bb"]))
    ctx.floor("S1", n, 5, "4 field assignments + 1 constructor of Thread.state")


def _transition_sites(prog, setter):
    return call_sites(prog, "rt::thread::Thread::" + setter)


def S2(ctx):
    """Every set_blocked on the *active* thread is followed, on all paths, by Execution::schedule
    before control returns to user code (otherwise the blocked thread keeps running)."""
    prog = ctx.prog
    ea = EventAnalysis(prog, path_matcher({"schedule": EXEC + "::schedule"}))
    sites = [s for s in _transition_sites(prog, "set_blocked")
             if receiver_is_active(prog.fns[s["fn"]].body, s["term"])]
    roots = [prog.ident(k) for k in prog.fns if prog.fns[k].kind != "Closure"]
    ea.solve(roots)
    n = 0
    for s in sites:
        n += 1
        esc = followed_by(prog, ea, s, "schedule")
        anchor = enclosing_fn(s["fn"])
        if esc:
            ctx.bad("S2", anchor, "active thread is marked Blocked but some path returns to the caller of %s "
                    "without passing Execution::schedule" % esc[0], site_str(prog, s["fn"], s["bb"]))
        else:
            ctx.ok("S2", anchor, "set_blocked(active) -> schedule on every path", [site_str(prog, s["fn"], s["bb"])])
        ctx.touch(s["fn"], 1)
    # counted per operation, not per call site (park marks the thread blocked twice on the reference tree; the second call is
    # redundant and may be removed)
    ctx.floor("S2", len({enclosing_fn(s_["fn"]) for s_ in sites}), 3, "branch_acquire, branch_disable, park")


def followed_by(prog, ea, site, ev, max_depth=8):
    """Does every path after `site` pass `ev` before the outermost caller regains control?
    Walk up the (instance) call chain while the obligation is not discharged.  Returns [] if
    discharged everywhere, else list of root fn keys through which it escapes."""
    # find instances (reachable set of ea) containing this body site
    escapes = []
    callers = reverse_edges(prog, ea.sub)
    start = [i for i in ea.sub if prog.insts[i].key == site["fn"]]
    seen = set()
    work = [(i, site["bb"], 0) for i in start]
    while work:
        i, b, d = work.pop()
        if (i, b) in seen:
            continue
        seen.add((i, b))
        if ea._must_reach_from(i, b, ev):
            continue
        # obligation escapes instance i -> every call site of i inherits it
        cs = callers.get(i, [])
        if not cs or d >= max_depth:
            if prog.fns[prog.insts[i].key].kind != "Closure" or not cs:
                # closures' identity instances have no callers: they are duplicates of specialised ones
                if prog.fns[prog.insts[i].key].kind == "Closure" and prog.insts[i].identity:
                    continue
                escapes.append(prog.insts[i].key)
            continue
        for (ci, cb) in cs:
            work.append((ci, cb, d + 1))
    return escapes


_rev_cache = {}


def reverse_edges(prog, sub):
    key = (id(prog), len(sub))
    if key in _rev_cache:
        return _rev_cache[key]
    rev = {}
    for i in sub:
        for (b, t, how) in prog.edges(i):
            rev.setdefault(t, []).append((i, b))
    _rev_cache[key] = rev
    return rev


# ---- S3 / S5: cause guards ------------------------------------------------------------------

def operation_guards(body, bb, recv_canon):
    """Guards dominating bb that read `<recv>.operation`.  Returns list of (kind, truth, expr)."""
    out = []
    for (e, pol, val, sb) in guard_atoms(body, bb):
        f = None
        for x in subexprs(e):
            if x[0] == "field" and x[2] == "operation" and x[3] == T:
                f = x
                break
        if f is None:
            continue
        same = canon(strip(f[1])) == recv_canon
        kind = "other"
        if e[0] == "call" and e[1].endswith("PartialEq::ne") and pol is not None:
            # `if a != b { continue }` leaves `a == b` known on the fall-through path
            e = ("call", e[1][:-2] + "eq") + tuple(e[2:])
            pol = not pol
        if e[0] == "call" and e[1].endswith("PartialEq::eq"):
            kind = "eq"
        elif e[0] == "discr":
            kind = "discr"
        elif e[0] == "call":
            kind = "call:" + e[1]
        out.append((kind, pol, e, same, val))
    return out


def _object_eq_guard(prog, body, bb, recv_canon):
    """Site is dominated by `<recv>.operation ... object() == <self.state>.erase()` being true."""
    for (kind, pol, e, same, val) in operation_guards(body, bb, recv_canon):
        if kind == "eq" and pol is True and same:
            txt = canon(e)
            if "erase" not in txt:
                # the erased reference may have been hoisted out of the closure (captured variable) or computed by a helper
                txt = canon(deep(prog, body.fn.key, e))
            if "erase" in txt and ("object" in txt or "{closure" in txt):
                return e
    return None


def S3(ctx):
    """Wake by cause: every transition of a non-active thread to Runnable is dominated by a guard that
    reads that thread's pending `operation` (or, for the yield re-activation, its Yield state)."""
    prog = ctx.prog
    n = 0
    for s in _transition_sites(prog, "set_runnable"):
        body = prog.fns[s["fn"]].body
        if receiver_is_active(body, s["term"]):
            continue
        n += 1
        recv = canon(strip(arg_expr(body, s["term"], 0)))
        anchor = s["fn"]
        ctx.touch(s["fn"], 1)
        if anchor == "rt::thread::Thread::set_unparked":
            # the wake-up of unpark(): receiver is `self`; the cause must be "blocked in park", i.e. no pending operation
            # scenario: the target is blocked on some object (pending operation) and is not yielding -> it must not be woken
            scen = {"std::option::Option::<T>::is_none": False, "std::option::Option::<T>::is_some": True, T + "::is_yield": False}
            reads_op = False
            for k2 in [T + "::set_unparked"] + [prog.callee_key(c) for (b2, t2, c) in prog.sites(prog.ident(anchor))]:
                f2 = prog.fn(k2)
                if f2 is None:
                    continue
                for blk in f2.body.blocks:
                    for st in blk["stmts"]:
                        if st["k"] == "=" and st["rv"].get("place") and mentions_field(f2.body.expr_of_place(st["rv"]["place"]), T, "operation"):
                            reads_op = True
            if reads_op and unreachable_if(body, s["bb"], assume_scenario(prog, scen)):
                ctx.ok("S3", anchor, "unpark wakes only a thread without pending operation (parked) or a yielded one", [site_str(prog, s["fn"], s["bb"])])
            else:
                ctx.bad("S3", anchor, "unpark() makes any Blocked/Yield thread Runnable without looking at why it is "
                        "blocked (its pending `operation`): a thread blocked on a lock, join or recv is woken although "
                        "the resource is unavailable", site_str(prog, s["fn"], s["bb"]))
            continue
        if enclosing_fn(anchor) == EXEC + "::schedule":
            anchor = EXEC + "::schedule"
            atoms = guard_atoms(body, s["bb"])
            if any(mentions_call(e, "rt::thread::Thread::is_yield") and pol is True for (e, pol, v, sb) in atoms):
                ctx.ok("S3", anchor, "re-activation only of Yield threads", [site_str(prog, s["fn"], s["bb"])])
            else:
                ctx.bad("S3", anchor, "schedule() makes a thread Runnable that is not guarded by is_yield()",
                        site_str(prog, s["fn"], s["bb"]))
            continue
        g = _object_eq_guard(prog, body, s["bb"], recv)
        if g is not None:
            ctx.ok("S3", anchor, "woken iff operation.object() == this object", [site_str(prog, s["fn"], s["bb"])])
        else:
            ctx.bad("S3", anchor, "a non-active thread is made Runnable without the guard "
                    "`thread.operation.object() == self.state.erase()`: threads waiting for other objects are woken",
                    site_str(prog, s["fn"], s["bb"]))
    ctx.floor("S3", n, 5, "mutex release, rwlock unlock_threads, mpsc send, set_unparked, schedule")


def _action_eq_atom(e, pol, act):
    """the guard atom states `operation.action() == <act>`: `a == act` known true, or `a != act` known false"""
    if e[0] != "call" or not mentions_call(e, "rt::object::Operation::action") or act not in canon(e):
        return False
    return (e[1].endswith("PartialEq::eq") and pol is True) or (e[1].endswith("PartialEq::ne") and pol is False)


def S5(ctx):
    """Every set_blocked on a non-active thread is dominated by `operation.object() == self.state.erase()`,
    plus the action filter where the primitive has one."""
    prog = ctx.prog
    n = 0
    want_action = {
        "rt::rwlock::RwLock::post_acquire_read_lock": "Write",
        "rt::mpsc::Channel::recv": "MsgRecv",
    }
    # which acquiring operation(s) reach each block site (so that a shared helper inherits the filter of its callers)
    reached_from = {}
    for root_fn in want_action:
        r = prog.ident(root_fn)
        if r is None:
            ctx.missing("S5", root_fn)
            continue
        for i in prog.reach([r]):
            reached_from.setdefault(prog.insts[i].key, set()).add(root_fn)
    for s in _transition_sites(prog, "set_blocked"):
        body = prog.fns[s["fn"]].body
        if receiver_is_active(body, s["term"]):
            continue
        n += 1
        ctx.touch(s["fn"], 1)
        recv = canon(strip(arg_expr(body, s["term"], 0)))
        anchor = enclosing_fn(s["fn"])
        roots = reached_from.get(s["fn"], set())
        if anchor not in want_action and roots:
            # a helper shared by several acquire paths: it needs the (strongest) filter of every path that reaches it
            anchor_roots = sorted(roots)
            for rf in anchor_roots:
                act_ = want_action[rf]
                found_ = False
                for (e, pol, val, sb) in guard_atoms(body, s["bb"]):
                    if _action_eq_atom(e, pol, act_):
                        found_ = True
                if not found_:
                    ctx.bad("S5", rf, "blocking of other threads on the path of %s (in helper %s) is not restricted to pending `%s` operations" %
                            (rf.split("::")[-1], anchor.split("::")[-1], act_), site_str(prog, s["fn"], s["bb"]), detail="action")
        g = _object_eq_guard(prog, body, s["bb"], recv)
        if g is None:
            ctx.bad("S5", anchor, "another thread is marked Blocked without the guard "
                    "`operation.object() == self.state.erase()` (threads pending on unrelated objects are blocked)",
                    site_str(prog, s["fn"], s["bb"]))
            continue
        act = want_action.get(anchor)
        if act:
            found = False
            for (e, pol, val, sb) in guard_atoms(body, s["bb"]):
                if _action_eq_atom(e, pol, act):
                    found = True
            if not found:
                ctx.bad("S5", anchor, "blocking of other threads is not restricted to pending `%s` operations" % act,
                        site_str(prog, s["fn"], s["bb"]), detail="action")
                continue
        ctx.ok("S5", anchor, "blocked iff pending on this object" + (" with action %s" % act if act else ""),
               [site_str(prog, s["fn"], s["bb"])])
    ctx.floor("S5", n, 4, "mutex post_acquire, rwlock read/write post_acquire, mpsc recv")


def S6(ctx):
    """set_terminated only from rt::thread_done, after drop_locals, followed by schedule."""
    prog = ctx.prog
    sites = _transition_sites(prog, "set_terminated")
    n = 0
    for s in sites:
        n += 1
        anchor = enclosing_fn(s["fn"])
        ctx.touch(s["fn"], 1)
        if anchor != "rt::thread_done":
            ctx.bad("S6", anchor, "Thread::set_terminated called outside rt::thread_done", site_str(prog, s["fn"], s["bb"]))
            continue
        ctx.ok("S6", anchor, "termination transition only in thread_done", [site_str(prog, s["fn"], s["bb"])])
    root = prog.ident("rt::thread_done")
    if root is None:
        ctx.missing("S6", "rt::thread_done")
        return
    ea = EventAnalysis(prog, path_matcher({
        "drop_locals": T + "::drop_locals", "set_terminated": T + "::set_terminated",
        "schedule": EXEC + "::schedule"})).solve([root])
    m = ea.must_of(root)
    for ev in ("drop_locals", "set_terminated", "schedule"):
        if m is not TOP and ev not in m:
            ctx.bad("S6", "rt::thread_done", "thread_done does not pass `%s` on every path" % ev, detail=ev)
        else:
            ctx.ok("S6", "rt::thread_done:" + ev, "on every path", ["rt::thread_done"])
    for (a, b) in (("drop_locals", "set_terminated"), ("set_terminated", "schedule")):
        if a == "set_terminated":
            bad = []
            for i in ea.sub:
                if "set_terminated" in ea.may.get(i, ()) and prog.insts[i].key.startswith("rt::thread_done::"):
                    for bb in ea.sites_may(i, "set_terminated"):
                        if not ea._must_reach_from(i, bb, "schedule"):
                            bad.append((i, bb))
            if bad:
                ctx.bad("S6", "rt::thread_done", "set_terminated is not followed by schedule on every path", detail="order2")
            else:
                ctx.ok("S6", "rt::thread_done:set_terminated<schedule", "ordered", ["rt::thread_done"])
        else:
            v = ea.must_before(root, a, b)
            if v:
                ctx.bad("S6", "rt::thread_done", "%s does not precede %s on every path" % (a, b), detail="order1")
            else:
                ctx.ok("S6", "rt::thread_done:%s<%s" % (a, b), "ordered", ["rt::thread_done"])
    ctx.floor("S6", n, 1, "one set_terminated call")


# ---- S4 / S8: the park token -----------------------------------------------------------------

def S4(ctx):
    """Token preservation: the place whose value lets rt::park return without blocking must be written
    only by Thread::new (empty), rt::park (consume) and Thread::set_unparked (grant)."""
    prog = ctx.prog
    fn = need_fn(ctx, "S4", "rt::park::{closure#0}")
    if fn is None:
        return
    body = fn.body
    # locate the early `return false` path: blocks that assign const false to _0 and are not followed by schedule
    token_fields = set()
    for b in range(body.n):
        for (e, pol, val, sb) in guard_atoms(body, b):
            pass
    # the guard(s) that decide "do not block": every switch dominating a return-without-set_blocked path
    sched_sites = [b for b in range(body.n) if body.term(b)["k"] == "call" and
                   prog.callee_key(prog.insts[prog.ident(fn.key)].calls.get(b, {})) == EXEC + "::schedule"]
    # blocks from which schedule is unreachable = the non-blocking exit
    nonblocking = set()
    for b in body.reachable():
        r = body.reachable(b)
        if not any(s in r for s in sched_sites) and body.term(b)["k"] != "return":
            nonblocking.add(b)
    subj = set()
    for b in nonblocking:
        for (e, pol, val, sb) in guard_atoms(body, b):
            for x in subexprs(e):
                if x[0] == "field" and x[3] in (T, "rt::thread::State"):
                    subj.add((x[3], x[2]))
    if not subj:
        ctx.missing("S4", "rt::park", "cannot locate the guard of park's non-blocking return")
        return
    ctx.touch(fn.key, len(sched_sites))
    allowed_direct = {"rt::thread::Thread::new", "rt::park", "rt::thread::Thread::set_unparked"}
    # the token is the union of (adt, field) places read by that guard; find writers of each
    w = prog.writers()
    offenders = []
    token_desc = sorted("%s.%s" % (a.split("::")[-1], f) for (a, f) in subj)
    for (a, f) in sorted(subj):
        for wr in w.get((a, f), []):
            if wr["kind"] == "borrow_mut" and not wr["exact"]:
                continue
            fnk = enclosing_fn(wr["fn"])
            if fnk in allowed_direct:
                continue
            if a == T and is_reinit_write(prog, wr, T, f, T + "::new"):
                continue            # reset between iterations to the constructor's value
            offenders.append(wr)
    # the token is overwritten by every *caller* of those writer functions, too: list them
    if offenders:
        over = sorted({o["fn"] for o in offenders})
        callers = []
        for o in over:
            for s in call_sites(prog, o):
                fk = enclosing_fn(s["fn"])
                if fk not in allowed_direct and fk not in ("rt::thread::Thread::set_unparked",):
                    callers.append(site_str(prog, s["fn"], s["bb"]))
        ctx.bad("S4", "rt::thread::Thread.state", "the park token (read by rt::park from %s) lives in a place that is also "
                "overwritten by %s; every block / wake / yield of the thread destroys a pending unpark "
                "(%d overwriting call sites)" % (", ".join(token_desc), ", ".join(x.split("::")[-1] for x in over), len(callers)),
                site_str(prog, fn.key, 0), extra=dict(overwriting_call_sites=sorted(set(callers)), token=token_desc))
    else:
        ctx.ok("S4", "park-token", "token place %s written only by new/park/set_unparked" % token_desc,
               [site_str(prog, fn.key, 0)])


def S8(ctx):
    """Tokens come only from unpark: the token-granting transition of set_unparked is reachable only from
    the public Thread::unpark and the condvar notifications."""
    prog = ctx.prog
    target = "rt::thread::Thread::set_unparked"
    if need_fn(ctx, "S8", target) is None:
        return
    allowed_roots = {"thread::Thread::unpark", "rt::condvar::Condvar::notify_one", "rt::condvar::Condvar::notify_all"}
    # walk callers upwards until a non-helper function
    helpers = {"rt::thread::Thread::unpark", "rt::thread::Set::unpark", target}
    frontier = [target]
    seen = set()
    n = 0
    while frontier:
        k = frontier.pop()
        for s in call_sites(prog, k):
            fk = enclosing_fn(s["fn"])
            if (fk, k) in seen:
                continue
            seen.add((fk, k))
            if fk in helpers:
                frontier.append(fk)
                continue
            n += 1
            ctx.touch(s["fn"], 1)
            if fk in allowed_roots:
                ctx.ok("S8", fk, "grants a park token via %s" % k.split("::")[-1], [site_str(prog, s["fn"], s["bb"])])
            else:
                ctx.bad("S8", fk, "%s reaches Thread::set_unparked (through %s): it can leave a park token with a runnable "
                        "thread although nobody called unpark()" % (fk, k), site_str(prog, s["fn"], s["bb"]))
    ctx.floor("S8", n, 3, "Thread::unpark, Condvar::notify_one, Condvar::notify_all")


# ---- S7 block/wake pairing ------------------------------------------------------------------------

def S7(ctx):
    """Per primitive, the filter under which other threads are blocked on acquire must be contained in the
    filter under which they are woken on release: a wake site (set_runnable guarded by object equality)
    must exist in every release function of an object kind that has a block site."""
    prog = ctx.prog
    pairs = {
        "rt::mutex": (["rt::mutex::Mutex::post_acquire"], ["rt::mutex::Mutex::release_lock"]),
        "rt::rwlock": (["rt::rwlock::RwLock::post_acquire_read_lock", "rt::rwlock::RwLock::post_acquire_write_lock"],
                       ["rt::rwlock::RwLock::release_read_lock", "rt::rwlock::RwLock::release_write_lock"]),
        "rt::mpsc": (["rt::mpsc::Channel::recv"], ["rt::mpsc::Channel::send"]),
    }
    n = 0
    for mod, (blockers, wakers) in pairs.items():
        for bfn in blockers:
            if prog.fn(bfn) is None:
                ctx.missing("S7", bfn)
        for wfn in wakers:
            root = prog.ident(wfn)
            if root is None:
                ctx.missing("S7", wfn)
                continue
            n += 1
            reach = prog.reach([root])
            ok = False
            where = None
            for i in reach:
                key = prog.insts[i].key
                body = prog.fns[key].body
                for (b, t, c) in prog.sites(i):
                    if prog.callee_key(c) == T + "::set_runnable" and not receiver_is_active(body, t):
                        recv = canon(strip(arg_expr(body, t, 0)))
                        g = _object_eq_guard(prog, body, b, recv)
                        if g is not None:
                            # the wake filter must not add an action restriction (block filters are per action,
                            # wake must cover all of them)
                            extra = [1 for (e, pol, v, sb) in guard_atoms(body, b)
                                     if mentions_call(e, "rt::object::Operation::action")]
                            if not extra:
                                ok = True
                                where = site_str(prog, key, b)
            if ok:
                ctx.ok("S7", wfn, "release wakes every thread pending on this object", [where])
            else:
                ctx.bad("S7", wfn, "threads are blocked on this object by %s but this release path wakes none / only a subset "
                        "of them: lost wake-up" % ", ".join(x.split("::")[-1] for x in blockers))
    ctx.floor("S7", n, 4, "mutex 1 + rwlock 2 + mpsc 1 release functions")


# ---- D1 / D2: deadlock assertion and blocking conditions -------------------------------------------

def D1(ctx):
    """The deadlock panic in Execution::schedule is raised exactly under !is_active() && !(all terminated), after set_active."""
    prog = ctx.prog
    k = EXEC + "::schedule"
    fn = need_fn(ctx, "D1", k)
    if fn is None:
        return
    body = fn.body
    ps = panic_sites(prog, k, "deadlock; threads = ")
    if not ps:
        ctx.bad("D1", k, "the documented deadlock panic (\"deadlock; threads = ...\") is no longer raised by schedule()", fn.loc(), detail="missing")
        return
    ctx.touch(k, len(ps))
    inst = prog.ident(k)
    ea = EventAnalysis(prog, path_matcher({"set_active": "rt::thread::Set::set_active",
                                           "branch_thread": "rt::path::Path::branch_thread"}),
                       stop=lambda i: prog.insts[i].key != k).solve([inst])
    IN, OUT = ea.block_out(inst)
    def scen(active, all_terminated):
        """is_active() = active; every thread's is_terminated() = all_terminated (the thread set is never empty: the first
        element request of a loop over it yields an element).  `all`/`any` over closures are evaluated through the closure."""
        table = {"rt::thread::Set::is_active": active, T + "::is_terminated": all_terminated}
        base = assume_scenario(prog, table)

        def a(body_, b, t, e):
            r = base(body_, b, t, e)
            if r is not None:
                return r
            pol = True
            while e[0] == "unop" and e[1] == "Not":
                e = e[2]
                pol = not pol
            if e[0] == "call" and e[1] in ("std::iter::Iterator::all", "std::iter::Iterator::any"):
                ck = _closure_arg(e)
                if ck and ck in prog.fns:
                    rv = possible_returns(prog, ck, table)
                    if rv == {True} or rv == {False}:
                        # all(p) with p constantly v on a non-empty collection = v; likewise any(p)
                        return switch_targets_for(t, (rv == {True}) == pol)
            return None

        def first_next(body_, b, t, e, first):
            if first:
                tgt = [tb for (val, tb) in t["targets"] if val == 1]
                return set(tgt) if tgt else None
            return None
        a.first_next = first_next
        return a
    for (b, msg) in ps:
        g_active = unreachable_if(body, b, scen(True, False))
        r_inactive = not unreachable_if(body, b, scen(False, False))
        g_term = unreachable_if(body, b, scen(False, True))
        r_term = r_inactive
        after = IN.get(b) is not TOP and "set_active" in (IN.get(b) or ())
        # inevitable: with no active thread and some thread not terminated, schedule() cannot return normally
        dead, _ = PEval(body, scen(False, False)).run()
        r_term = r_term and not any(body.term(x)["k"] == "return" for x in dead)
        if g_active and r_inactive and g_term and r_term and after:
            ctx.ok("D1", k, "deadlock panic iff no thread is active and not all threads terminated, after set_active(next)",
                   [site_str(prog, k, b)])
        else:
            ctx.bad("D1", k, "deadlock panic condition changed: guarded by is_active()=%s, reachable when inactive=%s, suppressed when all "
                    "terminated=%s, inevitable otherwise=%s, after set_active=%s" % (g_active, r_inactive, g_term, r_term, after),
                    site_str(prog, k, b), detail="condition")
    # the termination test uses Thread::is_terminated (in the function or one of its closures)
    ok = any(enclosing_fn(s_["fn"]) == k for s_ in call_sites(prog, T + "::is_terminated"))
    if ok:
        ctx.ok("D1", k + ":terminal", "termination test uses Thread::is_terminated", [fn.loc()])
    else:
        ctx.bad("D1", k, "the all-threads-terminated test does not use Thread::is_terminated", fn.loc(), detail="terminal")
    # after an inactive result schedule returns without touching the (absent) active thread
    acc = {"rt::thread::Set::active", "rt::thread::Set::active_mut", "rt::thread::Set::active_id"}


# ---- D2: the blocking condition as a function of the object's own state -------------------------------------------
# (operation, branching call, index of the blocking-condition argument, state ADT, field, {scenario: must block?})
LOCK_SCEN = ["None", "Some:Read", "Some:Write"]
D2_ROWS = [
    ("rt::mutex::Mutex::acquire_lock", "rt::object::Ref::<T>::branch_acquire", 1, "rt::mutex::State", "lock",
     {"None": False, "Some": True}),
    ("rt::rwlock::RwLock::acquire_read_lock", "rt::object::Ref::<T>::branch_disable", 2, "rt::rwlock::State", "lock",
     {"None": False, "Some:Read": False, "Some:Write": True}),
    ("rt::rwlock::RwLock::acquire_write_lock", "rt::object::Ref::<T>::branch_disable", 2, "rt::rwlock::State", "lock",
     {"None": False, "Some:Read": True, "Some:Write": True}),
    ("rt::mpsc::Channel::recv", "rt::object::Ref::<T>::branch_disable", 2, "rt::mpsc::State", "msg_cnt",
     {"zero": True, "nonzero": False}),
]


_BINDS = {}     # local fn key -> argument expressions of the call being evaluated (constants passed to a merged predicate)


def _resolve_const(prog, fn_key, e):
    d = strip(deep(prog, fn_key, e))
    for _ in range(3):
        if d[0] == "param":
            # which function declares this parameter: fn_key itself or (for a captured variable) an enclosing function
            k = fn_key
            while k in prog.fns and prog.fns[k].kind == "Closure":
                k = prog.fns[k].j.get("parent_fn")
            args = _BINDS.get(k)
            if args and 1 <= d[1] <= len(args):
                d = strip(args[d[1] - 1])
                continue
        break
    return d


def _through_take(e):
    """`x.take()` / `mem::take(&mut x)` / `mem::replace(&mut x, ..)` hold the value x had: for a test of that value they are x."""
    e = strip(e)
    while e[0] == "call" and e[1] in ("std::option::Option::<T>::take", "std::mem::take", "std::mem::replace") and e[2]:
        e = strip(e[2][0])
    return e


def _scenario_assume(prog, fn_key, adt, field, scen, depth):
    """PEval assumption for "adt.field is in state `scen`" that also follows calls of local bool predicates (incl. closures
    run through rt::execution) and resolves captured constants."""
    outer, _, inner = scen.partition(":")

    def pick(t, want_val):
        tgt = None
        for (val, tb) in t["targets"]:
            if val == want_val:
                tgt = tb
        return {tgt if tgt is not None else t["otherwise"]}

    def a(body, b, t, e):
        pol = True
        while e[0] == "unop" and e[1] == "Not":
            e = e[2]
            pol = not pol
        if e[0] == "discr":
            subj = _through_take(strip(e[1]))
            if is_field(subj, adt, field) and outer in ("None", "Some"):
                return pick(t, 1 if outer == "Some" else 0)
            if subj[0] == "field" and subj[2] == "0" and strip(subj[1])[0] == "as" and \
                    is_field(_through_take(strip(strip(subj[1])[1])), adt, field) and inner:
                names = dict((n, v) for (v, n) in (e[3] or []))
                if not names and e[2] in prog.adts:
                    names = dict((v["name"], v.get("discr", i)) for i, v in enumerate(prog.adts[e[2]]["variants"]))
                if inner in names:
                    return pick(t, names[inner])
            # a captured / inlined constant (e.g. `mode` of a merged predicate called with Action::Write)
            d = _resolve_const(prog, body.fn.key, subj)
            names = dict((n, v) for (v, n) in (e[3] or []))
            if not names and e[2] in prog.adts:
                names = dict((v["name"], v.get("discr", i)) for i, v in enumerate(prog.adts[e[2]]["variants"]))
            if d[0] == "agg" and d[2] in names:
                return pick(t, names[d[2]])
            if d[0] == "const" and d[1].get("variant") in names:
                return pick(t, names[d[1]["variant"]])
            return None
        if e[0] == "call":
            if e[2] and is_field(e[2][0], adt, field) and outer in ("None", "Some"):
                if e[1].endswith("Option::<T>::is_some"):
                    return switch_targets_for(t, (outer == "Some") == pol)
                if e[1].endswith("Option::<T>::is_none"):
                    return switch_targets_for(t, (outer == "None") == pol)
            r = _pred_values(prog, body.fn.key, e, adt, field, scen, depth + 1)
            if r == {True}:
                return switch_targets_for(t, pol)
            if r == {False}:
                return switch_targets_for(t, not pol)
            return None
        if e[0] == "binop" and e[1] in ("Eq", "Ne") and outer in ("zero", "nonzero") and is_field(e[2], adt, field) and \
                e[3][0] == "const" and e[3][1].get("int") == 0:
            truth = (outer == "zero") if e[1] == "Eq" else (outer == "nonzero")
            return switch_targets_for(t, truth == pol)
        return None
    return a


def _expr_values(prog, fn_key, e, adt, field, scen, depth):
    """Possible truth values of a bool expression of fn_key in the scenario ({True}, {False} or {None, ..})."""
    pol = True
    while e[0] == "unop" and e[1] == "Not":
        e = e[2]
        pol = not pol
    outer = scen.partition(":")[0]
    out = {None}
    if e[0] == "const" and "int" in e[1]:
        out = {bool(e[1]["int"])}
    elif e[0] == "call":
        if e[2] and is_field(e[2][0], adt, field) and e[1].endswith("Option::<T>::is_some") and outer in ("None", "Some"):
            out = {outer == "Some"}
        elif e[2] and is_field(e[2][0], adt, field) and e[1].endswith("Option::<T>::is_none") and outer in ("None", "Some"):
            out = {outer == "None"}
        else:
            out = _pred_values(prog, fn_key, e, adt, field, scen, depth + 1)
    elif e[0] == "binop" and e[1] in ("Eq", "Ne") and outer in ("zero", "nonzero") and is_field(e[2], adt, field) and \
            e[3][0] == "const" and e[3][1].get("int") == 0:
        out = {(outer == "zero") if e[1] == "Eq" else (outer == "nonzero")}
    return {(x if pol else (not x)) if x is not None else None for x in out}


def _local_values(prog, fn_key, body, l, adt, field, scen, depth, reached):
    """Possible values of bool local l over its definitions in reached blocks."""
    out = set()
    for d in body.defs().get(l, []):
        if d[1] not in reached or body.blocks[d[1]]["cleanup"]:
            continue
        if d[0] == "stmt" and d[3]["k"] == "=":
            rv = d[3]["rv"]
            if rv["k"] == "use" and operand_local(rv["op"]) is not None and not operand_place(rv["op"])["p"] and \
                    len(body.defs().get(operand_local(rv["op"]), [])) > 1:
                out |= _local_values(prog, fn_key, body, operand_local(rv["op"]), adt, field, scen, depth, reached)
            else:
                out |= _expr_values(prog, fn_key, body.expr_of_rvalue(rv), adt, field, scen, depth)
        elif d[0] == "call":
            t = d[2]
            out |= _expr_values(prog, fn_key, ("call", callee_path(t), [body.expr_of_operand(a) for a in t["args"]], d[1]), adt, field, scen, depth)
        else:
            out.add(None)
    return out or {None}


def _pred_values(prog, fn_key, call_e, adt, field, scen, depth):
    """Possible return values of a call of a local bool predicate (a fn, or a closure run through rt::execution)."""
    if depth > 4:
        return {None}
    key = call_e[1]
    if key in TRANSPARENT:
        key = _closure_arg(call_e)
    elif key in prog.fns:
        _BINDS[key] = [deep(prog, fn_key, a) if isinstance(a, tuple) else a for a in call_e[2]]
    if not key or key not in prog.fns or prog.fns[key].body.locals[0]["ty"] != "bool":
        return {None}
    body = prog.fns[key].body
    reached, _ = PEval(body, _scenario_assume(prog, key, adt, field, scen, depth)).run()
    return _local_values(prog, key, body, 0, adt, field, scen, depth, reached)


def blocking_condition_values(prog, fk, site_bb, ai, adt, field, scen):
    """Possible values of the blocking-condition argument at the branching call (fk, site_bb) when adt.field is in `scen`."""
    body = prog.fns[fk].body
    reached, _ = PEval(body, _scenario_assume(prog, fk, adt, field, scen, 0)).run()
    if site_bb not in reached:
        return set()
    op = body.term(site_bb)["args"][ai]
    l = operand_local(op)
    if l is not None and not operand_place(op)["p"] and len(body.defs().get(l, [])) > 1:
        return _local_values(prog, fk, body, l, adt, field, scen, 0, reached)
    return _expr_values(prog, fk, body.expr_of_operand(op), adt, field, scen, 0)


def D2(ctx):
    """The blocking condition handed to the branch is a function of the object's own state: for every state of the lock
    (resp. queue) the condition evaluates to the value the primitive's semantics requires - whether it is computed by named
    predicates, a merged predicate with a mode argument, or in place."""
    prog = ctx.prog
    n = 0
    for (fk, br, ai, adt, field, want) in D2_ROWS:
        fn = need_fn(ctx, "D2", fk)
        if fn is None:
            continue
        inst = prog.ident(fk)
        sites = [(b, t) for (b, t, c) in prog.sites(inst) if prog.callee_key(c) == br]
        if not sites:
            ctx.bad("D2", fk, "%s no longer blocks through %s" % (fk, br), fn.loc(), detail="no-branch")
            continue
        for (b, t) in sites:
            n += 1
            got = {}
            for scen, must in want.items():
                got[scen] = blocking_condition_values(prog, fk, b, ai, adt, field, scen)
            wrong = {sc: sorted(map(str, v)) for sc, v in got.items() if v != {want[sc]}}
            if not wrong:
                ctx.ok("D2", fk, "blocks iff %s.%s in {%s}" % (adt.split("::")[-2], field, ", ".join(s_ for s_, m_ in want.items() if m_)),
                       [site_str(prog, fk, b)])
            else:
                ctx.bad("D2", fk, "blocking condition of %s is not the required function of %s.%s: expected %s, but it evaluates to %s" %
                        (fk, adt, field, {k_: v_ for k_, v_ in want.items() if k_ in wrong}, wrong), site_str(prog, fk, b), detail="condition")
    # notify: blocks iff !notified
    fk = "rt::notify::Notify::wait"
    fn = need_fn(ctx, "D2", fk)
    if fn is not None:
        inst = prog.ident(fk)
        for (b, t, c) in prog.sites(inst):
            if prog.callee_key(c) == "rt::object::Ref::<T>::branch_acquire":
                n += 1
                atoms = guard_atoms(fn.body, b)
                cond = [(canon(e), pol) for (e, pol, v, sb) in atoms]
                arg = fn.body.expr_of_operand(t["args"][1])
                is_true = arg[0] == "const" and arg[1].get("int") == 1
                notif = [1 for (e, pol, v, sb) in atoms if pol is False and e[0] == "field" and e[2] == "0" and
                         mentions_call(e, "rt::execution")]
                if is_true and notif:
                    ctx.ok("D2", fk, "blocks iff the notification flag read under the execution is false", [site_str(prog, fk, b)])
                else:
                    ctx.bad("D2", fk, "Notify::wait blocks under %s with condition %s; expected: unconditionally when `notified` is false" %
                            (cond, canon(arg)), site_str(prog, fk, b), detail="condition")
    ctx.floor("D2", n, 5, "4 blocking calls + notify")


def S5b(ctx):
    """Whenever an acquisition succeeds, the loop that blocks the threads pending on the lock has run: the success return of
    post_acquire* is dominated by that loop (not skipped under a flag computed before the branch point)."""
    prog = ctx.prog
    n = 0
    for fk in ("rt::mutex::Mutex::post_acquire", "rt::rwlock::RwLock::post_acquire_read_lock", "rt::rwlock::RwLock::post_acquire_write_lock"):
        sites = [s_ for s_ in _transition_sites(prog, "set_blocked") if enclosing_fn(s_["fn"]) == fk and
                 not receiver_is_active(prog.fns[s_["fn"]].body, s_["term"])]
        if not sites:
            continue
        for k in sorted({s_["fn"] for s_ in sites}):
            body = prog.fns[k].body
            inst = prog.ident(k)
            n += 1
            dom = body.dominators()
            nexts = [b for (b, t, c) in prog.sites(inst) if callee_path(t) == "std::iter::Iterator::next"]
            heads = [nb for nb in nexts if any(nb in dom[s_["bb"]] for s_ in sites if s_["fn"] == k)]
            rets = blocks_assigning_ret(body, lambda e: is_const_bool(e, True))
            if not heads or not rets:
                ctx.missing("S5b", fk, "block loop or success return not found")
                continue
            skipped = [r for r in rets if not any(h in dom[r] for h in heads)]
            if skipped:
                ctx.bad("S5b", fk, "a successful acquisition can return without running the loop that blocks the other pending threads: "
                        "a pending thread stays runnable although the lock is now held incompatibly", site_str(prog, k, skipped[0]), detail="skipped")
            else:
                ctx.ok("S5b", fk, "every success return follows the block loop", [site_str(prog, k, heads[0])])
    ctx.floor("S5b", n, 3, "mutex, rwlock read, rwlock write")


def S9(ctx):
    """Wake / block loops visit every thread: after waking (or blocking) one thread the loop continues with the next
    (no `break`, no `find`-first): otherwise waiters are woken in a fixed order / some are never examined."""
    prog = ctx.prog
    n = 0
    for setter in ("set_runnable", "set_blocked"):
        for s in _transition_sites(prog, setter):
            body = prog.fns[s["fn"]].body
            if receiver_is_active(body, s["term"]):
                continue
            fk = enclosing_fn(s["fn"])
            if fk in (T + "::set_unparked", T + "::unpark"):
                continue            # single, addressed thread
            n += 1
            ok, why = loop_continues_after(prog, s["inst"], s["bb"])
            if ok:
                ctx.ok("S9", "%s:%s" % (fk, setter), "loop continues over all threads", [site_str(prog, s["fn"], s["bb"])])
            else:
                ctx.bad("S9", fk, "%s is applied to the first matching thread only (%s): the remaining threads pending on this object are not "
                        "%s; schedules in which another waiter proceeds first are lost or threads stay blocked" %
                        (setter, why, "woken" if setter == "set_runnable" else "blocked"), site_str(prog, s["fn"], s["bb"]), detail=setter)
    ctx.floor("S9", n, 8, "wake loops (mutex, rwlock, mpsc, notify, schedule) + block loops (mutex, rwlock x2, mpsc)")


# ---------------------------------------------------------------------------------------------------------------------------
# S10 - a non-blocking acquisition is never disabled

OPERATION = "rt::object::Operation"


def _registrations(prog, fk, env, depth=0, seen=frozenset()):
    """All `Operation` records a call of fk may store as the calling thread's pending operation: list of {field: value}, value =
    canonical constant | None (not a constant).  Arguments are propagated through the forwarding layers (`branch_*`,
    `set_action`, closures handed to rt::branch), so the answer does not depend on how those layers are cut."""
    if depth > 6 or fk in seen or fk not in prog.fns:
        return []
    out = []
    seen = seen | {fk}
    for bk in [fk] + list(prog.closures_of(fk)):
        f = prog.fns[bk]
        if f.j.get("stub"):
            continue
        body = f.body

        def val(e):
            e = strip(deep(prog, bk, e))
            if e[0] == "const":
                return canon(e)
            if e[0] == "agg" and e[2] and isinstance(e[1], str) and "{closure" not in e[1]:
                inner = [val(x) for x in e[3]]
                return "%s(%s)" % (str(e[2]).split("::")[-1], ",".join(str(x) for x in inner)) if inner else str(e[2]).split("::")[-1]
            if e[0] == "param" and bk == fk:
                return env.get(e[1])
            if e[0] == "call" and len(e[2]) == 1 and e[1].split("::")[-1] in ("into", "from"):
                return val(e[2][0])
            if e[0] == "cast":
                return val(e[2])
            return None
        for b, blk in enumerate(body.blocks):
            if blk["cleanup"]:
                continue
            for st in blk["stmts"]:
                if st["k"] == "=" and st["rv"]["k"] == "agg" and st["rv"].get("adt") == OPERATION:
                    names = st["rv"].get("field_names") or []
                    rec = {}
                    for i, o in enumerate(st["rv"]["ops"]):
                        rec[names[i] if i < len(names) else str(i)] = val(body.expr_of_operand(o))
                    out.append(rec)
            t = blk["term"]
            if t["k"] != "call" or is_noise(t):
                continue
            inst = prog.ident(bk)
            c = prog.insts[inst].calls.get(b) if inst is not None else None
            k = prog.callee_key(c) if c else None
            if k is None or k not in prog.fns or prog.fns[k].kind == "Closure":
                continue
            env2 = {i + 1: val(body.expr_of_operand(a)) for i, a in enumerate(t["args"])}
            out += _registrations(prog, k, env2, depth + 1, seen)
    return out


def S10(ctx):
    """A non-blocking acquisition (`try_lock`, `try_read`, `try_write`) is never disabled: wherever an acquire marks the other
    threads pending on the lock as Blocked, the condition reads a component of the pending `Operation` that tells a waiting
    acquisition from a non-blocking one.  (A thread parked at the branch point of a try operation does not wait for the lock; if
    it is blocked, `let g = m.lock(); t.join()` with `t: m.try_lock()` is reported as a deadlock that cannot happen.)"""
    prog = ctx.prog
    from .guardvocab import _tokens
    kinds = {
        "mutex": (["rt::mutex::Mutex::try_acquire_lock"], ["rt::mutex::Mutex::acquire_lock"], ["rt::mutex::Mutex::post_acquire"]),
        "rwlock": (["rt::rwlock::RwLock::try_acquire_read_lock", "rt::rwlock::RwLock::try_acquire_write_lock"],
                   ["rt::rwlock::RwLock::acquire_read_lock", "rt::rwlock::RwLock::acquire_write_lock"],
                   ["rt::rwlock::RwLock::post_acquire_read_lock", "rt::rwlock::RwLock::post_acquire_write_lock"]),
    }
    n = 0
    for kind, (tries, blocks, posts) in kinds.items():
        regs_t, regs_b = [], []
        for fk in tries + blocks:
            if prog.fn(fk) is None:
                ctx.missing("S10", fk)
        for fk in tries:
            regs_t += _registrations(prog, fk, {})
        for fk in blocks:
            regs_b += _registrations(prog, fk, {})
        if not regs_t or not regs_b:
            ctx.missing("S10", kind, "the pending-operation records of the try / blocking entry points were not found")
            continue
        fields = set().union(*[set(r) for r in regs_t + regs_b])
        dist = sorted(f for f in fields if all(r.get(f) is not None for r in regs_t + regs_b) and
                      not ({r[f] for r in regs_t} & {r[f] for r in regs_b}))
        for post in posts:
            sites = [s_ for s_ in _transition_sites(prog, "set_blocked") if enclosing_fn(s_["fn"]) == post and
                     not receiver_is_active(prog.fns[s_["fn"]].body, s_["term"])]
            for s_ in sites:
                n += 1
                body = prog.fns[s_["fn"]].body
                toks = set()
                for (ge, pol, v, sb) in guard_atoms(body, s_["bb"]):
                    toks |= _tokens(prog, s_["fn"], ge)
                for sb2 in body.control_deps(s_["bb"]):
                    toks |= _tokens(prog, s_["fn"], body.expr_of_operand(body.term(sb2)["op"]))
                used = [f for f in dist if "%s.%s" % (OPERATION, f) in toks]
                if used:
                    ctx.ok("S10", post, "threads are blocked depending on `Operation.%s`, which is %s for the try forms and %s for the waiting forms" %
                           (used[0], sorted({r[used[0]] for r in regs_t}), sorted({r[used[0]] for r in regs_b})), [site_str(prog, s_["fn"], s_["bb"])])
                else:
                    ctx.bad("S10", post, "%s marks every thread pending on the lock as Blocked, including one pending at a non-blocking try "
                            "operation: the pending operation of the try forms %s is not distinguishable from that of the waiting forms in any "
                            "component the condition reads (%s). A try operation never waits; blocked, it makes `let g = lock(); t.join()` with "
                            "`t: try_lock()` a false deadlock" %
                            (post.split("::")[-1], [t_.split("::")[-1] for t_ in tries],
                             "distinguishing components: %s" % (dist or "none")), site_str(prog, s_["fn"], s_["bb"]))
    ctx.floor("S10", n, 3, "block loops of mutex post_acquire, rwlock post_acquire_read_lock / post_acquire_write_lock")


def run_all(ctx, which):
    table = dict(S1=S1, S2=S2, S3=S3, S4=S4, S5=S5, S5b=S5b, S6=S6, S7=S7, S8=S8, S9=S9, S10=S10, D1=D1, D2=D2)
    for w in which:
        table[w](ctx)
