"""C17 (thread_local!/lazy_static!) rules H1-H3 and C18 (yield) rules U1-U4."""
from .common import *
from .common import _closure_arg


def strip_param(body, e):
    """Expression is rooted at a parameter of the (closure) body."""
    for x in subexprs(e):
        if x[0] == "param":
            return True
    return False


def H1(ctx):
    """Thread exit: take locals inside the execution, destroy them outside any execution borrow, then terminated -> schedule; destroyed slot yields AccessError."""
    prog = ctx.prog
    fk = "rt::thread_done"
    root = prog.ident(fk)
    if root is None:
        ctx.missing("H1", fk)
        return
    body = prog.body_of(root)
    # locals destroyed outside any rt::execution closure: the mem::drop of the returned box is a direct call of thread_done
    direct = []
    for (b, t, c) in prog.sites(root):
        if prog.callee_key(c) == "std::mem::drop" and "std::any::Any" in c.get("gargs", ""):
            direct.append(b)
    ev = {"take_locals": T + "::drop_locals", "destroy": "std::mem::drop", "terminate": T + "::set_terminated", "schedule": EXEC + "::schedule"}

    def m(prog_, i, b, t, c):
        k = prog_.callee_key(c)
        if k == "std::mem::drop":
            return ["destroy"] if "std::any::Any" in c.get("gargs", "") else []
        return [e for e, kk in ev.items() if kk == k and e != "destroy"]
    ea = EventAnalysis(prog, m).solve([root])
    must = ea.must_of(root)
    steps = ["take_locals", "destroy", "terminate", "schedule"]
    miss = [s for s in steps if must is not TOP and s not in must]
    bad = [(a, b) for a, b in zip(steps, steps[1:]) if ea.must_before(root, a, b)]
    ctx.touch(fk, len(ea.sub))
    if not miss and not bad and direct:
        ctx.ok("H1", fk, "take locals (inside the execution) -> destroy them outside any execution borrow -> terminated -> schedule",
               [site_str(prog, fk, direct[0])])
    else:
        ctx.bad("H1", fk, "thread exit teardown broken: missing %s, misordered %s, locals destroyed outside the borrow=%s (a destructor that uses "
                "loom would re-enter the execution RefCell)" % (miss, bad, bool(direct)), prog.fns[fk].loc())
    # drop_locals takes every value, so that later access reports AccessError
    dk = T + "::drop_locals"
    fn = need_fn(ctx, "H1", dk)
    if fn is not None:
        inst = prog.ident(dk)
        takes = [(b, t) for (b, t, c) in prog.sites(inst) if prog.callee_key(c) == "std::option::Option::<T>::take"]
        ok = False
        for (b, t) in takes:
            in_loop = any(b in fn.body.reachable(s) for s in fn.body.succs(b))
            from_map = "self.locals" in canon(arg_expr(fn.body, t, 0))
            ok = ok or (in_loop and from_map)
        where = takes[0][0] if takes else 0
        if not ok:
            # equivalent iterator form: self.locals.values_mut().map(|l| l.0.take()).collect() / .for_each(..)
            for (b, t, c) in prog.sites(inst):
                if callee_path(t) in ("std::iter::Iterator::map", "std::iter::Iterator::for_each") and \
                        "self.locals" in canon(arg_expr(fn.body, t, 0)):
                    ck2 = _closure_arg(arg_expr_call(fn.body, t))
                    cf = prog.fns.get(ck2) if ck2 else None
                    if cf is None:
                        continue
                    tk = [b2 for (b2, t2, c2) in prog.sites(prog.ident(ck2)) if prog.callee_key(c2) == "std::option::Option::<T>::take"
                          and strip_param(cf.body, arg_expr(cf.body, t2, 0))]
                    consumed = callee_path(t).endswith("for_each") or any(
                        callee_path(t3).split("::")[-1] in ("collect", "for_each", "count", "last", "fold", "extend")
                        for (b3, t3, c3) in prog.sites(inst) if b3 in fn.body.reachable(b))
                    if tk and every_path_passes(cf.body, tk) and consumed:
                        ok = True
                        where = b
        if ok:
            ctx.ok("H1", dk, "every local value is taken (slot left as destroyed)", [site_str(prog, dk, where)])
        else:
            ctx.bad("H1", dk, "drop_locals must take() every thread-local value of the exiting thread", fn.loc(), detail="take")
    # a destroyed slot yields AccessError
    gk = "rt::thread::LocalValue::get"
    gfn = need_fn(ctx, "H1", gk)
    if gfn is not None:
        inst = prog.ident(gk)
        keys = [prog.callee_key(c) for (b, t, c) in prog.sites(inst)]
        if any(k.endswith("Option::<T>::ok_or") for k in keys):
            ctx.ok("H1", gk, "taken slot -> Err(AccessError)", [gfn.loc()])
        else:
            ctx.bad("H1", gk, "access to a destroyed thread-local must yield AccessError", gfn.loc(), detail="access-error")


def H2(ctx):
    """LocalKey::try_with: init() outside the borrow only if absent; registered once in the active thread's own map."""
    prog = ctx.prog
    fk = "thread::LocalKey::<T>::try_with"
    fn = need_fn(ctx, "H2", fk)
    if fn is None:
        return
    body = fn.body
    inst = prog.ident(fk)
    inits = []
    for (b, t, c) in prog.sites(inst):
        if c.get("k") == "fnptr" and is_field(body.expr_of_operand(t["func"]), "thread::LocalKey", "init"):
            inits.append(b)
    ok_init = len(inits) == 1
    if ok_init:
        atoms = guard_atoms(body, inits[0])
        ok_init = any(e[0] == "discr" and mentions_call(e, "thread::LocalKey::<T>::get") and
                      guard_variants(prog, e, v) == {"None"} for (e, pol, v, sb) in atoms)
    # init is a direct call of try_with (outside rt::execution closures), and local_init follows it inside the execution
    li = [b for (b, t, c) in prog.sites(inst) if prog.callee_key(c) == "rt::execution"]
    ck = fk + "::{closure#0}"
    cfn = prog.fn(ck)
    has_local_init = cfn is not None and any(prog.callee_key(c) == "rt::thread::Set::local_init" for (b, t, c) in prog.sites(prog.ident(ck)))
    order_ok = ok_init and li and all(l in body.reachable(inits[0]) for l in li)
    if ok_init and has_local_init and order_ok:
        ctx.ok("H2", fk, "init() runs outside the execution borrow, only when the key has no value for this thread; then local_init", [site_str(prog, fk, inits[0])])
    else:
        ctx.bad("H2", fk, "thread-local initialisation discipline broken (lazy-once init=%s, registered via local_init=%s)" % (ok_init, has_local_init), fn.loc())
    # user closure gets the value of the second lookup / first lookup
    lk = "rt::thread::Set::local_init"
    lfn = need_fn(ctx, "H2", lk)
    if lfn is not None:
        inst2 = prog.ident(lk)
        ins = [(b, t) for (b, t, c) in prog.sites(inst2) if is_std_collection_call(prog.callee_key(c), "insert")]
        ps = panic_sites(prog, lk)
        per_thread = ins and mentions_call(arg_expr(lfn.body, ins[0][1], 0), "rt::thread::Set::active_mut") is not None and \
            mentions_field(arg_expr(lfn.body, ins[0][1], 0), T, "locals") is not None
        if per_thread and ps:
            ctx.ok("H2", lk, "inserted into the active thread's own map; asserts the slot was empty (once per thread)", [site_str(prog, lk, ins[0][0])])
        else:
            ctx.bad("H2", lk, "thread-local values must live in the active thread's own map and be initialised at most once", lfn.loc())
    gk = "rt::thread::Set::local"
    gfn = need_fn(ctx, "H2", gk)
    if gfn is not None:
        inst3 = prog.ident(gk)
        gets = [(b, t) for (b, t, c) in prog.sites(inst3) if is_std_collection_call(prog.callee_key(c), "get")]
        if gets and mentions_call(arg_expr(gfn.body, gets[0][1], 0), "rt::thread::Set::active_mut") is not None:
            ctx.ok("H2", gk, "looked up in the active thread's own map (private to the thread)", [site_str(prog, gk, gets[0][0])])
        else:
            ctx.bad("H2", gk, "thread-local lookup must use the active thread's own map", gfn.loc())


def H3(ctx):
    """Lazy::get: init outside the borrow only if absent, re-check before registering; init_static refuses an occupied slot; one execution-wide map."""
    prog = ctx.prog
    fk = "lazy_static::Lazy::<T>::get"
    fn = need_fn(ctx, "H3", fk)
    if fn is None:
        return
    body = fn.body
    inst = prog.ident(fk)
    inits = [b for (b, t, c) in prog.sites(inst) if c.get("k") == "fnptr" and is_field(body.expr_of_operand(t["func"]), "lazy_static::Lazy", "init")]
    tries = [b for (b, t, c) in prog.sites(inst) if prog.callee_key(c) == "lazy_static::Lazy::<T>::try_get"]
    execs = [b for (b, t, c) in prog.sites(inst) if prog.callee_key(c) == "rt::execution"]
    ok = len(inits) == 1 and len(tries) >= 3 and len(execs) == 1
    if ok:
        ib = inits[0]
        atoms = guard_atoms(body, ib)
        first_none = any(e[0] == "discr" and mentions_call(e, "lazy_static::Lazy::<T>::try_get") and guard_variants(prog, e, v) == {"None"}
                         for (e, pol, v, sb) in atoms)
        # a second try_get lies between init and the registration
        mid = [t_ for t_ in tries if t_ in body.reachable(ib) and execs[0] in body.reachable(t_)]
        eatoms = guard_atoms(body, execs[0])
        second_none = any(e[0] == "discr" and mentions_call(e, "lazy_static::Lazy::<T>::try_get") and
                          guard_variants(prog, e, v) == {"None"} and sb in body.reachable(ib)
                          for (e, pol, v, sb) in eatoms)
        ok = first_none and mid and second_none
    if ok:
        ctx.ok("H3", fk, "init() outside the execution borrow only if absent; re-check before init_static (nested/racing initialisers)", [site_str(prog, fk, inits[0])])
    else:
        ctx.bad("H3", fk, "lazy_static initialisation discipline broken (init outside borrow once, second lookup before registering)", fn.loc())
    ik = "rt::lazy_static::Set::init_static"
    ifn = need_fn(ctx, "H3", ik)
    if ifn is not None:
        ps = panic_sites(prog, ik, "already init")
        iinst = prog.ident(ik)
        # the value is stored through the looked-up entry: `entry.or_insert(v)` or `VacantEntry::insert(v)` in the Vacant arm
        ins = [b for (b, t, c) in prog.sites(iinst) if prog.callee_key(c).endswith("::or_insert") or
               (prog.callee_key(c).endswith("VacantEntry::<K, V, A>::insert") or prog.callee_key(c).endswith("VacantEntry::<'a, K, V, A>::insert")
                or ("VacantEntry" in prog.callee_key(c) and prog.callee_key(c).endswith("::insert")))]
        # the refusal depends on the looked-up entry (if-let, match or matches! form)
        occ = False
        for b in range(ifn.body.n):
            t = ifn.body.term(b)
            if t["k"] == "switch":
                e = ifn.body.expr_of_operand(t["op"])
                if e[0] == "discr" and "entry(" in canon(e):
                    occ = True
        occ = occ and all(b in ifn.body.reachable() for (b, m_) in ps) and all(b in ifn.body.reachable() for b in ins)
        if ps and ins and occ:
            ctx.ok("H3", ik, "an occupied slot is an internal error: at most one value per execution", [site_str(prog, ik, ps[0][0])])
        else:
            ctx.bad("H3", ik, "init_static must refuse to replace an initialised static (once per execution)", ifn.loc())
    # statics live in the execution (shared by all threads), not in a thread
    gk = "rt::lazy_static::Set::get_static"
    gfn = need_fn(ctx, "H3", gk)
    if gfn is not None:
        ginst = prog.ident(gk)
        gm = [(b, t) for (b, t, c) in prog.sites(ginst) if is_std_collection_call(prog.callee_key(c), "get_mut")]
        if gm and "self.statics" in canon(arg_expr(gfn.body, gm[0][1], 0)):
            ctx.ok("H3", gk, "one map per execution: all threads see the same instance", [site_str(prog, gk, gm[0][0])])
        else:
            ctx.bad("H3", gk, "lazy statics must be looked up in the execution-wide map", gfn.loc())


# ---------------------------------------------------------------------------------------- C18

def U1(ctx):
    """spin_loop / spin_loop_hint reach rt::yield_now on every path."""
    prog = ctx.prog
    roots = ["hint::spin_loop", "sync::atomic::spin_loop_hint", "rt::yield_now"]
    ids = [prog.ident(k) for k in roots]
    if any(i is None for i in ids):
        for k, i in zip(roots, ids):
            if i is None:
                ctx.missing("U1", k)
        return
    ea = EventAnalysis(prog, path_matcher({"yield_now": "rt::yield_now", "schedule": EXEC + "::schedule"})).solve(ids)
    for k, i in zip(roots[:2], ids[:2]):
        if ea.holds_on_all_paths(i, "yield_now") and "yield_now" in ea.may.get(i, ()):
            ctx.ok("U1", k, "reaches rt::yield_now on every path", [prog.fns[k].loc()])
        else:
            ctx.bad("U1", k, "%s must yield to the scheduler (rt::yield_now) on every path, otherwise spin loops never let the awaited thread run" % k,
                    prog.fns[k].loc())
    # thread::yield_now is the re-export of rt::yield_now: nothing to check beyond rt


def U2(ctx):
    """yield_now: set_yield (state, last_yield, yield_count) -> operation = None -> schedule."""
    prog = ctx.prog
    ck = "rt::yield_now::{closure#0}"
    root = prog.ident(ck)
    if root is None:
        ctx.missing("U2", ck)
        return
    ev = {"set_yield": T + "::set_yield", "schedule": EXEC + "::schedule"}
    ea = EventAnalysis(prog, path_matcher(ev), stop=lambda i: prog.insts[i].key != ck).solve([root])
    must = ea.must_of(root)
    body = prog.body_of(root)
    ops = [w for w in prog.writers().get((T, "operation"), []) if w["fn"] == ck and w["kind"] == "assign"]
    op_none = [w for w in ops if canon(rv_expr(prog, w)).endswith("None{}")]
    sched = ea.sites_may(root, "schedule")
    dom = body.dominators()
    ok = must is not TOP and {"set_yield", "schedule"} <= set(must) and not ea.must_before(root, "set_yield", "schedule") and \
        op_none and all(op_none[0]["bb"] in dom[s] for s in sched)
    if ok:
        ctx.ok("U2", "rt::yield_now", "set_yield -> operation = None -> schedule", [site_str(prog, ck, sched[0])])
    else:
        ctx.bad("U2", "rt::yield_now", "yield_now must mark the thread Yield, clear its pending operation and schedule", prog.fns[ck].loc())
    sk = T + "::set_yield"
    fn = need_fn(ctx, "U2", sk)
    if fn is not None:
        st = field_writes(prog, sk, T, "state")
        ly = field_writes(prog, sk, T, "last_yield")
        yc = field_writes(prog, sk, T, "yield_count")
        ok_st = st and "Yield" in canon(rv_expr(prog, st[0]))
        ok_ly = ly and "Some" in canon(rv_expr(prog, ly[0])) and "causality" in canon(rv_expr(prog, ly[0])) and "self.id" in canon(rv_expr(prog, ly[0]))
        ok_yc = yc and "yield_count Add" in canon(rv_expr(prog, yc[0])) and " 1)" in canon(rv_expr(prog, yc[0]))
        if ok_st and ok_ly and ok_yc:
            ctx.ok("U2", sk, "state = Yield; last_yield = Some(causality[self]); yield_count += 1", [fn.loc()])
        else:
            ctx.bad("U2", sk, "set_yield must record state=Yield (%s), last_yield = own clock component (%s), yield_count+1 (%s)" %
                    (bool(ok_st), bool(ok_ly), bool(ok_yc)), fn.loc())


def U3(ctx):
    """Scheduler re-activates yielded threads except the chosen one, seeds them as Thread::Yield; branch_thread promotes one when nothing else can run."""
    prog = ctx.prog
    fk = EXEC + "::schedule"
    fn = need_fn(ctx, "U3", fk)
    if fn is None:
        return
    body = fn.body
    inst = prog.ident(fk)
    # re-activation: set_runnable guarded by is_yield() && Some(id) != next
    sr = [(s_["bb"], s_["term"], prog.fns[s_["fn"]].body) for s_ in call_sites(prog, T + "::set_runnable") if enclosing_fn(s_["fn"]) == fk]
    ok = False
    for (b, t, sbody) in sr:
        atoms = guard_atoms(sbody, b)
        y = any(mentions_call(e, T + "::is_yield") and pol is True for (e, pol, v, sb) in atoms)
        ne = any(e[0] == "call" and e[1].endswith("PartialEq::ne") and "branch_thread" in canon(e) and pol is True for (e, pol, v, sb) in atoms)
        ok = ok or (y and ne)
    if ok:
        ctx.ok("U3", fk + ":reactivate", "yielded threads become runnable again unless they were just chosen", [site_str(prog, fk, sr[0][0])])
    else:
        ctx.bad("U3", fk, "after a scheduling decision every yielded thread except the chosen one must be made runnable again", fn.loc(), detail="reactivate")
    # the seed closure reports yielded threads as Thread::Yield
    seeded = False
    for k in prog.closures_of(fk):
        cb = prog.fns[k].body
        for b, blk in enumerate(cb.blocks):
            for s in blk["stmts"]:
                if s["k"] == "=" and s["rv"]["k"] == "agg" and s["rv"].get("adt") == "rt::path::Thread" and s["rv"].get("variant") == "Yield":
                    if any(mentions_call(ge, T + "::is_yield") and pol is True for (ge, pol, v, sb) in guard_atoms(cb, b)):
                        seeded = True
    if seeded:
        ctx.ok("U3", fk + ":seed", "yielded threads are seeded as Thread::Yield (deprioritised)", [fn.loc()])
    else:
        ctx.bad("U3", fk, "yielded threads must be offered to the path as Thread::Yield", fn.loc(), detail="seed")
    # branch_thread promotes a Yield thread when nothing is Active
    bk = "rt::path::Path::branch_thread"
    bfn = need_fn(ctx, "U3", bk)
    if bfn is not None:
        bb_ = bfn.body
        promo = False
        for b, blk in enumerate(bb_.blocks):
            for s in blk["stmts"]:
                if s["k"] == "=" and s["lhs"]["p"] and s["rv"]["k"] in ("agg", "use"):
                    e = bb_.expr_of_rvalue(s["rv"])
                    if "Active" in canon(e):
                        atoms = guard_atoms(bb_, b)
                        y = any("Yield" in canon(ge) and pol is True for (ge, pol, v, sb) in atoms)
                        none = any(ge[0] == "call" and ge[1].endswith("Option::<T>::is_none") and pol is True for (ge, pol, v, sb) in atoms)
                        if y and none:
                            promo = True
        if promo:
            ctx.ok("U3", bk + ":promote", "if no thread is Active, the first yielded thread runs", [bfn.loc()])
        else:
            ctx.bad("U3", bk, "when every runnable thread has yielded one of them must still be scheduled", bfn.loc(), detail="promote")


def U4(ctx):
    """Loads consult is_seen_before_yield only to drop a store for which a modification-order-later store exists."""
    prog = ctx.prog
    fk = "rt::atomic::State::match_load_to_stores"
    fn = need_fn(ctx, "U4", fk)
    if fn is None:
        return
    inst = prog.ident(fk)
    ys = [(b, t) for (b, t, c) in prog.sites(inst) if prog.callee_key(c) == "rt::atomic::FirstSeen::is_seen_before_yield"]
    if ys:
        # it prunes store_i (the older one) only when a newer store exists: dominated by mo_i < mo_j
        atoms = guard_atoms(fn.body, ys[0][0])
        from .atomics import _is_mo_lt
        lt = any(_is_mo_lt(prog, e) and pol is True for (e, pol, v, sb) in atoms)
        arg = canon(arg_expr(fn.body, ys[0][1], 0))
        if lt and "first_seen" in arg:
            ctx.ok("U4", fk, "a store seen before the last yield is not offered again, but only if a newer store exists", [site_str(prog, fk, ys[0][0])])
        else:
            ctx.bad("U4", fk, "the yield pruning must only drop a store when a modification-order-later store exists", site_str(prog, fk, ys[0][0]), detail="guard")
    else:
        ctx.bad("U4", fk, "loads no longer consult is_seen_before_yield: a spinning thread is offered the same stale store forever", fn.loc())
    yk = "rt::atomic::FirstSeen::is_seen_before_yield"
    yfn = need_fn(ctx, "U4", yk)
    if yfn is not None:
        # every value the function can return (through matches, early returns or desugared combinators)
        srcs = deep_sources(yfn.body, yfn.body.expr_of_local(0))
        txts = sorted({canon(x)[:120] for x in srcs if x[0] in ("binop", "const")})
        le = any(x[0] == "binop" and x[1] in ("Le", "Ge") and mentions_field_deep(yfn.body, x, T, "last_yield") and
                 mentions_field_deep(yfn.body, x, "rt::atomic::FirstSeen", "0") for x in srcs)
        only_false = all(x[1].get("int") == 0 for x in srcs if x[0] == "const" and x[1].get("ty") == "bool")
        has_false = any(x[0] == "const" and x[1].get("ty") == "bool" and x[1].get("int") == 0 for x in srcs)
        if le and has_false and only_false:
            ctx.ok("U4", yk, "first_seen[self] <= last_yield; false without a yield or without having seen the store", [yfn.loc()])
        else:
            ctx.bad("U4", yk, "is_seen_before_yield must compare the thread's own first-seen version with its last yield (%s)" % txts, yfn.loc())


def U5(ctx):
    """The yield bookkeeping of a thread (last_yield, yield_count, Yield state) does not survive into the next execution:
    thread::Set::clear either replaces every Thread by Thread::new or re-initialises these fields of a recycled slot."""
    from . import modelrules
    prog = ctx.prog
    sk = "rt::thread::Set::clear"
    sfn = need_fn(ctx, "U5", sk)
    if sfn is None:
        return
    for f in ("last_yield", "yield_count", "state"):
        if ctor_field_value(prog, T, f, T + "::new") is None:
            ctx.missing("U5", "Thread." + f, "Thread::new does not initialise %s" % f)
    if modelrules.threads_rebuilt(prog):
        ctx.ok("U5", sk, "every execution starts from Thread::new (no yield bookkeeping carried over)", [sfn.loc()])
        return
    stale = [f for f in modelrules.recycled_thread_stale_fields(prog) if f in ("last_yield", "yield_count", "state")]
    if stale:
        for f in stale:
            ctx.bad("U5", "Thread." + f, "a recycled thread slot keeps `%s` from the previous execution: loads before the first yield of the "
                    "new execution are judged against a stale yield point" % f, sfn.loc(), detail="survives")
    else:
        ctx.ok("U5", sk, "recycled slots get last_yield / yield_count / state of Thread::new", [sfn.loc()])
