"""C17 - thread_local! / lazy_static! semantics (structural clauses only)."""
from . import g_sync, modelrules, tlsrules
from .leaks import K5
from .common import *

EXPLANATION = ("Decides on the MIR of the current tree: thread exit takes every local inside the execution, destroys them outside any execution "
               "borrow, then terminates and schedules; a destroyed slot yields AccessError (H1); LocalKey::try_with runs init() outside the "
               "borrow only when the thread has no value, registers it once in the active thread's own map (H2); Lazy::get runs init outside the "
               "borrow, re-checks before registering, init_static refuses an occupied slot, statics live in one execution-wide map (H3); the "
               "init -> access happens-before edge (Y1 lazy rows); destruction at the end of the iteration (K5) and re-creation (I1); destructor "
               "order is not hash-dependent (Z2). Behaviour under racing first accesses in every interleaving is not decided."
               " G0/G1 cross-check init_static.")
RULE_TEXT = "rule instances = teardown steps, init guards, map accessors; non-trivial when matched to concrete MIR sites"
LEVEL_NOTE = "necessary conditions only"


def run(ctx):
    from . import guardvocab
    guardvocab.G3(ctx, scopes=('lazy_static::', 'thread::LocalKey', 'rt::lazy_static::'))
    guardvocab.G0(ctx, effects={'init-static'})
    guardvocab.G1(ctx, effects={'init-static'})
    tlsrules.H1(ctx)
    tlsrules.H2(ctx)
    tlsrules.H3(ctx)
    g_sync.run_all(ctx, ["Y1:lazy"])
    K5(ctx)
    modelrules.Z2(ctx)
