"""C08 - waiting primitives wake exactly on notification (structural clauses only)."""
from . import g_state, g_sync
from .common import *
from .common import _closure_arg

EXPLANATION = ("Decides on the MIR of the current tree: who may wake a waiting thread and under which guard (S3), preservation and origin of the "
               "park token (S4, S8), block/wake pairing (S7), the notify/unpark happens-before edges (Y1), the order of steps in Condvar::wait "
               "(W1), that notify_one/notify_all unpark exactly the popped/drained waiters (W2), the park-token machine of rt::park and "
               "Thread::set_unparked (W3), the writers of the Notify flags incl. the at-most-one spurious return (W4) and the wiring of "
               "spawn/join/block_on to their Notify (W5). Lost or misdirected wake-ups as behaviour over all interleavings are not decided."
               " The notification flag is consumed on every non-spurious return and only where the acquire follows (W4 pairing); G0/G1 cross-check wake/unpark/notify/wait. A thread that returns from Condvar::wait has removed its own entry from the waiter queue however it was resumed (W6).")
RULE_TEXT = "rule instances = wake/transition sites, ordered steps, flag writers; non-trivial when matched to concrete MIR sites"
LEVEL_NOTE = "necessary conditions only"

NSTATE = "rt::notify::State"
CSTATE = "rt::condvar::State"


def W1(ctx):
    """Condvar::wait: branch -> enqueue(active) -> release mutex -> park -> re-acquire mutex, on every path."""
    prog = ctx.prog
    fk = "rt::condvar::Condvar::wait"
    root = prog.ident(fk)
    if root is None:
        ctx.missing("W1", fk)
        return

    def m(prog_, i, b, t, c):
        k = prog_.callee_key(c)
        if is_std_collection_call(k, "push_back"):
            body = prog_.body_of(i)
            if mentions_field(arg_expr(body, t, 0), CSTATE, "waiters") and mentions_call(arg_expr(body, t, 1), "rt::thread::Set::active_id"):
                return ["enqueue"]
        return {"rt::mutex::Mutex::release_lock": ["release"], "rt::park": ["park"], "rt::mutex::Mutex::acquire_lock": ["acquire"],
                "rt::object::Ref::<T>::branch_opaque": ["branch"]}.get(k, [])
    ea = EventAnalysis(prog, m, stop=lambda i: prog.insts[i].key in ("rt::park", "rt::mutex::Mutex::release_lock",
                                                                     "rt::mutex::Mutex::acquire_lock")).solve([root])
    ctx.touch(fk, len(ea.sub))
    must = ea.must_of(root)
    steps = ["branch", "enqueue", "release", "park", "acquire"]
    missing = [s for s in steps if must is not TOP and s not in must]
    if missing:
        ctx.bad("W1", fk, "Condvar::wait does not perform %s on every path" % missing, prog.fns[fk].loc(), detail="missing")
        return
    bad = []
    for a, b in zip(steps, steps[1:]):
        if ea.must_before(root, a, b):
            bad.append((a, b))
    if bad:
        ctx.bad("W1", fk, "Condvar::wait steps out of order: %s (a notification between them is lost or the mutex is not re-acquired)" % bad,
                prog.fns[fk].loc(), detail="order")
    else:
        ctx.ok("W1", fk, "branch -> enqueue(active) -> release mutex -> park -> re-acquire mutex, on every path", [prog.fns[fk].loc()])


def W2(ctx):
    """notify_one pops one waiter and unparks exactly it; notify_all drains the whole queue and unparks every drained waiter."""
    prog = ctx.prog
    # notify_one
    fk = "rt::condvar::Condvar::notify_one::{closure#0}"
    fn = need_fn(ctx, "W2", fk)
    if fn is not None:
        inst = prog.ident(fk)
        body = fn.body
        pops = [(b, t) for (b, t, c) in prog.sites(inst) if prog.callee_key(c).endswith("::pop_front")]
        unparks = [(b, t) for (b, t, c) in prog.sites(inst) if prog.callee_key(c) == "rt::thread::Set::unpark"]
        ok = len(pops) == 1 and len(unparks) == 1
        if ok:
            a = arg_expr(body, unparks[0][1], 1)
            ok = mentions_call(a, "pop_front") is not None and mentions_field(arg_expr(body, pops[0][1], 0), CSTATE, "waiters") is not None
            # not inside a loop: the unpark block is not on a cycle
            ub = unparks[0][0]
            if ub in body.reachable(body.succs(ub)[0] if body.succs(ub) else ub) and ub in set(
                    x for s in body.succs(ub) for x in body.reachable(s)):
                ok = False
        if ok:
            ctx.ok("W2", "rt::condvar::Condvar::notify_one", "unparks exactly the one waiter popped from the queue", [site_str(prog, fk, unparks[0][0])])
        else:
            ctx.bad("W2", "rt::condvar::Condvar::notify_one", "notify_one must pop one waiter and unpark exactly that thread (pops=%d, unparks=%d)" %
                    (len(pops), len(unparks)), fn.loc())
    fk = "rt::condvar::Condvar::notify_all::{closure#0}"
    fn = need_fn(ctx, "W2", fk)
    if fn is not None:
        inst = prog.ident(fk)
        body = fn.body
        drains = [(b, t) for (b, t, c) in prog.sites(inst) if prog.callee_key(c).endswith("::drain")]
        unparks = [(b, t) for (b, t, c) in prog.sites(inst) if prog.callee_key(c) == "rt::thread::Set::unpark"]
        # equivalent form: drain(..).for_each(|thread| execution.threads.unpark(thread))
        fe = [(b, t) for (b, t, c) in prog.sites(inst) if callee_path(t) == "std::iter::Iterator::for_each"]
        if len(drains) == 1 and not unparks and len(fe) == 1 and "drain" in canon(arg_expr(body, fe[0][1], 0)):
            ck2 = _closure_arg(arg_expr_call(body, fe[0][1]))
            cf = prog.fns.get(ck2) if ck2 else None
            good = False
            if cf is not None:
                ci = prog.ident(ck2)
                ups = [(b2, t2) for (b2, t2, c2) in prog.sites(ci) if prog.callee_key(c2) == "rt::thread::Set::unpark"]
                good = len(ups) == 1 and strip(arg_expr(cf.body, ups[0][1], 1))[0] == "param" and every_path_passes(cf.body, [ups[0][0]]) and \
                    "RangeFull" in canon(arg_expr(body, drains[0][1], 1)) and mentions_field(arg_expr(body, drains[0][1], 0), CSTATE, "waiters") is not None
            if good:
                ctx.ok("W2", "rt::condvar::Condvar::notify_all", "drains the whole queue and unparks every drained waiter (for_each form)", [site_str(prog, fk, fe[0][0])])
            else:
                ctx.bad("W2", "rt::condvar::Condvar::notify_all", "notify_all must drain(..) all waiters and unpark each of them", fn.loc())
            return
        ok = len(drains) == 1 and len(unparks) == 1
        if ok:
            a = arg_expr(body, unparks[0][1], 1)
            ok = mentions_call(a, "std::iter::Iterator::next") is not None and "drain" in canon(a) and \
                mentions_field(arg_expr(body, drains[0][1], 0), CSTATE, "waiters") is not None
            ub = unparks[0][0]
            in_loop = any(ub in body.reachable(s) for s in body.succs(ub))
            ok = ok and in_loop
            # full range
            rng = canon(arg_expr(body, drains[0][1], 1))
            ok = ok and "RangeFull" in rng
        if ok:
            ctx.ok("W2", "rt::condvar::Condvar::notify_all", "drains the whole queue and unparks every drained waiter", [site_str(prog, fk, unparks[0][0])])
        else:
            ctx.bad("W2", "rt::condvar::Condvar::notify_all", "notify_all must drain(..) all waiters and unpark each of them", fn.loc())


def W3(ctx):
    """Park-token machine, independent of where the token is stored: rt::park has a non-blocking return exactly when the
    token place is set, and on it clears the token without blocking; otherwise it blocks with operation = None and schedules.
    Thread::set_unparked stores the token on the path on which it does not wake."""
    prog = ctx.prog
    fk = "rt::park::{closure#0}"
    fn = need_fn(ctx, "W3", fk)
    if fn is None:
        return
    body = fn.body
    inst = prog.ident(fk)
    sched = [b for (b, t, c) in prog.sites(inst) if prog.callee_key(c) == EXEC + "::schedule"]
    blocked = [b for (b, t, c) in prog.sites(inst) if prog.callee_key(c) == T + "::set_blocked"]
    false_rets = blocks_assigning_ret(body, lambda e: is_const_bool(e, False))
    ctx.touch(fk, len(sched) + len(blocked))
    if not sched or not blocked or not false_rets:
        ctx.bad("W3", "rt::park", "park lost its shape: schedule sites=%d, set_blocked sites=%d, non-blocking returns=%d" %
                (len(sched), len(blocked), len(false_rets)), fn.loc(), detail="shape")
        return
    # the non-blocking return: no set_blocked / schedule after-or-before it on its path
    nb = false_rets[0]
    atoms = guard_atoms(body, nb)
    token_atoms = [(e, pol, val) for (e, pol, val, sb) in atoms if any(x[0] == "field" and x[3] in (T, "rt::thread::State") for x in subexprs(e))]
    if not token_atoms:
        ctx.bad("W3", "rt::park", "the non-blocking return of park is not guarded by thread state (token)", site_str(prog, fk, nb), detail="guard")
        return
    dom = body.dominators()
    if any(b in dom[nb] for b in blocked) or any(b in dom[nb] for b in sched):
        ctx.bad("W3", "rt::park", "the token-consuming return passes set_blocked/schedule", site_str(prog, fk, nb), detail="nonblocking")
        return
    # token is cleared on that path: some write to Thread state/token dominated by the same guard and dominating nb
    cleared = False
    for b in dom[nb]:
        for s in body.blocks[b]["stmts"]:
            if s["k"] == "=" and any(isinstance(p, dict) and p.get("a") == T for p in s["lhs"]["p"]):
                # consumed entirely: a constant (false / Runnable), not "one less"
                ev_ = strip(body.expr_of_rvalue(s["rv"]))
                if ev_[0] in ("const", "agg"):
                    cleared = True
        t = body.term(b)
        if t["k"] == "call" and callee_path(t) in (T + "::set_runnable",) and b != nb:
            cleared = True
    # the blocking path: every path that does not take the token passes set_blocked, operation = None and schedule
    ea = EventAnalysis(prog, path_matcher({"set_blocked": T + "::set_blocked", "schedule": EXEC + "::schedule"}),
                       stop=lambda i: prog.insts[i].key != fk).solve([inst])
    IN, OUT = ea.block_out(inst)
    op_none = [w for w in prog.writers().get((T, "operation"), []) if w["fn"] == fk and w["kind"] == "assign"]
    op_ok = False
    for w in op_none:
        e = strip(body.expr_of_rvalue(w["stmt"]["rv"]))
        if e[0] == "agg" and e[2] == "None":
            op_ok = all(w["bb"] in dom[s] or w["bb"] == s for s in sched)
    blocking_ok = all(IN.get(s) is not TOP and "set_blocked" in (IN.get(s) or ()) for s in sched)
    if cleared and op_ok and blocking_ok:
        ctx.ok("W3", "rt::park", "token set => consume and return without blocking; else set_blocked, operation = None, schedule",
               [site_str(prog, fk, nb), site_str(prog, fk, sched[0])])
    else:
        ctx.bad("W3", "rt::park", "park token machine broken: token cleared on consume=%s, operation=None before schedule=%s, "
                "set_blocked before schedule=%s" % (cleared, op_ok, blocking_ok), fn.loc(), detail="machine")
    # set_unparked: a path that wakes (set_runnable) and a disjoint path that stores the token
    sk = T + "::set_unparked"
    sfn = need_fn(ctx, "W3", sk)
    if sfn is None:
        return
    sbody = sfn.body
    sinst = prog.ident(sk)
    wakes = [b for (b, t, c) in prog.sites(sinst) if prog.callee_key(c) == T + "::set_runnable"]
    stores = []
    nonconst = []
    for b, blk in enumerate(sbody.blocks):
        if blk["cleanup"]:
            continue
        for s in blk["stmts"]:
            if s["k"] == "=" and any(isinstance(p, dict) and p.get("a") == T for p in s["lhs"]["p"]):
                e = strip(sbody.expr_of_rvalue(s["rv"]))
                if e[0] == "const" and e[1].get("int") == 1:
                    stores.append(b)
                else:
                    nonconst.append(canon(e)[:60])
    # by scenario over the target's state (whatever predicates spell it):
    #   parked (blocked without a pending operation)       -> woken, and the wake consumes the unpark (no token left behind)
    #   runnable / yielded / blocked on some object         -> the token is stored on every path (the next park() must return)
    def scen(blocked, op_none, yielded, terminated):
        return assume_scenario(prog, {T + "::is_blocked": blocked, "std::option::Option::<T>::is_none": op_none,
                                      "std::option::Option::<T>::is_some": not op_none, T + "::is_yield": yielded,
                                      T + "::is_terminated": terminated, T + "::is_runnable": not (blocked or yielded or terminated)})
    rets = [b for b in range(sbody.n) if sbody.term(b)["k"] == "return"]
    problems = []
    if nonconst:
        problems.append("the token is binary (unpark before park makes exactly the next park return): set_unparked must store the constant "
                        "`true`, not `%s`" % nonconst[0])
    if not wakes or not stores:
        problems.append("wakes=%s stores=%s" % (wakes, stores))
    else:
        r_parked, _ = PEval(sbody, scen(True, True, False, False)).run()
        if not any(w in r_parked for w in wakes):
            problems.append("a parked thread is not woken")
        if any(st in r_parked for st in stores):
            problems.append("waking a parked thread also leaves a token behind")
        for (nm, sc) in (("runnable", scen(False, True, False, False)), ("yielded", scen(False, True, True, False)),
                         ("blocked on an object", scen(True, False, False, False))):
            r_, _ = PEval(sbody, sc).run(stop_blocks=set(stores))
            if any(rb in r_ and rb not in stores for rb in rets):
                problems.append("an unpark that reaches a %s thread is dropped (no token stored): its next park() blocks although "
                                "unpark() was called before" % nm)
    if not problems:
        ctx.ok("W3", sk, "parked: woken, no token; not parked (runnable / yielded / blocked on an object): token stored on every path",
               [site_str(prog, sk, wakes[0]), site_str(prog, sk, stores[0])])
    else:
        ctx.bad("W3", sk, "unpark token machine of set_unparked: " + "; ".join(problems), sfn.loc(), detail="set_unparked")


def _is_take(prog, w):
    """The mutable borrow w flows into mem::take / mem::replace(.., false)."""
    cons = prog.borrow_consumer(w["fn"], w["bb"], w["idx"])
    if not cons or cons[2] != 0:
        return False
    k = callee_path(cons[1])
    if k == "std::mem::take":
        return True
    if k == "std::mem::replace":
        e = prog.fns[w["fn"]].body.expr_of_operand(cons[1]["args"][1])
        return e[0] == "const" and e[1].get("int") == 0
    return False


def _const_int(body, w):
    if w["stmt"]["k"] != "=":
        return None
    e = body.expr_of_rvalue(w["stmt"]["rv"])
    return e[1].get("int") if e[0] == "const" else None


def W4(ctx):
    """Writers of Notify.notified / did_spur, might_spur = spurious && !did_spur, spurious branch only under might_spur."""
    prog = ctx.prog
    rows = {
        "notified": {"rt::notify::Notify::new": None, "rt::notify::Notify::notify": 1, "rt::notify::Notify::wait": 0},
        "did_spur": {"rt::notify::Notify::new": None, "rt::notify::Notify::wait": 1},
    }
    n = 0
    for field, allowed in rows.items():
        for w in prog.writers().get((NSTATE, field), []):
            fk = enclosing_fn(w["fn"])
            body = prog.fns[w["fn"]].body
            n += 1
            if fk not in allowed:
                ctx.bad("W4", fk, "Notify.%s written outside %s" % (field, sorted(allowed)), site_str(prog, w["fn"], w["bb"]), detail=field)
                continue
            if w["kind"] == "construct":
                e = body.expr_of_operand(w["op"])
                if e[0] == "const" and e[1].get("int") == 0:
                    ctx.ok("W4", "%s:%s" % (fk, field), "initially false", [site_str(prog, w["fn"], w["bb"])])
                else:
                    ctx.bad("W4", fk, "Notify.%s must start false" % field, site_str(prog, w["fn"], w["bb"]), detail=field + "-init")
                continue
            if w["kind"] != "assign":
                if field == "notified" and fk == "rt::notify::Notify::wait" and _is_take(prog, w):
                    # `mem::take(&mut state.notified)` / `mem::replace(.., false)`: the consuming write in another spelling;
                    # where it may stand is decided by the consume/acquire pairing below
                    ctx.ok("W4", "%s:%s=take" % (fk, field), "allowed writer (take)", [site_str(prog, w["fn"], w["bb"])])
                    continue
                ctx.bad("W4", fk, "Notify.%s is mutably borrowed" % field, site_str(prog, w["fn"], w["bb"]), detail=field + "-borrow")
                continue
            e = body.expr_of_rvalue(w["stmt"]["rv"])
            val = e[1].get("int") if e[0] == "const" else None
            if val != allowed[fk]:
                ctx.bad("W4", fk, "Notify.%s is set to %s in %s (expected %s)" % (field, canon(e), fk, allowed[fk]),
                        site_str(prog, w["fn"], w["bb"]), detail=field + "-value")
                continue
            if field == "notified" and val == 0:
                # reset only after assert!(notified): unreachable when notified is false
                def a(body_, b, t, ex):
                    if ex[0] == "field" and ex[2] == "notified":
                        return switch_targets_for(t, False)
                    return None
                if not unreachable_if(body, w["bb"], a):
                    ctx.bad("W4", fk, "the notification flag is consumed without asserting it was set", site_str(prog, w["fn"], w["bb"]), detail="consume")
                    continue
            if field == "did_spur":
                def a2(body_, b, t, ex):
                    if ex[0] == "phi" or (ex[0] == "field" and mentions_call(ex, "rt::path::Path::branch_spurious")):
                        return None
                    return None
            ctx.ok("W4", "%s:%s=%s" % (fk, field, val), "allowed writer", [site_str(prog, w["fn"], w["bb"])])
    # the spurious branch is offered only when the Notify may spur and has not spurred yet: at the branch_spurious site
    # `spurious` is known true and `did_spur` known false (whether tested through State::might_spur or in place)
    found = False
    for ssite in call_sites(prog, "rt::path::Path::branch_spurious"):
        if enclosing_fn(ssite["fn"]) != "rt::notify::Notify::wait":
            continue
        found = True
        n += 2
        atoms = expanded_guard_atoms(prog, ssite["fn"], ssite["bb"])
        sp = any(pol is True and mentions_field(e, NSTATE, "spurious") is not None and mentions_field(e, NSTATE, "did_spur") is None for (e, pol) in atoms)
        nd = any(pol is False and mentions_field(e, NSTATE, "did_spur") is not None and mentions_field(e, NSTATE, "spurious") is None for (e, pol) in atoms)
        if sp and nd:
            ctx.ok("W4", "rt::notify::Notify::wait:spur-guard", "branch_spurious only when spurious && !did_spur: at most one spurious return per Notify",
                   [site_str(prog, ssite["fn"], ssite["bb"])])
        elif not sp and not nd:
            ctx.bad("W4", "rt::notify::Notify::wait", "spurious branch is offered although the Notify cannot (or no longer may) spur",
                    site_str(prog, ssite["fn"], ssite["bb"]), detail="spur-guard")
        else:
            ctx.bad("W4", NSTATE + "::might_spur", "the spurious branch must be guarded by `spurious && !did_spur` (spurious known=%s, "
                    "did_spur known false=%s)" % (sp, nd), site_str(prog, ssite["fn"], ssite["bb"]), detail="might_spur")
    if not found:
        ctx.missing("W4", "rt::notify::Notify::wait", "no branch_spurious site")
    ctx.floor("W4", n, 7, "writers of notified/did_spur + might_spur + spurious guard")
    # consume / acquire pairing in Notify::wait: (a) every return that is not the spurious one (yield_now) has consumed the
    # notification flag; (b) wherever the flag may be consumed, the acquire of the notifier's clock is on every path to return
    wfk = "rt::notify::Notify::wait"
    wfn = need_fn(ctx, "W4", wfk)
    if wfn is not None:
        wi = prog.ident(wfk)
        wb = wfn.body
        must_c, may_c, must_a, spur = set(), set(), set(), set()
        for (b, t, c) in prog.sites(wi):
            k = prog.callee_key(c)
            if k == "rt::yield_now":
                spur.add(b)
            ck = _closure_arg(arg_expr_call(wb, t)) if k in ("rt::execution", "rt::synchronize") else None
            if not ck or ck not in prog.fns:
                continue
            cb = prog.fns[ck].body
            cons = [w["bb"] for w in prog.writers().get((NSTATE, "notified"), []) if w["fn"] == ck and
                    ((w["kind"] == "assign" and w["exact"] and _const_int(cb, w) == 0) or (w["kind"] == "borrow_mut" and _is_take(prog, w)))]
            acq = [b2 for (b2, t2, c2) in prog.sites(prog.ident(ck)) if prog.callee_key(c2) == "rt::synchronize::Synchronize::sync_load"
                   and mentions_field(arg_expr(cb, t2, 0), NSTATE, "synchronize") is not None]
            if cons:
                may_c.add(b)
                if every_path_passes(cb, cons):
                    must_c.add(b)
            if acq and every_path_passes(cb, acq):
                must_a.add(b)
        if not may_c:
            ctx.bad("W4", wfk, "Notify::wait never consumes the notification flag: one notify satisfies every later wait", wfn.loc(), detail="never-consumed")
        else:
            if every_path_passes(wb, must_c | spur):
                ctx.ok("W4", wfk + ":consumed", "every non-spurious return has consumed the notification", [site_str(prog, wfk, sorted(must_c)[0])] if must_c else [wfn.loc()])
            else:
                ctx.bad("W4", wfk, "some non-spurious return of Notify::wait leaves `notified` set: the next wait returns without a new "
                        "notification (phantom wake-up)", wfn.loc(), detail="not-consumed")
            lost = [b for b in sorted(may_c) if b not in must_a and not all(every_path_passes(wb, must_a, start=s_) for s_ in wb.succs(b))]
            if lost:
                ctx.bad("W4", wfk, "the notification flag may be consumed on a path that returns without the acquire of the notifier "
                        "(e.g. the spurious return): the wake-up is lost", site_str(prog, wfk, lost[0]), detail="consume-without-acquire")
            else:
                ctx.ok("W4", wfk + ":consume->acquire", "the flag is consumed only where the acquire follows on every path", [site_str(prog, wfk, sorted(may_c)[0])])


def _notify_new_args(prog, fk):
    out = []
    for inst_id in prog.by_def.get(fk, []):
        body = prog.body_of(inst_id)
        for (b, t, c) in prog.sites(inst_id):
            if prog.callee_key(c) == "rt::notify::Notify::new":
                a0 = body.expr_of_operand(t["args"][0])
                a1 = body.expr_of_operand(t["args"][1])
                out.append((b, a0[1].get("int") if a0[0] == "const" else None, a1[1].get("int") if a1[0] == "const" else None))
        break
    return out


def W5(ctx):
    """spawn/join/block_on build their Notify with the right (seq_cst, spurious); result stored before notify; join waits before taking the result."""
    prog = ctx.prog
    rows = [("thread::spawn_internal", (1, 0), "join handles: seq_cst, never spurious"),
            ("sync::notify::Notify::new", (0, 1), "public Notify: may spur once")]
    if "future::block_on" in prog.fns:
        rows.append(("future::block_on", (0, 1), "block_on: may spur once"))
    for (fk, want, why) in rows:
        fn = need_fn(ctx, "W5", fk)
        if fn is None:
            continue
        args = _notify_new_args(prog, fk)
        if args and all((a, b_) == want for (_, a, b_) in args):
            ctx.ok("W5", fk, "Notify::new(seq_cst=%s, spurious=%s): %s" % (bool(want[0]), bool(want[1]), why), [site_str(prog, fk, args[0][0])])
        else:
            ctx.bad("W5", fk, "%s must build its Notify with (seq_cst, spurious) = %s, found %s" % (fk, want, [(a, b_) for (_, a, b_) in args]),
                    fn.loc())
    # spawned closure: result stored before notify
    ck = "thread::spawn_internal::{closure#0}"
    root = prog.ident(ck)
    if root is None:
        ctx.missing("W5", ck)
    else:
        ev = {"store": "<std::sync::MutexGuard<'_, T> as std::ops::DerefMut>::deref_mut", "notify": "rt::notify::Notify::notify",
              "user": "std::ops::FnOnce::call_once"}
        ea = EventAnalysis(prog, path_matcher(ev), stop=lambda i: prog.insts[i].key != ck).solve([root])
        m = ea.must_of(root)
        ok = m is not TOP and {"store", "notify"} <= set(m) and not ea.must_before(root, "store", "notify")
        if ok:
            ctx.ok("W5", ck, "thread result stored before the join notification", [prog.fns[ck].loc()])
        else:
            ctx.bad("W5", "thread::spawn_internal", "the spawned thread must store its result before notifying the JoinHandle", prog.fns[ck].loc(), detail="order")
    jk = "thread::JoinHandle::<T>::join"
    root = prog.ident(jk)
    if root is None:
        ctx.missing("W5", jk)
    else:
        ev = {"wait": "rt::notify::Notify::wait", "take": "std::option::Option::<T>::take"}
        ea = EventAnalysis(prog, path_matcher(ev), stop=lambda i: prog.insts[i].key != jk).solve([root])
        m = ea.must_of(root)
        ok = m is not TOP and {"wait", "take"} <= set(m) and not ea.must_before(root, "wait", "take")
        if ok:
            ctx.ok("W5", jk, "join waits for the notification before taking the result", [prog.fns[jk].loc()])
        else:
            ctx.bad("W5", jk, "join must wait on the thread's Notify before taking the result", prog.fns[jk].loc())
WITNESSES = ['C08JoinConsumes']


def run(ctx):
    from . import guardvocab
    guardvocab.G0(ctx, effects={'unpark', 'wake', 'notify', 'wait'})
    guardvocab.G1(ctx, effects={'unpark', 'wake', 'notify', 'wait'})
    guardvocab.G2(ctx, scopes=('rt::notify::', 'rt::condvar::', 'rt::park', 'rt::thread::Thread::', 'sync::condvar::'))
    guardvocab.G3(ctx, scopes=('rt::notify::', 'rt::condvar::', 'rt::park', 'rt::thread::Thread::', 'sync::condvar::', 'sync::notify::', 'thread::'))
    g_state.run_all(ctx, ["S3", "S4", "S7", "S8", "S9"])
    g_sync.run_all(ctx, ["Y1:notify,unpark"])
    W1(ctx)
    W2(ctx)
    W3(ctx)
    W4(ctx)
    W5(ctx)
    from . import round6
    round6.W6(ctx)
