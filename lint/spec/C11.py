"""C11 - loom Arc behaves like std Arc (structural clauses only)."""
from . import g_dpor, g_sync
from .common import *

EXPLANATION = ("Decides on the MIR of the current tree: algebraic laws of Arc's dependence table (T1-T3 Arc rows), the release-on-drop / acquire-"
               "on-last-drop edges (Y1 Arc rows), the writers of the reference count (K4) and the front-end wiring (A1r): the last-handle "
               "bookkeeping runs only when the count reached zero / get_mut succeeded, clone increments before cloning, get_mut/try_unwrap hand "
               "out the value only when the modelled count is one, from_raw resolves its object through the registry, increment/"
               "decrement_strong_count are balanced. Equality of returned counts with a reference model per interleaving is not decided."
               " Recency selection between dependent slots uses a marker maintained by set_last_access, not happens-before (T6); the dependence lookup consults no other object state (T7); G0/G1 cross-check reference counting.")
RULE_TEXT = "rule instances = dependence-table cells, edges, counter writers, front-end guards; non-trivial when matched to concrete MIR sites"
LEVEL_NOTE = "necessary conditions only"
WITNESSES = ['C11ArcGetMutNeedsMut']


def run(ctx):
    from . import guardvocab
    guardvocab.G0(ctx, effects={'ref-dec', 'ref-inc', 'release', 'acquire', 'join'})
    guardvocab.G1(ctx, effects={'ref-dec', 'ref-inc', 'release', 'acquire', 'join'})
    guardvocab.G2(ctx, scopes=('rt::arc::', 'sync::arc::'))
    guardvocab.G3(ctx, scopes=('rt::arc::', 'sync::arc::'))
    g_dpor.T1(ctx, mods=["rt::arc"])
    g_dpor.T2(ctx, mods=["rt::arc"])
    g_dpor.T3(ctx, mods=["rt::arc"])
    ctx.floor("T6", g_dpor.T6(ctx, mods=["rt::arc"]), 1, "Arc Inspect (inc / dec slots)")
    ctx.floor("T7", g_dpor.T7(ctx, mods=["rt::arc"]), 1, "Arc dependence lookup")
    g_dpor.V3(ctx, subset=("rt::arc",))
    g_dpor.V1(ctx, subset=("rt::arc", "sync::arc", "<sync::arc"))
    g_sync.run_all(ctx, ["Y1:arc"])
    from . import leaks
    leaks.K4_refcnt(ctx)
    from . import arcrules
    arcrules.A1r(ctx)
