"""C15 - preemption bound (thin: bound enforcement only)."""
from . import pathrules
from .common import *

EXPLANATION = ("Thin claim. Decides on the MIR of the current tree only how the bound is enforced: Schedule::backtrack arms no alternative once "
               "preemptions == bound and asserts preemptions <= bound (E1); the preemption count of a branch is stored + 1 exactly when it "
               "switched away from a thread that could continue, and new branches inherit it (E2); the scheduler's default choice is the "
               "running thread whenever it is runnable, so the default never preempts (E3); the conservative extra backtrack points exist "
               "exactly under a bound and sit at the nearest earlier context switch (E4). Soundness w.r.t. the unbounded run, monotonicity "
               "in n and equality for large n are statements about result sets and are not decided."
               " Under a bound the conservative backtrack point does not depend on the outcome of the primary one (E4 always); the scheduler's default choice is not rewritten while the running thread can continue (E3); G0/G1 cross-check the backtrack step.")
RULE_TEXT = "rule instances = guarded explore() sites, preemption arithmetic, default seeding, extra backtrack calls"
LEVEL_NOTE = "thin claim: enforcement only; result-set properties are not decided"


def run(ctx):
    from . import guardvocab
    guardvocab.G0(ctx, effects={'backtrack'})
    guardvocab.G1(ctx, effects={'backtrack'})
    guardvocab.G2(ctx, scopes=('rt::path::',))
    guardvocab.G3(ctx, scopes=('rt::path::',))
    pathrules.E1(ctx)
    pathrules.E2(ctx)
    pathrules.E3(ctx)
    pathrules.E4(ctx)
    # the bound survives a checkpoint / resume
    from . import modelrules
    modelrules.Z1(ctx)
