"""C05 - deadlocks are reported exactly (structural clauses only)."""
from . import g_state
from .common import *

EXPLANATION = ("Decides necessary structural conditions of exact deadlock reporting on the MIR of the current tree: "
               "the discipline of Thread.state (S1-S8: who may block/wake whom, guarded by what), the deadlock "
               "assertion in Execution::schedule (D1) and the derivation of blocking conditions from object state (D2). "
               "A pass means all clauses hold, never that the behaviour holds for every interleaving."
               " The block loop of post_acquire* is unconditional on the success path (S5b); G0/G1 cross-check the block/wake/unpark/schedule/terminate steps against the reference tree. A pending non-blocking try operation is never marked Blocked by another thread's acquire (S10); a thread that left Condvar::wait is not left in the waiter queue (W6): both would be deadlock reports that cannot happen.")
RULE_TEXT = ("rule instances = transition sites of Thread.state / blocking call sites found in the resolved call graph; "
             "an instance is non-trivial when it matched at least one concrete MIR call site")
LEVEL_NOTE = "necessary conditions only; per-interleaving bookkeeping is not decided"


def run(ctx):
    from . import guardvocab
    guardvocab.G0(ctx, effects={'terminate', 'unpark', 'wake', 'schedule', 'block'})
    guardvocab.G1(ctx, effects={'terminate', 'unpark', 'wake', 'schedule', 'block'})
    guardvocab.G2(ctx, scopes=('rt::thread::', 'rt::park', 'rt::yield_now', 'rt::thread_done', 'rt::mutex::', 'rt::rwlock::', 'rt::mpsc::', 'rt::notify::', 'rt::condvar::', 'rt::object::Ref'))
    guardvocab.G3(ctx, scopes=('rt::thread::', 'rt::park', 'rt::yield_now', 'rt::thread_done', 'rt::mutex::', 'rt::rwlock::', 'rt::mpsc::', 'rt::notify::', 'rt::condvar::', 'rt::object::Ref', 'thread::'))
    g_state.run_all(ctx, ["S1", "S2", "S3", "S4", "S5", "S5b", "S6", "S7", "S8", "S9", "S10", "D1", "D2"])
    # a notification that wakes nobody, or a yielded thread that is never re-activated, is a false deadlock
    from . import C08, tlsrules
    C08.W2(ctx)
    C08.W3(ctx)
    from . import round6
    round6.W6(ctx)
    tlsrules.U3(ctx)
