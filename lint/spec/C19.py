"""C19 - exploration controls and limits (structural clauses only)."""
from . import modelrules, pathrules
from .common import *

EXPLANATION = ("Decides on the MIR of the current tree: new branches record the current exploring flag and backtrack points are added only to "
               "exploring branches; step() skips non-exploring entries (B1 + X3 arms); the control state machine of explore()/stop_exploring()/"
               "skip_branch() over (skipping, exploring) incl. both assertion messages (B2, 4 states x 3 operations); the branch-capacity "
               "assertion with the documented message before every insertion (B3); the thread-limit assertions (B4); max_permutations / "
               "max_duration tested with >= only on the checkpoint boundary and ending the run with a plain return (B5). Subset/validity of "
               "result sets under the controls is not decided."
               " Recording a race does not depend on the exploring flag (T4 wiring, extra-guard clause); each of max_permutations / max_duration ends the run whatever the other is (B5 independence); the branch limit is compared against the configured value (B3 limit); G0/G1 cross-check backtrack/branch.")
RULE_TEXT = "rule instances = insertion sites, state-machine cells, limit tests; non-trivial when matched to concrete MIR sites"
LEVEL_NOTE = "necessary conditions only"


def run(ctx):
    from . import guardvocab
    guardvocab.G0(ctx, effects={'backtrack', 'branch'})
    guardvocab.G1(ctx, effects={'backtrack', 'branch'})
    guardvocab.G2(ctx, scopes=('rt::path::', 'model::Builder::'))
    guardvocab.G3(ctx, scopes=('rt::path::', 'model::Builder::'))
    pathrules.B1(ctx)
    pathrules.X3(ctx)
    pathrules.B2(ctx)
    pathrules.B3(ctx)
    pathrules.B4(ctx)
    pathrules.B4b(ctx)
    # the preemption budget does not depend on the exploring flag (a paused region must not buy extra preemptions)
    pathrules.E2(ctx)
    modelrules.B5(ctx)
    # a race found while exploration is paused still moves the *earlier*, explored decision: the DPOR scan is unconditional
    from . import g_dpor
    g_dpor.T4(ctx)
