"""C18 - yielding spin loops (structural skeleton only)."""
from . import pathrules, tlsrules
from .common import *

EXPLANATION = ("Thin claim. Decides on the MIR of the current tree only the skeleton of the yield mechanism: spin_loop / spin_loop_hint reach "
               "rt::yield_now on every path (U1); yield_now marks the thread Yield with last_yield = its own clock component and yield_count+1, "
               "clears the pending operation and schedules (U2); the scheduler re-activates yielded threads except the one just chosen, seeds "
               "them as Thread::Yield, and branch_thread promotes one when nothing else can run (U3); loads consult is_seen_before_yield only "
               "to drop a store for which a newer one exists (U4); the yield bookkeeping does not survive into the next execution (U5); an unbounded loop hits the documented branch-capacity panic instead of "
               "being cut off silently (B3). Progress and completeness of the yield pruning are runtime properties and are not decided."
               " G0/G1 cross-check the yield step.")
RULE_TEXT = "rule instances = yield steps, scheduler seeding, pruning guard; non-trivial when matched to concrete MIR sites"
LEVEL_NOTE = "thin claim: structural skeleton only"


def run(ctx):
    from . import guardvocab
    guardvocab.G0(ctx, effects={'yield'})
    guardvocab.G1(ctx, effects={'yield'})
    guardvocab.G2(ctx, scopes=('rt::yield_now', 'rt::thread::Thread::set_yield', 'rt::atomic::State::match_load_to_stores'))
    guardvocab.G3(ctx, scopes=('rt::yield_now', 'rt::thread::Thread::set_yield', 'rt::atomic::State::match_load_to_stores', 'hint::', 'thread::yield_now', 'rt::atomic::'))
    tlsrules.U1(ctx)
    tlsrules.U2(ctx)
    tlsrules.U3(ctx)
    tlsrules.U4(ctx)
    tlsrules.U5(ctx)
    pathrules.B3(ctx)
    from . import atomics
    atomics.R1(ctx)
