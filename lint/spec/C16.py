"""C16 - iterations are isolated (structural clauses only)."""
from . import modelrules
from .C06 import P5
from .common import *

EXPLANATION = ("Decides on the MIR / item inventory of the current tree: reset completeness - every field of Execution is rebuilt, advanced, "
               "cleared or a listed configuration field in Execution::step; thread::Set::clear assigns every field of Set with a fresh main "
               "thread 0; lazy statics are re-created; the Scheduler holds no per-iteration state (I1); the scoped execution state is a "
               "thread-local touched only inside rt::scheduler and the Execution is reachable only through rt::execution (I2); Execution is "
               "constructed only by new/step from empty containers (I3); process-level mutable state is the inventoried statics (P5). "
               "Equality of outcome multisets across runs is not decided.")
RULE_TEXT = "rule instances = fields of Execution/Set, accessors of STATE, constructors, statics; non-trivial when matched to concrete items/sites"
LEVEL_NOTE = "necessary conditions only"
WITNESSES = ['C16RtIsPrivate', 'C06ModelNeedsFn', 'C06ModelNeedsSendSync']


def run(ctx):
    from . import guardvocab
    guardvocab.G2(ctx, scopes=('rt::thread::Set::clear', 'rt::execution::Execution::step', 'rt::lazy_static::Set::reset', 'rt::execution::Execution::new'))
    guardvocab.G3(ctx, scopes=('rt::thread::Set::clear', 'rt::execution::Execution::step', 'rt::lazy_static::Set::reset', 'rt::execution::Execution::new'))
    modelrules.I1(ctx)
    modelrules.I2(ctx)
    modelrules.I3(ctx)
    from . import pathrules
    pathrules.X4(ctx)
    P5(ctx)
