"""Helpers shared by the rule tables."""
from ..program import (Body, EventAnalysis, Guards, PEval, callee_path, calls_in, canon, const_int,
                       const_variant, exp_has, is_noise, operand_local, operand_place, path_matcher,
                       strip, subexprs, switch_targets_for, TOP)

T = "rt::thread::Thread"
SET = "rt::thread::Set"
EXEC = "rt::execution::Execution"


def need_fn(ctx, rule, key):
    f = ctx.prog.fn(key)
    if f is None:
        ctx.missing(rule, key, "function %s not found" % key)
        return None
    ctx.touch(key)
    return f


def call_sites(prog, callee_keys, noise=False):
    """All distinct (fn_key, bb) whose call resolves to one of callee_keys.
    Returns list of dict(fn, bb, inst, term, callee)."""
    if isinstance(callee_keys, str):
        callee_keys = {callee_keys}
    callee_keys = set(callee_keys)
    seen = {}
    for inst in prog.insts:
        body = prog.fns[inst.key].body
        for b, c in inst.calls.items():
            k = prog.callee_key(c)
            if k in callee_keys or c.get("via") in callee_keys:
                if (inst.key, b) in seen:
                    continue
                t = body.term(b)
                if not noise and is_noise(t):
                    continue
                seen[(inst.key, b)] = dict(fn=inst.key, bb=b, inst=inst.id, term=t, callee=c, callee_key=k)
    return list(seen.values())


def site_str(prog, fn_key, bb):
    fn = prog.fns[fn_key]
    t = fn.body.term(bb) if bb is not None and bb < fn.body.n else {}
    return "%s:%s %s bb%s" % (fn.file, t.get("ln", fn.line), fn_key, bb)


def enclosing_fn(key):
    """Strip ::{closure#n} suffixes; closures of an inlined private helper belong to the function it was inlined into."""
    from .. import normalize
    while True:
        i = key.rfind("::{closure#")
        if i < 0:
            break
        key = key[:i]
    for _ in range(4):
        if key in normalize.REPARENT:
            key = enclosing_fn(normalize.REPARENT[key])
        else:
            break
    return key


def mentions_field(e, adt, field):
    for x in subexprs(e):
        if x[0] == "field" and x[2] == field and (adt is None or x[3] == adt):
            return x
    return None


def mentions_call(e, path):
    for x in subexprs(e):
        if x[0] == "call" and (x[1] == path or x[1].endswith("::" + path)):
            return x
    return None


def arg_expr(body, term, k):
    return body.expr_of_operand(term["args"][k])


def controlling(body, bb):
    return Guards(body).controlling(bb)


def guard_atoms(body, bb):
    """[(expr, truth(True/False/None), raw_value, switch_bb)] for switch edges dominating bb,
    with `Not` folded into the truth value.  For a block of a closure that is the body of an iterator `for_each`,
    the conditions of the `.filter(..)` adaptors in front of it are included (`for x in it { if p(x) { f(x) } }` and
    `it.filter(p).for_each(f)` have the same guards)."""
    out = _guard_atoms_local(body, bb)
    try:
        out = out + _iterator_guards(body) + _find_guards(body, out)
    except Exception:
        pass
    return out


ITER_FIND = ("std::iter::Iterator::find", "std::iter::Iterator::position", "std::iter::Iterator::rposition", "std::iter::Iterator::find_map")


def some_conditions(prog, fn_key, depth=0):
    """Atoms (expr, truth) that hold whenever the Option-returning closure fn_key returns `Some(..)` (those common to all its
    Some-returning paths) - what `it.find_map(f)` guarantees about the element it found."""
    fn = prog.fns[fn_key]
    body = fn.body
    flow = {0}
    for _ in range(4):
        for l in list(flow):
            for d in body.defs().get(l, []):
                if d[0] == "stmt" and d[3]["k"] == "=" and d[3]["rv"]["k"] == "use":
                    op = d[3]["rv"]["op"]
                    pl = op.get("c") or op.get("m")
                    if pl is not None and not pl["p"] and pl["l"] > body.arg_count:
                        flow.add(pl["l"])
    paths = []
    for l in flow:
        for d in body.defs().get(l, []):
            if body.blocks[d[1]]["cleanup"]:
                continue
            if d[0] == "call":
                return []           # an Option produced by a call: unknown when it is Some
            if d[3]["k"] != "=":
                continue
            rv = d[3]["rv"]
            if rv["k"] == "agg" and rv.get("variant") == "Some":
                paths.append([(e, pol) for (e, pol, v, sb) in _guard_atoms_local(body, d[1]) if pol is not None])
            elif rv["k"] == "agg" and rv.get("variant") == "None":
                continue
            elif rv["k"] == "use":
                pl = rv["op"].get("c") or rv["op"].get("m")
                if pl is not None and not pl["p"] and pl["l"] in flow:
                    continue
                # `opt` passed through unchanged on this path (e.g. the kept arm of a desugared `filter`): Some iff it was Some
                paths.append([(e, pol) for (e, pol, v, sb) in _guard_atoms_local(body, d[1]) if pol is not None])
            else:
                return []
    if not paths:
        return []
    common = None
    for atoms in paths:
        ks = {(canon(e), pol) for (e, pol) in atoms}
        common = ks if common is None else (common & ks)
    return [(deep(prog, fn_key, e), pol) for (e, pol) in paths[0] if (canon(e), pol) in common]


def _find_guards(body, atoms):
    """`if let Some(x) = it.find(p)` (or position): on the Some edge the found element satisfies p, so p's true-conditions hold
    (`for x in it { if p(x) { ..; break } }` and `if let Some(x) = it.find(p) { .. }` are judged alike)."""
    prog = getattr(body.fn, "prog", None)
    if prog is None:
        return []
    out = []
    for (e, pol, val, sb) in atoms:
        if e[0] != "discr":
            continue
        c = strip(e[1])
        if c[0] != "call" or c[1] not in ITER_FIND or len(c[2]) < 2:
            continue
        names = dict((v, n) for (v, n) in (e[3] or []))
        is_some = (names.get(val) == "Some") if not isinstance(val, tuple) else (val[0] == "not" and [names.get(x) for x in val[1]] == ["None"])
        if not is_some:
            continue
        fa = strip(c[2][1])
        if fa[0] == "agg" and isinstance(fa[1], str) and fa[1] in prog.fns:
            conds = some_conditions(prog, fa[1]) if c[1].endswith("::find_map") else true_conditions(prog, fa[1])
            for (ce, cpol) in conds:
                out.append((ce, cpol, 1 if cpol else 0, sb))
    return out


ITER_FOR_EACH = ("std::iter::Iterator::for_each",)
ITER_FILTER = ("std::iter::Iterator::filter",)


def _iterator_guards(body):
    fn = body.fn
    prog = getattr(fn, "prog", None)
    if prog is None or fn.kind != "Closure" or body.promoted_index is not None:
        return []
    parent = fn.j.get("parent_fn")
    pf = prog.fns.get(parent)
    if pf is None:
        return []
    pb = pf.body
    out = []
    for b in range(pb.n):
        t = pb.term(b)
        if t["k"] != "call" or callee_path(t) not in ITER_FOR_EACH or len(t["args"]) < 2:
            continue
        a1 = strip(pb.expr_of_operand(t["args"][1]))
        if not (a1[0] == "agg" and a1[1] == fn.key):
            continue
        recv = pb.expr_of_operand(t["args"][0])
        for ce in calls_in(recv):
            if ce[1] in ITER_FILTER and len(ce[2]) >= 2:
                fa = strip(ce[2][1])
                if fa[0] == "agg" and isinstance(fa[1], str) and fa[1] in prog.fns:
                    for (e, pol) in true_conditions(prog, fa[1]):
                        out.append((e, pol, 1 if pol else 0, None))
        # the guards of the for_each call itself hold as well
        out += _guard_atoms_local(pb, b)
    return out


def true_conditions(prog, fn_key):
    """Atoms (expr, truth) that hold whenever the bool function / closure fn_key returns true (those common to all its
    true-returning paths); captured variables are resolved to the captured expressions."""
    fn = prog.fns[fn_key]
    body = fn.body
    paths = []
    for d in body.defs().get(0, []):
        if body.blocks[d[1]]["cleanup"]:
            continue
        atoms = [(e, pol) for (e, pol, v, sb) in _guard_atoms_local(body, d[1]) if pol is not None]
        if d[0] == "stmt" and d[3]["k"] == "=":
            e = body.expr_of_rvalue(d[3]["rv"])
            pol = True
            while e[0] == "unop" and e[1] == "Not":
                e = e[2]
                pol = not pol
            if e[0] == "const" and "int" in e[1]:
                if bool(e[1]["int"]) != pol:
                    continue            # returns false here
            else:
                atoms.append((e, pol))
                # what the returned comparison implies *in this body* (`obj == target` with `obj` assembled by a desugared
                # `.map(..)`: the payload equality and the guards of the Some definition) - the caller cannot expand a value
                # assembled in another body
                if e[0] == "call" and (e[1].endswith("PartialEq::eq") or e[1].endswith("PartialEq::ne")) and len(e[2]) == 2:
                    try:
                        for (ie, ipol, iv, isb) in _option_eq_implied(body, e, pol if e[1].endswith("::eq") else (not pol), 0):
                            if ipol is not None:
                                atoms.append((ie, ipol))
                    except Exception:
                        pass
        elif d[0] == "call":
            t = d[2]
            atoms.append((("call", callee_path(t), [body.expr_of_operand(a) for a in t["args"]], d[1]), True))
        paths.append(atoms)
    if not paths:
        return []
    common = None
    for atoms in paths:
        ks = {(canon(e), pol) for (e, pol) in atoms}
        common = ks if common is None else (common & ks)
    out = []
    for (e, pol) in paths[0]:
        if (canon(e), pol) in common:
            out.append((deep(prog, fn_key, e), pol))
    return out


def _guard_atoms_local(body, bb, depth=0):
    out = []
    for (sb, e, val) in Guards(body).controlling(bb):
        pol = None
        if isinstance(val, tuple):
            if val[1] == [0]:
                pol = True
            elif val[1] == [1]:
                pol = False
        elif val == 0:
            pol = False
        elif val == 1:
            pol = True
        while e[0] == "unop" and e[1] == "Not" and pol is not None:
            e = e[2]
            pol = not pol
        out.append((e, pol, val, sb))
        if e[0] == "phi" and pol is not None and depth < 2 and body.locals[e[1]]["ty"] == "bool":
            out += _phi_implied(body, e[1], pol, depth)
        if e[0] == "discr" and depth < 2 and strip(e[1])[0] == "phi" and e[2] == "std::option::Option" and not isinstance(val, tuple):
            nm = dict((v_, n_) for (v_, n_) in (e[3] or [])).get(val)
            if nm in ("Some", "None"):
                out += _option_known(body, strip(e[1])[1], nm == "Some", depth)
        if e[0] == "call" and pol is not None and depth < 2 and len(e[2]) == 1 and strip(e[2][0])[0] == "phi" and \
                (e[1].endswith("Option::<T>::is_some") or e[1].endswith("Option::<T>::is_none")):
            out += _option_known(body, strip(e[2][0])[1], pol if e[1].endswith("is_some") else (not pol), depth)
        if e[0] == "call" and pol is not None and depth < 2 and (e[1].endswith("PartialEq::eq") or e[1].endswith("PartialEq::ne")) \
                and len(e[2]) == 2:
            out += _option_eq_implied(body, e, pol if e[1].endswith("::eq") else (not pol), depth)
    return out


def _option_known(body, l, is_some, depth):
    """An Option assembled on several paths is known to be Some (resp. None): if exactly one definition builds that variant,
    the guards of that definition hold."""
    want = "Some" if is_some else "None"
    hits = []
    for d in body.defs().get(l, []):
        if body.blocks[d[1]]["cleanup"]:
            continue
        if d[0] != "stmt" or d[3]["k"] != "=":
            return []
        de = body.expr_of_rvalue(d[3]["rv"])
        if de[0] == "agg" and de[2] in ("Some", "None"):
            if de[2] == want:
                hits.append(d[1])
        else:
            return []
    if len(hits) != 1:
        return []
    return list(_guard_atoms_local(body, hits[0], depth + 1))


def deep_sources(body, e, depth=0):
    """value_sources applied recursively inside call arguments: every leaf expression a value may be computed from."""
    out = []
    for src in value_sources(body, e):
        out.append(src)
        if src[0] == "call" and depth < 3:
            for a in src[2]:
                if isinstance(a, tuple):
                    out += deep_sources(body, a, depth + 1)
        if src[0] == "agg" and depth < 3:
            for a in src[3]:
                if isinstance(a, tuple):
                    out += deep_sources(body, a, depth + 1)
    return out


def _option_eq_implied(body, e, equal, depth):
    """`<opt assembled on several paths> == Some(y)` is known true (the shape `x.map(f) == Some(y)` has after the combinator
    is desugared): the None definition is excluded, and for the definition `Some(v)` the atom `v == y` and the guards of
    that definition hold."""
    if not equal:
        return []
    a, b = strip(e[2][0]), strip(e[2][1])
    prog_ = getattr(body.fn, "prog", None)
    if prog_ is not None and ("upvar" in (a[0], b[0]) or any(x[0] == "upvar" for x in subexprs(a)) or any(x[0] == "upvar" for x in subexprs(b))):
        # the value compared with was hoisted out of the closure: look at what was captured
        a = strip(deep(prog_, body.fn.key, a)) if a[0] != "phi" else a
        b = strip(deep(prog_, body.fn.key, b)) if b[0] != "phi" else b
    if a[0] != "phi":
        a, b = b, a
    if a[0] != "phi" or not (b[0] == "agg" and b[2] == "Some" and b[3]):
        return []
    somes = []
    for d in body.defs().get(a[1], []):
        if body.blocks[d[1]]["cleanup"]:
            continue
        if d[0] != "stmt" or d[3]["k"] != "=":
            return []
        de = body.expr_of_rvalue(d[3]["rv"])
        if de[0] == "agg" and de[2] == "None":
            continue
        if de[0] == "agg" and de[2] == "Some" and de[3]:
            somes.append((d[1], de[3][0]))
        else:
            return []
    if len(somes) != 1:
        return []
    blk, v = somes[0]
    out = list(_guard_atoms_local(body, blk, depth + 1))
    out.append((("call", "std::cmp::PartialEq::eq", [v, b[3][0]], blk), True, 1, blk))
    return out


def _phi_implied(body, l, truth, depth):
    """A bool flag assembled on several paths (`let w = match x { Some(y) => p(y), None => false }`) is known to be `truth`:
    if all but one of its definitions assign the opposite constant, the remaining definition's value is `truth` and the
    guards of that definition hold."""
    live = []
    for d in body.defs().get(l, []):
        if body.blocks[d[1]]["cleanup"]:
            continue
        if d[0] == "stmt" and d[3]["k"] == "=":
            e = body.expr_of_rvalue(d[3]["rv"])
            if e[0] == "const" and "int" in e[1]:
                if bool(e[1]["int"]) != truth:
                    continue
                live.append((d[1], None))
            else:
                live.append((d[1], e))
        elif d[0] == "call":
            t = d[2]
            live.append((d[1], ("call", callee_path(t), [body.expr_of_operand(a) for a in t["args"]], d[1])))
        else:
            return []
    if len(live) != 1:
        return []
    b, e = live[0]
    out = list(_guard_atoms_local(body, b, depth + 1))
    if e is not None:
        pol = truth
        while e[0] == "unop" and e[1] == "Not":
            e = e[2]
            pol = not pol
        out.append((e, pol, 1 if pol else 0, b))
    return out


def unreachable_if(body, bb, assume):
    """True iff block bb cannot be reached from entry under `assume` (path-sensitive)."""
    reached, _ = PEval(body, assume).run()
    return bb not in reached


def assume_calls(table):
    """Build a PEval assumption from {callee path suffix: truth}: switches on the (possibly negated)
    result of such a call only take the edge for that truth value."""
    def a(body, b, t, e):
        pol = True
        while e[0] == "unop" and e[1] == "Not":
            e = e[2]
            pol = not pol
        if e[0] != "call":
            return None
        for k, truth in table.items():
            if e[1] == k or e[1].endswith("::" + k):
                return switch_targets_for(t, truth if pol else (not truth))
        return None
    return a


def variant_of_discr_value(prog, discr_expr, val):
    """Map a switch value on discr(e) to variant name(s)."""
    adt = discr_expr[2]
    inline = discr_expr[3]
    table = {}
    if inline:
        table = {v: n for v, n in inline}
    elif adt in prog.adts:
        for v in prog.adts[adt]["variants"]:
            if "discr" in v:
                table[v["discr"]] = v["name"]
    return table.get(val)


def all_variants(prog, discr_expr):
    adt = discr_expr[2]
    inline = discr_expr[3]
    if inline:
        return [n for _, n in inline]
    if adt in prog.adts:
        return [v["name"] for v in prog.adts[adt]["variants"]]
    return []


def assume_discr(subject_canon, variant_value):
    """PEval assumption: every switch on discr(<subject>) takes only the edge for `variant_value`."""
    def a(body, b, t, e):
        if e[0] == "discr" and canon(e[1]) == subject_canon:
            tgt = None
            for (val, tb) in t["targets"]:
                if val == variant_value:
                    tgt = tb
            return {tgt if tgt is not None else t["otherwise"]}
        return None
    return a


def dispatch_table(prog, inst_id, subject_canon, ea, variants):
    """A5/A7: for each (value, name) of an enum-typed subject, what the function does when the subject has
    that variant: events that may occur (through callees), and whether it can return normally.
    `ea` must be a solved EventAnalysis whose reachable set includes inst_id."""
    body = prog.body_of(inst_id)
    out = {}
    found = False
    for b in range(body.n):
        t = body.term(b)
        if t["k"] == "switch":
            e = body.expr_of_operand(t["op"])
            if e[0] == "discr" and canon(e[1]) == subject_canon:
                found = True
    if not found:
        return None
    for (val, name) in variants:
        # (the variant decides `match subject` and `subject == Enum::V` tests alike)
        reached, _ = PEval(body, assume_enum_value(subject_canon, val, name)).run()
        evs = set()
        returns = False
        for b in reached:
            t = body.term(b)
            evs |= set(ea._site_may(inst_id, b, t))
            if t["k"] == "return":
                returns = True
        out[name] = (frozenset(evs), returns)
    return out


ORDERINGS = [(0, "Relaxed"), (1, "Release"), (2, "Acquire"), (3, "AcqRel"), (4, "SeqCst")]


def ordering_arg(body, term, k):
    """The Ordering passed as argument k: ('const', variant) | ('param', name) | ('expr', canon)."""
    e = strip(body.expr_of_operand(term["args"][k]))
    if e[0] == "agg" and e[1] == "std::sync::atomic::Ordering":
        return ("const", e[2])
    if e[0] == "const" and "variant" in e[1]:
        return ("const", e[1]["variant"])
    if e[0] == "param":
        return ("param", e[2])
    if e[0] == "upvar":
        return ("param", e[2])
    return ("expr", canon(e))


def blocks_assigning_ret(body, pred):
    """Blocks with a statement `_0 = <rv>` for which pred(rv_expr) holds."""
    out = []
    for b, blk in enumerate(body.blocks):
        for s in blk["stmts"]:
            if s["k"] == "=" and s["lhs"]["l"] == 0 and not s["lhs"]["p"]:
                e = body.expr_of_rvalue(s["rv"])
                if pred(e):
                    out.append(b)
    return out


def ret_const_blocks(body, truth):
    """Blocks in which the returned bool is set to the constant `truth`, directly or through a temporary that is copied into the
    return place (`_5 = true; _0 = _5`, the shape an inlined predicate leaves behind)."""
    flow = {0}
    for _ in range(4):
        for l in list(flow):
            for d in body.defs().get(l, []):
                if d[0] == "stmt" and d[3]["k"] == "=" and d[3]["rv"]["k"] == "use":
                    m = operand_local(d[3]["rv"]["op"])
                    op = d[3]["rv"]["op"]
                    pl = op.get("c") or op.get("m")
                    if m is not None and pl is not None and not pl["p"] and m > body.arg_count:
                        flow.add(m)
    out = []
    for b, blk in enumerate(body.blocks):
        if blk["cleanup"]:
            continue
        for st in blk["stmts"]:
            if st["k"] == "=" and not st["lhs"]["p"] and st["lhs"]["l"] in flow:
                e = body.expr_of_rvalue(st["rv"])
                if e[0] == "const" and e[1].get("ty") == "bool" and e[1].get("int") == (1 if truth else 0):
                    out.append(b)
    return out


def is_const_bool(e, truth):
    return e[0] == "const" and e[1].get("int") == (1 if truth else 0) and e[1].get("ty") == "bool"


def feeding_calls(body, op, depth=0):
    """Call paths whose results can determine the value of operand `op` (through phi temporaries of `||`/`&&`/
    `matches!` and the branch conditions selecting among their definitions)."""
    e = body.expr_of_operand(op)
    out = set(c[1] for c in calls_in(e))
    consts = set()
    for x in subexprs(e):
        if x[0] == "const" and "int" in x[1]:
            consts.add(x[1]["int"])
        if x[0] == "phi" and depth < 3:
            l = x[1]
            for d in body.defs().get(l, []):
                if d[0] == "stmt" and d[3]["k"] == "=":
                    de = body.expr_of_rvalue(d[3]["rv"])
                    out |= set(c[1] for c in calls_in(de))
                    if de[0] == "const" and "int" in de[1]:
                        consts.add(de[1]["int"])
                    for (ge, pol, val, sb) in guard_atoms(body, d[1]):
                        out |= set(c[1] for c in calls_in(ge))
                elif d[0] == "call":
                    out.add(callee_path(d[2]))
                    for (ge, pol, val, sb) in guard_atoms(body, d[1]):
                        out |= set(c[1] for c in calls_in(ge))
    return out, consts


def true_return_conditions(body):
    """Guards (canon expr, variant-or-value) under which the function assigns `_0 = true`."""
    out = []
    for b in blocks_assigning_ret(body, lambda e: is_const_bool(e, True)):
        conds = []
        for (e, pol, val, sb) in guard_atoms(body, b):
            conds.append((e, pol, val))
        out.append((b, conds))
    return out


def panic_sites(prog, fn_key, text=None):
    """Blocks of fn that call panic_fmt / panic with a message containing `text`."""
    fn = prog.fns[fn_key]
    body = fn.body
    out = []
    for b in range(body.n):
        t = body.term(b)
        if t["k"] != "call" or t.get("target") is not None:
            continue
        p = callee_path(t)
        if not (p.startswith("core::panicking::") or p.startswith("std::rt::begin_panic")):
            continue
        msg = canon(body.expr_of_operand(t["args"][0])) if t["args"] else ""
        if text is None or text in msg:
            out.append((b, msg))
    return out


def assume_expr(pred):
    """PEval assumption from pred(expr) -> True/False/None evaluated on (Not-stripped) boolean switch operands."""
    def a(body, b, t, e):
        pol = True
        while e[0] == "unop" and e[1] == "Not":
            e = e[2]
            pol = not pol
        r = pred(e)
        if r is None:
            return None
        return switch_targets_for(t, r if pol else (not r))
    return a


def assume_all(*assumptions):
    def a(body, b, t, e):
        for x in assumptions:
            if x is None:
                continue
            r = x(body, b, t, e)
            if r is not None:
                return r
        return None
    return a


def is_field(e, adt, field):
    e = strip(e)
    return e[0] == "field" and e[2] == field and (adt is None or e[3] == adt)


def field_cmp(op, adt_a, fa, adt_b=None, fb=None, const=None):
    """Predicate for a binop `X.fa <op> Y.fb` / `X.fa <op> const`."""
    def p(e):
        if e[0] != "binop" or e[1] != op:
            return False
        if not mentions_field(e[2], adt_a, fa):
            return False
        if fb is not None:
            return mentions_field(e[3], adt_b, fb) is not None
        if const is not None:
            return canon(e[3]) == str(const)
        return True
    return p


def every_path_passes(body, blocks, start=0):
    """Every normal path from `start` to a return passes through one of `blocks`."""
    blocks = set(blocks)
    if start in blocks:
        return True
    seen = {start}
    dq = [start]
    while dq:
        b = dq.pop()
        if body.term(b)["k"] == "return":
            return False
        for s in body.succs(b):
            if s not in seen and s not in blocks:
                seen.add(s)
                dq.append(s)
    return True


def field_writes(prog, fn_key, adt, field, kinds=("assign",)):
    return [w for w in prog.writers().get((adt, field), []) if w["fn"] == fn_key and w["kind"] in kinds and w["exact"]]


def rv_expr(prog, w):
    body = prog.fns[w["fn"]].body
    st = w["stmt"]
    if w["idx"] == "term":
        return ("call", callee_path(st), [body.expr_of_operand(a) for a in st["args"]], w["bb"])
    if st["k"] == "=":
        return body.expr_of_rvalue(st["rv"])
    return ("other", st["k"])


def guard_variants(prog, discr_expr, val):
    """Set of variant names a guard (discr(e), val) admits; val may be ('not', [values])."""
    allv = all_variants(prog, discr_expr)
    if isinstance(val, tuple) and val[0] == "not":
        excl = {variant_of_discr_value(prog, discr_expr, v) for v in val[1]}
        return set(allv) - excl
    v = variant_of_discr_value(prog, discr_expr, val)
    return {v} if v else set()


def possible_returns(prog, fn_key, table, depth=0):
    """Possible truth values ({True, False, None=unknown}) returned by a local bool function under the assumed results
    `table` = {callee path: bool} of the predicates it calls (one level of local helper calls is followed)."""
    fn = prog.fn(fn_key)
    if fn is None:
        return {None}
    body = fn.body

    def assume(body_, b, t, e):
        pol = True
        while e[0] == "unop" and e[1] == "Not":
            e = e[2]
            pol = not pol
        if e[0] != "call":
            return None
        for k, truth in table.items():
            if e[1] == k or e[1].endswith("::" + k):
                return switch_targets_for(t, truth if pol else (not truth))
        if depth < 2 and e[1] in prog.fns:
            r = possible_returns(prog, e[1], table, depth + 1)
            if r == {True}:
                return switch_targets_for(t, pol)
            if r == {False}:
                return switch_targets_for(t, not pol)
        return None
    reached, _ = PEval(body, assume).run()
    out = set()
    for d in body.defs().get(0, []):
        if d[1] not in reached:
            continue
        if d[0] == "stmt" and d[3]["k"] == "=":
            e = body.expr_of_rvalue(d[3]["rv"])
            pol = True
            while e[0] == "unop" and e[1] == "Not":
                e = e[2]
                pol = not pol
            if e[0] == "const" and "int" in e[1]:
                out.add(bool(e[1]["int"]) == pol)
            elif e[0] == "call":
                out |= _call_truth(prog, e[1], table, depth, pol, e)
            else:
                out.add(None)
        elif d[0] == "call":
            out |= _call_truth(prog, callee_path(d[2]), table, depth, True)
    return out or {None}


TRANSPARENT = {"rt::execution", "rt::synchronize"}   # wrappers returning their closure's result (validated by rule P2-wrapper)


def _closure_arg(e):
    for a in e[2]:
        a = strip(a)
        if a[0] == "agg" and isinstance(a[1], str) and "{closure#" in a[1]:
            return a[1]
    return None


def _call_truth(prog, path, table, depth, pol, expr=None):
    if path in TRANSPARENT and expr is not None and depth < 3:
        ck = _closure_arg(expr)
        if ck and ck in prog.fns:
            r = possible_returns(prog, ck, table, depth + 1)
            return {(x if pol else (not x)) if x is not None else None for x in r}
    for k, truth in table.items():
        if path == k or path.endswith("::" + k):
            return {truth if pol else (not truth)}
    if depth < 2 and path in prog.fns:
        r = possible_returns(prog, path, table, depth + 1)
        return {(x if pol else (not x)) if x is not None else None for x in r}
    return {None}


def assume_scenario(prog, table):
    """PEval assumption: switches on (negated) calls whose result is determined by `table`, following local bool helpers."""
    def a(body, b, t, e):
        pol = True
        while e[0] == "unop" and e[1] == "Not":
            e = e[2]
            pol = not pol
        if e[0] != "call":
            return None
        r = _call_truth(prog, e[1], table, 0, pol, e)
        if r == {True}:
            return switch_targets_for(t, True)
        if r == {False}:
            return switch_targets_for(t, False)
        return None
    return a


def is_std_collection_call(key, method):
    """`method` of any std collection (HashMap, BTreeMap, HashSet, VecDeque, Vec ...): rules must not depend on which
    container type the repository uses."""
    return (key.startswith("std::collections::") or key.startswith("std::vec::Vec::<") or key.startswith("alloc::")) and \
        key.endswith("::" + method)


def assume_collection_calls(table):
    """Like assume_calls, keyed by collection method name (any std collection type)."""
    def a(body, b, t, e):
        pol = True
        while e[0] == "unop" and e[1] == "Not":
            e = e[2]
            pol = not pol
        if e[0] != "call":
            return None
        for m, truth in table.items():
            if is_std_collection_call(e[1], m):
                return switch_targets_for(t, truth if pol else (not truth))
        return None
    return a


def loop_continues_after(prog, inst_id, site_bb):
    """The call at site_bb sits in a `for` loop; after it, control must come back to *that* loop's iterator `next`
    (no `break` / early `return` that skips the remaining elements).  Returns (ok, detail)."""
    body = prog.body_of(inst_id)
    nexts = [b for (b, t, c) in prog.sites(inst_id) if callee_path(t) == "std::iter::Iterator::next"]
    dom = body.dominators()
    inner = [n for n in nexts if n in dom.get(site_bb, ())]
    if not inner:
        if is_for_each_body(prog, prog.insts[inst_id].key):
            return True, "for_each visits every element"
        return False, "site is not inside a loop"
    # innermost = the dominating `next` closest to the site (dominated by all other dominating nexts)
    loop_next = max(inner, key=lambda n: len(dom[n]))
    seen = set()
    dq = list(body.succs(site_bb))
    while dq:
        x = dq.pop()
        if x in seen:
            continue
        seen.add(x)
        if x == loop_next:
            continue
        t = body.term(x)
        if x in nexts:
            return False, "leaves the loop for another iterator (break) at bb%d" % x
        if t["k"] == "return":
            return False, "returns from inside the loop at bb%d" % x
        dq.extend(body.succs(x))
    return True, ""


ORD_TY = "std::sync::atomic::Ordering"


def params_of_type(fn, ty):
    """1-based local indices of the parameters of `fn` whose type is `ty` (or a reference to it), in declaration order."""
    out = []
    b = fn.body
    for l in range(1, b.arg_count + 1):
        t = b.locals[l]["ty"]
        if t == ty or t == "&" + ty or t == "&mut " + ty:
            out.append(l)
    return out


def param_name(fn, ty, k=0):
    """Name of the k-th parameter of type `ty` in the current tree (rules must not hard-code local names)."""
    ps = params_of_type(fn, ty)
    if k < len(ps):
        return fn.body.local_name(ps[k]) or "_%d" % ps[k]
    return None


def ordering_ordinal(prog, fn_key, e):
    """If expression `e` is (a copy of) an Ordering-typed parameter of fn_key - directly, or captured by a closure from the
    enclosing function - return its ordinal among the Ordering-typed parameters of the function that declares it."""
    e = strip(e)
    fn = prog.fns[fn_key]
    if e[0] == "param":
        ps = params_of_type(fn, ORD_TY)
        return ("ord", ps.index(e[1])) if e[1] in ps else ("param", e[2])
    if e[0] == "upvar":
        # captured variable: same name in the enclosing function
        parent = fn.j.get("parent_fn")
        while parent and parent in prog.fns:
            pf = prog.fns[parent]
            for l in range(1, pf.body.arg_count + 1):
                if pf.body.local_name(l) == e[2] and l in params_of_type(pf, ORD_TY):
                    return ("ord", params_of_type(pf, ORD_TY).index(l))
            if pf.kind != "Closure":
                break
            parent = pf.j.get("parent_fn")
        return ("upvar", e[2])
    if e[0] == "agg" and e[1] == ORD_TY:
        return ("const", e[2])
    if e[0] == "const" and "variant" in e[1]:
        return ("const", e[1]["variant"])
    return ("expr", canon(e))


def expand_allowed(prog, allowed, module_prefix):
    """Close a who-may-write allow-list under private helpers: a function of `module_prefix` all of whose call sites lie in
    already allowed functions inherits the permission (extracting a helper is not a violation)."""
    allowed = set(allowed)
    changed = True
    while changed:
        changed = False
        for k, fn in prog.fns.items():
            if k in allowed or fn.kind == "Closure" or not k.startswith(module_prefix):
                continue
            cs = call_sites(prog, k)
            if cs and all(enclosing_fn(c["fn"]) in allowed for c in cs):
                allowed.add(k)
                changed = True
    return allowed


def body_fn_with(prog, root_key, callee_key, module_prefix):
    """The function that actually contains the call to `callee_key`: root_key itself, or a private helper (same module) it
    delegates to.  Lets rules about the *body* of an anchored function survive an extracted helper."""
    seen = set()
    dq = [root_key]
    while dq:
        k = dq.pop(0)
        if k in seen or k not in prog.fns:
            continue
        seen.add(k)
        inst = prog.ident(k)
        keys = [prog.callee_key(c) for (b, t, c) in prog.sites(inst)]
        if callee_key in keys:
            return k
        for kk in keys:
            if kk.startswith(module_prefix) and prog.fns.get(kk) is not None and prog.fns[kk].kind != "Closure":
                dq.append(kk)
    return root_key


# ---------------------------------------------------------------------- expression normalisation across function boundaries

def _map_expr(e, f):
    """Rebuild expression tree applying f bottom-up."""
    if not isinstance(e, tuple):
        return e
    out = []
    for x in e:
        if isinstance(x, tuple):
            out.append(_map_expr(x, f))
        elif isinstance(x, list):
            out.append([_map_expr(y, f) if isinstance(y, tuple) else y for y in x])
        else:
            out.append(x)
    return f(tuple(out))


def _simple_fn(prog, key):
    fn = prog.fns.get(key)
    if fn is None or fn.kind == "Closure":
        return None
    b = fn.body
    if b.n > 8:
        return None
    for i in range(b.n):
        if b.blocks[i]["cleanup"]:
            continue
        if b.term(i)["k"] == "switch":
            return None
    return fn


def closure_capture_expr(prog, closure_key, idx):
    """Expression (in the enclosing function) of the value captured as upvar #idx of a closure."""
    fn = prog.fns.get(closure_key)
    parent = fn.j.get("parent_fn") if fn else None
    if not parent or parent not in prog.fns:
        return None, None
    pb = prog.fns[parent].body
    for blk in pb.blocks:
        for s in blk["stmts"]:
            if s["k"] == "=" and s["rv"]["k"] == "agg" and s["rv"].get("closure") == closure_key:
                ops = s["rv"]["ops"]
                if idx < len(ops):
                    return parent, strip(pb.expr_of_operand(ops[idx]))
    return parent, None


NO_INLINE = ("rt::object::", "rt::atomic::index", "rt::atomic::range", "rt::execution", "rt::synchronize", "rt::branch",
             "rt::thread::Set::", "rt::vv::", "rt::path::Path::", "rt::location::")     # anchors the rules talk about: never inlined


def deep(prog, fn_key, e, depth=0):
    """Normalise an expression of fn_key: captured variables are replaced by the captured expression of the enclosing function,
    calls to small straight-line local helpers are inlined.  Makes expression rules robust against `extract helper`,
    `inline helper` and `hoist out of the closure` refactorings."""
    if depth > 4 or not isinstance(e, tuple):
        return e

    def f(x):
        if x[0] == "upvar":
            parent, pe = closure_capture_expr(prog, fn_key, x[1])
            if pe is not None:
                return deep(prog, parent, pe, depth + 1)
            return x
        if x[0] == "call" and x[1] in prog.fns and not x[1].startswith(NO_INLINE):
            cf = _simple_fn(prog, x[1])
            if cf is not None:
                r = cf.body.expr_of_local(0)
                args = x[2]

                def sub(y):
                    if y[0] == "param" and 1 <= y[1] <= len(args):
                        return args[y[1] - 1]
                    return y
                return deep(prog, x[1], _map_expr(r, sub), depth + 1) if depth < 3 else _map_expr(r, sub)
        return x
    return _map_expr(e, f)


def value_sources(body, e, depth=0):
    """All expressions a value may come from, expanding phi (multiply assigned) temporaries into their definitions."""
    e = strip(e)
    if e[0] == "phi" and depth < 4:
        out = []
        for d in body.defs().get(e[1], []):
            if d[0] == "stmt" and d[3]["k"] == "=":
                out += value_sources(body, body.expr_of_rvalue(d[3]["rv"]), depth + 1)
            elif d[0] == "call":
                out.append(("call", callee_path(d[2]), [body.expr_of_operand(a) for a in d[2]["args"]], d[1]))
        return out
    return [e]


def first_seen_recorders(prog):
    """Methods of rt::atomic::FirstSeen that record an observation (write the per-thread array), whatever they are called."""
    out = set()
    for w in prog.writers().get(("rt::atomic::FirstSeen", "0"), []):
        if w["kind"] in ("assign", "borrow_mut") and prog.fns[w["fn"]].j.get("impl_adt") == "rt::atomic::FirstSeen":
            out.add(enclosing_fn(w["fn"]))
    return out


def arg_expr_call(body, term):
    """The call as an expression node ('call', path, [arg exprs], bb)."""
    return ("call", callee_path(term), [body.expr_of_operand(a) for a in term["args"]], None)


def switch_edges_by_variant(prog, term, discr_expr):
    """{variant name: target block} for a switch on discr(e), including the `otherwise` edge."""
    out = {}
    explicit = set()
    for (v, tb) in term["targets"]:
        nm = variant_of_discr_value(prog, discr_expr, v)
        if nm:
            out[nm] = tb
            explicit.add(nm)
    for nm in all_variants(prog, discr_expr):
        if nm not in explicit:
            out[nm] = term["otherwise"]
    return out


def module_reach(prog, root_key, module_prefix):
    """Function keys (incl. closures) of `module_prefix` reachable from root_key."""
    r = prog.ident(root_key)
    if r is None:
        return set()
    return {prog.insts[i].key for i in prog.reach([r]) if prog.insts[i].key.startswith(module_prefix)}


def assume_enum_value(subject_canon, value, variant_name):
    """The enum-typed subject has the given variant: decides `match subject` (discriminant switches) and
    `subject == Enum::V` / `!=` comparisons (derived PartialEq against a constant variant)."""
    d = assume_discr(subject_canon, value)

    def a(body, b, t, e):
        r = d(body, b, t, e)
        if r is not None:
            return r
        pol = True
        while e[0] == "unop" and e[1] == "Not":
            e = e[2]
            pol = not pol
        if e[0] == "call" and (e[1].endswith("PartialEq::eq") or e[1].endswith("PartialEq::ne")) and len(e[2]) == 2:
            x, y = strip(e[2][0]), strip(e[2][1])
            if canon(x) != subject_canon:
                x, y = y, x
            if canon(x) == subject_canon:
                cv = None
                if y[0] == "agg" and not y[3]:
                    cv = y[2]
                elif y[0] == "const" and "variant" in y[1]:
                    cv = y[1]["variant"]
                if cv is not None:
                    truth = (cv == variant_name)
                    if e[1].endswith("::ne"):
                        truth = not truth
                    return switch_targets_for(t, truth if pol else (not truth))
        return None
    return a


def assume_option_field(adt, field, some):
    """PEval assumption: the Option-typed field `adt.field` is Some (some=True) / None, in whatever way it is tested:
    is_some() / is_none() calls on it, or a match / if-let on its discriminant."""
    def a(body, b, t, e):
        pol = True
        while e[0] == "unop" and e[1] == "Not":
            e = e[2]
            pol = not pol
        if e[0] == "call" and e[2] and is_field(e[2][0], adt, field):
            if e[1].endswith("Option::<T>::is_some"):
                return switch_targets_for(t, some if pol else (not some))
            if e[1].endswith("Option::<T>::is_none"):
                return switch_targets_for(t, (not some) if pol else some)
        if e[0] == "discr" and is_field(e[1], adt, field):
            want = 1 if some else 0
            tgt = None
            for (val, tb) in t["targets"]:
                if val == want:
                    tgt = tb
            return {tgt if tgt is not None else t["otherwise"]}
        return None
    return a


def is_for_each_body(prog, fn_key):
    """fn_key is a closure handed to Iterator::for_each by its parent function."""
    fn = prog.fns.get(fn_key)
    if fn is None or fn.kind != "Closure":
        return False
    pf = prog.fns.get(fn.j.get("parent_fn"))
    if pf is None:
        return False
    pb = pf.body
    for b in range(pb.n):
        t = pb.term(b)
        if t["k"] == "call" and callee_path(t) in ITER_FOR_EACH and len(t["args"]) >= 2:
            a1 = strip(pb.expr_of_operand(t["args"][1]))
            if a1[0] == "agg" and a1[1] == fn_key:
                return True
    return False


# ---- re-initialisation writes -------------------------------------------------------------------------------------
REINIT_FNS = {SET + "::clear", SET + "::new", EXEC + "::step", EXEC + "::new"}


def ctor_field_value(prog, adt, field, ctor_fn):
    """canon() of the value the constructor function gives `adt.field` (None if not found)."""
    for w in prog.writers().get((adt, field), []):
        if w["kind"] == "construct" and enclosing_fn(w["fn"]) == ctor_fn:
            return canon(prog.fns[w["fn"]].body.expr_of_operand(w["op"]))
    return None


def is_reinit_write(prog, w, adt, field, ctor_fn):
    """The write `w` (entry of prog.writers()) re-initialises adt.field between iterations: it sits in one of the
    per-iteration reset functions (after helper inlining) and stores exactly the value the constructor stores (or clears a
    collection the constructor creates empty).  Such a write is the in-place spelling of `*slot = Adt::new(..)`."""
    if enclosing_fn(w["fn"]) not in REINIT_FNS:
        return False
    want = ctor_field_value(prog, adt, field, ctor_fn)
    if want is None:
        return False
    if w["kind"] == "assign" and w.get("exact"):
        return canon(rv_expr(prog, w)) == want
    if w["kind"] == "borrow_mut":
        cons = prog.borrow_consumer(w["fn"], w["bb"], w["idx"])
        return bool(cons) and cons[2] == 0 and is_std_collection_call(callee_path(cons[1]), "clear") and "::new(" in want
    return False


def expanded_guard_atoms(prog, fn_key, bb):
    """guard_atoms of a block plus, for every guard that is a call of a local bool predicate known to be true there, the atoms
    that hold whenever that predicate returns true (`if s.might_spur()` contributes `s.spurious` and `!s.did_spur`): a rule
    stated on the fields is then indifferent to whether the predicate is a helper or written in place."""
    body = prog.fns[fn_key].body
    out = [(deep(prog, fn_key, e), pol) for (e, pol, v, sb) in guard_atoms(body, bb) if pol is not None]
    extra = []
    for (e, pol) in out:
        if pol is True and e[0] == "call" and e[1] in prog.fns and prog.fns[e[1]].body.locals[0]["ty"] == "bool":
            extra += true_conditions(prog, e[1])
    return out + extra


def mentions_field_deep(body, e, adt, field, depth=0):
    """mentions_field, also looking through multiply-assigned temporaries (phi) the expression is built from."""
    if mentions_field(e, adt, field) is not None:
        return True
    if depth >= 3:
        return False
    for x in subexprs(e):
        if x[0] == "phi":
            for src in value_sources(body, x):
                if src is not x and mentions_field_deep(body, src, adt, field, depth + 1):
                    return True
    return False


def variant_test(e):
    """If e is `x == Variant` / `x != Variant` (derived PartialEq against a field-less variant constant): (x, 'Variant', is_eq)."""
    if e[0] != "call" or len(e[2]) != 2 or not (e[1].endswith("PartialEq::eq") or e[1].endswith("PartialEq::ne")):
        return None
    for i in (0, 1):
        c = strip(e[2][i])
        name = None
        if c[0] == "agg" and c[2] and not c[3]:
            name = c[2]
        elif c[0] == "const" and c[1].get("variant"):
            name = c[1]["variant"]
        if name:
            return strip(e[2][1 - i]), name, e[1].endswith("::eq")
    return None
