"""C20 - block_on / AtomicWaker (feature `futures`; structural clauses only)."""
from . import g_state
from .C08 import W4, _notify_new_args
from .common import *

EXPLANATION = ("Decides on the MIR of the current tree (configurations with the `futures` feature): in block_on every path from Poll::Pending back "
               "to poll passes through Notify::wait and Ready returns the value (F1); the waker vtable - clone: +1 handle, no notify; wake: "
               "notify and -1 handle; wake_by_ref: notify, +-0; drop: -1 - all through the modelled loom Arc (F2); block_on's Notify may spur "
               "once (W5 row) with the single-spurious discipline of Notify (W4); AtomicWaker::register / take_waker lock pairing on every "
               "path, the failed-registration path wakes the new waker itself and yields, wake() wakes only what take_waker returned (F3). "
               "Absence of lost wake-ups over all interleavings is not decided."
               " Notify::wait consume/acquire pairing (W4); G0/G1 cross-check notify/wait.")
RULE_TEXT = "rule instances = poll-loop paths, vtable entries, lock pairings; non-trivial when matched to concrete MIR sites"
LEVEL_NOTE = "necessary conditions only; extracted only with feature `futures`"
CONFIGS_QUICK = ["all"]
CONFIGS_THOROUGH = ["all", "futures"]

ARC_DROP = "<sync::arc::Arc<T> as std::ops::Drop>::drop"
NOTIFY = "rt::notify::Notify::notify"


def F1(ctx):
    """block_on: Pending -> Notify::wait -> poll again; Ready(v) -> return v; a single Notify backs waker and wait."""
    prog = ctx.prog
    fk = "future::block_on"
    fn = need_fn(ctx, "F1", fk)
    if fn is None:
        return
    body = fn.body
    inst = prog.ident(fk)
    polls = [b for (b, t, c) in prog.sites(inst) if callee_path(t) == "std::future::Future::poll"]
    waits = [b for (b, t, c) in prog.sites(inst) if prog.callee_key(c) == "rt::notify::Notify::wait"]
    if len(polls) != 1 or not waits:
        ctx.bad("F1", fk, "block_on lost its poll/wait loop (polls=%d waits=%d)" % (len(polls), len(waits)), fn.loc(), detail="shape")
        return
    pb = polls[0]
    # from the Pending edge, every path back to poll passes a wait
    sw = None
    for b in range(body.n):
        t = body.term(b)
        if t["k"] == "switch":
            e = body.expr_of_operand(t["op"])
            if e[0] == "discr" and mentions_call(e, "std::future::Future::poll"):
                sw = (b, t, e)
                break
    if sw is None:
        ctx.missing("F1", fk, "no dispatch on the poll result")
        return
    b, t, e = sw
    edges = switch_edges_by_variant(prog, t, e)
    pend = [edges["Pending"]] if "Pending" in edges else []
    ready = [edges["Ready"]] if "Ready" in edges else []
    ok_loop = False
    if pend:
        seen = set()
        dq = [pend[0]]
        back_without_wait = False
        while dq:
            x = dq.pop()
            if x in seen or x in waits:
                continue
            seen.add(x)
            if x == pb:
                back_without_wait = True
                break
            dq.extend(body.succs(x))
        reaches = pb in body.reachable(pend[0])
        ok_loop = reaches and not back_without_wait
    ok_ready = False
    if ready:
        r = body.reachable(ready[0])
        ok_ready = any(body.term(x)["k"] == "return" for x in r) and pb not in r
        # the returned value is the Ready payload
        e0 = canon(body.expr_of_local(0))
        ok_ready = ok_ready and "as Ready.0" in e0
    if ok_loop and ok_ready:
        ctx.ok("F1", fk, "Pending -> notify.wait() -> poll again; Ready(v) -> return v", [site_str(prog, fk, pb), site_str(prog, fk, waits[0])])
    else:
        ctx.bad("F1", fk, "block_on must re-poll only after Notify::wait (busy re-polling hides lost wake-ups) and return the Ready value "
                "(loop=%s ready=%s)" % (ok_loop, ok_ready), fn.loc())
    # waits on the same Notify the waker points to
    args = _notify_new_args(prog, fk)
    if len(args) == 1:
        ctx.ok("F1", fk + ":one-notify", "a single Notify backs both the waker and the wait", [site_str(prog, fk, args[0][0])])
    else:
        ctx.bad("F1", fk, "block_on must use one Notify for waker and wait (found %d)" % len(args), fn.loc(), detail="one-notify")


def _handle_effects(prog, fk):
    """(#from_raw, #clones, #handle drops on normal paths, #notify) of a waker vtable function (following local helpers)."""
    inst = prog.ident(fk)
    body = prog.fns[fk].body
    raw = cl = dr = nt = 0
    for (b, t, c) in prog.sites(inst):
        if body.blocks[b]["cleanup"]:
            continue
        k = prog.callee_key(c)
        if k == "sync::arc::Arc::<T>::from_raw":
            raw += 1
        elif k == "<std::mem::ManuallyDrop<T> as std::clone::Clone>::clone" and c.get("gargs", "").startswith("[sync::arc::Arc<"):
            cl += 1
        elif k == "<sync::arc::Arc<T> as std::clone::Clone>::clone":
            cl += 1
        elif k == NOTIFY:
            nt += 1
        elif k == "std::mem::drop" and c.get("glue", {}).get("own") is not None and prog.insts[c["glue"]["own"]].key == ARC_DROP:
            dr += 1
        elif (k.startswith("future::") or k in ("sync::arc::Arc::<T>::increment_strong_count",
                                                 "sync::arc::Arc::<T>::decrement_strong_count")) and k in prog.fns and k != fk:
            # local helpers and loom Arc's own raw-count helpers are followed: their effect is what they do to the handle
            r2, c2, d2, n2 = _handle_effects(prog, k)
            raw += r2
            cl += c2
            dr += d2
            nt += n2
    for b in range(body.n):
        t = body.term(b)
        if t["k"] == "drop" and not body.blocks[b]["cleanup"]:
            own = prog.insts[inst].drops.get(b, {}).get("own")
            if own is not None and prog.insts[own].key == ARC_DROP:
                dr += 1
    return raw, cl, dr, nt


def F2(ctx):
    """Waker vtable handle balance through loom Arc: clone +1, wake notify/-1, wake_by_ref notify/0, drop -1; vtable order."""
    prog = ctx.prog
    want = {
        "future::clone_arc_raw": (1, 0, 0, "clone: +1 handle, no notification"),
        "future::wake_arc_raw": (0, 1, 1, "wake: notify, -1 handle"),
        "future::wake_by_ref_arc_raw": (0, 0, 1, "wake_by_ref: notify, handle count unchanged"),
        "future::drop_arc_raw": (0, 1, 0, "drop: -1 handle, no notification"),
    }
    n = 0
    for fk, (clones, drops, notifies, why) in want.items():
        if need_fn(ctx, "F2", fk) is None:
            continue
        n += 1
        raw, cl, dr, nt = _handle_effects(prog, fk)
        if (cl, dr, nt) == (clones, drops, notifies) and raw == 1:
            ctx.ok("F2", fk, why + " (through loom::sync::Arc)", [prog.fns[fk].loc()])
        else:
            ctx.bad("F2", fk, "waker vtable entry %s: expected %s; found from_raw=%d clones=%d handle-drops=%d notifies=%d" %
                    (fk.split("::")[-1], why, raw, cl, dr, nt), prog.fns[fk].loc())
    # vtable order: clone, wake, wake_by_ref, drop
    vk = "future::waker_vtable"
    fn = need_fn(ctx, "F2", vk)
    if fn is not None:
        order = None
        for pb in fn.promoted + [fn.body]:
            for b in range(pb.n):
                t = pb.term(b)
                if t["k"] == "call" and callee_path(t) == "std::task::RawWakerVTable::new":
                    order = [canon(strip(pb.expr_of_operand(a))).split(" as ")[0].strip("()") for a in t["args"]]
        exp = ["future::clone_arc_raw", "future::wake_arc_raw", "future::wake_by_ref_arc_raw", "future::drop_arc_raw"]
        if order is not None and [o.split("(")[-1] for o in order] == exp:
            ctx.ok("F2", vk, "RawWakerVTable::new(clone, wake, wake_by_ref, drop)", [fn.loc()])
        else:
            ctx.bad("F2", vk, "vtable entries are not in (clone, wake, wake_by_ref, drop) order: %s" % order, fn.loc())
    ctx.floor("F2", n, 4, "4 vtable functions")


def F3(ctx):
    """AtomicWaker: lock pairing of register/take_waker on every path; failed registration wakes the new waker and yields; stores are unconditional; wake() wakes what take_waker returned."""
    prog = ctx.prog
    AW = "future::atomic_waker::AtomicWaker::"
    ACQ, TRY, REL = "rt::mutex::Mutex::acquire_lock", "rt::mutex::Mutex::try_acquire_lock", "rt::mutex::Mutex::release_lock"
    # register
    fk = AW + "register"
    fn = need_fn(ctx, "F3", fk)
    if fn is not None:
        body = fn.body
        inst = prog.ident(fk)
        site = {}
        for (b, t, c) in prog.sites(inst):
            if body.blocks[b]["cleanup"]:
                continue
            k = prog.callee_key(c)
            for nm, key in (("try", TRY), ("rel", REL), ("wake", "std::task::Waker::wake"), ("yield", "rt::yield_now"),
                            ("store", "std::sync::Mutex::<T>::lock")):
                if k == key:
                    site.setdefault(nm, []).append(b)
        ok = all(x in site for x in ("try", "rel", "wake", "yield", "store"))
        if ok:
            fail = assume_calls({TRY: False})
            succ = assume_calls({TRY: True})
            r_fail, _ = PEval(body, fail).run()
            r_succ, _ = PEval(body, succ).run()
            fail_ok = all(b in r_fail for b in site["wake"] + site["yield"]) and not any(b in r_fail for b in site["rel"] + site["store"])
            succ_ok = all(b in r_succ for b in site["rel"] + site["store"]) and not any(b in r_succ for b in site["wake"] + site["yield"])
            # release on every successful path: every path from the store to return passes a release
            rel_all = True
            for sb in site["store"]:
                seen = set()
                dq = list(body.succs(sb))
                while dq:
                    x = dq.pop()
                    if x in seen or x in site["rel"]:
                        continue
                    seen.add(x)
                    if body.term(x)["k"] == "return":
                        rel_all = False
                    dq.extend(body.succs(x))
            # the failed path wakes the *new* waker
            wk = canon(arg_expr(body, body.term(site["wake"][0]), 0))
            ok = fail_ok and succ_ok and rel_all and wk == "waker"
        if ok:
            ctx.ok("F3", fk, "try-lock failed: wake the new waker, yield, return; succeeded: store it and release on every path",
                   [site_str(prog, fk, site["try"][0])])
        else:
            ctx.bad("F3", fk, "AtomicWaker::register lock/wake discipline broken (sites %s)" % {k: len(v) for k, v in site.items()}, fn.loc())
    fk = AW + "take_waker"
    root = prog.ident(fk)
    if root is None:
        ctx.missing("F3", fk)
    else:
        ev = {"acq": ACQ, "take": "std::option::Option::<T>::take", "rel": REL}
        ea = EventAnalysis(prog, path_matcher(ev), stop=lambda i: prog.insts[i].key != fk).solve([root])
        m = ea.must_of(root)
        ok = m is not TOP and set(ev) <= set(m) and not ea.must_before(root, "acq", "take") and not ea.must_before(root, "take", "rel")
        if ok:
            ctx.ok("F3", fk, "acquire -> take -> release on every path", [prog.fns[fk].loc()])
        else:
            ctx.bad("F3", fk, "take_waker must take the waker under the modelled lock and release it on every path", prog.fns[fk].loc())
    fk = AW + "wake"
    fn = need_fn(ctx, "F3", fk)
    if fn is not None:
        inst = prog.ident(fk)
        wakes = [(b, t) for (b, t, c) in prog.sites(inst) if prog.callee_key(c) == "std::task::Waker::wake" and not fn.body.blocks[b]["cleanup"]]
        ok = len(wakes) == 1 and mentions_call(arg_expr(fn.body, wakes[0][1], 0), AW + "take_waker") is not None
        if ok:
            ctx.ok("F3", fk, "wakes exactly what take_waker returned", [site_str(prog, fk, wakes[0][0])])
        else:
            ctx.bad("F3", fk, "AtomicWaker::wake must wake the waker returned by take_waker (and nothing else)", fn.loc())
    # every function that stores a waker into the slot does so unconditionally w.r.t. the slot's previous content (the most
    # recently registered waker wins) and under the modelled lock
    writers = 0
    for k, f2 in prog.fns.items():
        if not k.startswith(AW) or f2.kind == "Closure":
            continue
        inst2 = prog.ident(k)
        body2 = f2.body
        stores = []
        for b in range(body2.n):
            t = body2.term(b)
            if t["k"] == "drop" and not body2.blocks[b]["cleanup"] and "deref_mut" in canon(body2.expr_of_place(t["place"])) and "self.waker" in canon(body2.expr_of_place(t["place"])):
                stores.append(b)
            for s_ in body2.blocks[b]["stmts"]:
                if s_["k"] == "=" and s_["lhs"]["p"] and "deref_mut" in canon(body2.expr_of_place(s_["lhs"])) and "self.waker" in canon(body2.expr_of_place(s_["lhs"])) \
                        and "Some" in canon(body2.expr_of_rvalue(s_["rv"])) and not body2.blocks[b]["cleanup"]:
                    stores.append(b)
        # the slot filled through an Option method: `replace` / `insert` overwrite whatever was there (a store); `get_or_insert*`
        # keeps an occupant (a store that depends on the slot's previous content)
        keeps = []
        for (b, t, c) in prog.sites(inst2) if inst2 is not None else []:
            if body2.blocks[b]["cleanup"] or is_noise(t):
                continue
            cp = callee_path(t)
            if "option::Option" not in cp or not t["args"]:
                continue
            recv = canon(body2.expr_of_operand(t["args"][0]))
            if "self.waker" not in recv:
                continue
            m_ = cp.split("::")[-1]
            if m_ in ("replace", "insert"):
                stores.append(b)
            elif m_.startswith("get_or_insert") or m_ in ("or", "or_else", "xor", "get_or_default"):
                keeps.append(b)
        if keeps:
            writers += 1
            ctx.bad("F3", k, "%s fills the waker slot with `Option::%s`, which keeps a waker that is already there: a stale waker of an "
                    "earlier task stays registered and wake() does not reach the most recently registered one" %
                    (k, callee_path(body2.term(keeps[0])).split("::")[-1]), site_str(prog, k, keeps[0]), detail="store")
            continue
        if not stores:
            continue
        writers += 1
        cond = []
        for b in stores:
            for (e, pol, v, sb) in guard_atoms(body2, b):
                if "self.waker" in canon(e):
                    cond.append(canon(e)[:80])
        locked = any(prog.callee_key(c) in (TRY, ACQ) for (b, t, c) in prog.sites(inst2))
        if not cond and locked:
            ctx.ok("F3", k + ":store", "stores the new waker unconditionally, under the modelled lock", [site_str(prog, k, stores[0])])
        else:
            ctx.bad("F3", k, "%s stores the waker only depending on the slot's previous content (%s) / without the modelled lock (%s): a stale "
                    "waker of an earlier task stays registered and wake() does not reach the most recently registered one" % (k, cond[:1], locked),
                    site_str(prog, k, stores[0]), detail="store")
    if writers < 1:
        ctx.bad("F3", AW + "register", "no function of AtomicWaker stores a waker into the slot any more (the rule found no assignment, "
                "`replace` or `insert` on `self.waker`): registration has no effect or uses a form the rule cannot judge", None, detail="no-store")
    # register_by_ref registers a clone of the waker
    fk = AW + "register_by_ref"
    fn = need_fn(ctx, "F3", fk)
    if fn is not None:
        inst = prog.ident(fk)
        regs = [(b, t) for (b, t, c) in prog.sites(inst) if prog.callee_key(c) == AW + "register"]
        ok = len(regs) == 1 and "Clone" in canon(arg_expr(fn.body, regs[0][1], 1)) and every_path_passes(fn.body, [regs[0][0]])
        st = [1 for b in range(fn.body.n) for s_ in fn.body.blocks[b]["stmts"] if s_["k"] == "=" and s_["lhs"]["p"] and "self.waker" in canon(fn.body.expr_of_place(s_["lhs"]))]
        if ok or st:
            ctx.ok("F3", fk, "registers waker.clone() (by delegation or by its own checked store)", [fn.loc()])
        else:
            ctx.bad("F3", fk, "register_by_ref must register a clone of the waker on every path", fn.loc())
    fk = AW + "new"
    fn = need_fn(ctx, "F3", fk)
    if fn is not None:
        inst = prog.ident(fk)
        a = [(canon(arg_expr(fn.body, t, 0))) for (b, t, c) in prog.sites(inst) if prog.callee_key(c) == "rt::mutex::Mutex::new"]
        if a == ["0"]:
            ctx.ok("F3", fk, "rt::Mutex::new(seq_cst = false)", [fn.loc()])
        else:
            ctx.bad("F3", fk, "AtomicWaker's internal lock configuration changed: %s" % a, fn.loc())


def run(ctx):
    from . import guardvocab
    guardvocab.G0(ctx, effects={'notify', 'wait'})
    guardvocab.G1(ctx, effects={'notify', 'wait'})
    guardvocab.G2(ctx, scopes=('rt::notify::', 'future::'))
    guardvocab.G3(ctx, scopes=('rt::notify::', 'future::'))
    if "future::block_on" not in ctx.prog.fns:
        ctx.notes.append("config %s has no `futures` feature: C20 rules not applicable there" % ctx.config)
        return
    F1(ctx)
    F2(ctx)
    F3(ctx)
    W4(ctx)
    from . import g_sync
    g_sync.run_all(ctx, ["Y1:notify,mutex", "Y1c"])
    row = _notify_new_args(ctx.prog, "future::block_on")
    if row and all((a, b) == (0, 1) for (_, a, b) in row):
        ctx.ok("W5", "future::block_on", "Notify::new(seq_cst=false, spurious=true)", [site_str(ctx.prog, "future::block_on", row[0][0])])
    else:
        ctx.bad("W5", "future::block_on", "block_on must build its Notify with (seq_cst, spurious) = (false, true), found %s" % row)
