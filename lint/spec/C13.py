"""C13 - deterministic and resumable exploration (structural clauses only)."""
from . import modelrules, pathrules
from .common import *

EXPLANATION = ("Decides on the MIR / item inventory of the current tree: every type of the checkpointed path derives Serialize+Deserialize with "
               "no skipped/defaulted field (Z1, `checkpoint` configurations); no hash-order iteration, hash-ordered destruction of values with "
               "destructors or wall-clock input on the exploration path (Z2, deny-list with positive controls); the replay discipline of "
               "branch_thread/branch_load/branch_spurious/push_load (Z3); load-before-first-run and store-before-run-on-the-boundary in "
               "Builder::check (Z4). Equality of the visited execution sequences is behaviour and is not decided.")
RULE_TEXT = "rule instances = serialised types, denied constructs, branch functions, checkpoint steps; non-trivial when matched to concrete items/sites"
LEVEL_NOTE = "necessary conditions only; serde_derive trusted (no skip attribute => every field round-trips)"
CONFIGS_QUICK = ["all"]


def run(ctx):
    from . import guardvocab
    guardvocab.G2(ctx, scopes=('rt::path::', 'rt::execution::Execution::step'))
    guardvocab.G3(ctx, scopes=('rt::path::', 'rt::execution::Execution::step'))
    modelrules.Z1(ctx)
    modelrules.Z2(ctx)
    pathrules.Z3(ctx)
    modelrules.Z4(ctx)
    modelrules.Z4b(ctx)
