"""Rules about rt::path (X1-X4 for C14, Z3 for C13, E1-E4 for C15, B1-B4 for C19)."""
from .common import *
from .common import _closure_arg

P = "rt::path::Path"
SCH = "rt::path::Schedule"
LOAD = "rt::path::Load"
SPUR = "rt::path::Spurious"
PT = "rt::path::Thread"


# ---------------------------------------------------------------------------------------- C14

def X1(ctx):
    """Thread::explore maps Skip -> Pending and is the identity otherwise."""
    prog = ctx.prog
    fk = PT + "::explore"
    fn = need_fn(ctx, "X1", fk)
    if fn is None:
        return
    body = fn.body
    writes = []
    for b, blk in enumerate(body.blocks):
        for s in blk["stmts"]:
            if s["k"] in ("=", "setdiscr") and s["lhs"]["l"] == 1 and s["lhs"]["p"]:
                writes.append((b, s))
    ok = len(writes) == 1
    if ok:
        b, s = writes[0]
        e = body.expr_of_rvalue(s["rv"]) if s["k"] == "=" else ("agg", PT, s.get("variant"), [])
        to_pending = e[0] == "agg" and e[2] == "Pending"
        guards = [(canon(ge), pol) for (ge, pol, v, sb) in guard_atoms(body, b)]
        from_skip = any("Skip" in g and pol is True and "eq(" in g for g, pol in guards)
        ok = to_pending and from_skip and len(guards) == 1
    if ok:
        ctx.ok("X1", fk, "Skip -> Pending, identity on Disabled/Yield/Pending/Active/Visited", [site_str(prog, fk, writes[0][0])])
    else:
        ctx.bad("X1", fk, "explore() must re-arm only `Skip` alternatives (to Pending): re-arming a Visited/Active alternative revisits a "
                "sub-tree, dropping the guard loses alternatives", fn.loc())


X2_ALLOWED = {
    (SCH, "threads"): {P + "::branch_thread", P + "::step", SCH + "::backtrack"},
    (PT, "*"): {PT + "::explore", P + "::step", P + "::branch_thread"},
    (SCH, "preemptions"): {P + "::branch_thread"},
    (SCH, "initial_active"): {P + "::branch_thread"},
    (SCH, "prev"): {P + "::branch_thread"},
    (SCH, "exploring"): {P + "::branch_thread"},
    (LOAD, "pos"): {P + "::push_load", P + "::step"},
    (LOAD, "values"): {P + "::push_load"},
    (LOAD, "len"): {P + "::push_load"},
    (LOAD, "exploring"): {P + "::push_load"},
    (SPUR, "spur"): {P + "::branch_spurious", P + "::step"},
    (SPUR, "exploring"): {P + "::branch_spurious"},
}


def _step_fn(prog):
    """Path::step, or the private helper it delegates the loop to."""
    return body_fn_with(prog, P + "::step", "rt::object::Store::<T>::truncate", "rt::path::")


def X2(ctx):
    """Who-may-write on the exploration state of branches (Schedule/Load/Spurious fields, path::Thread values) and the values step() writes."""
    prog = ctx.prog
    n = 0
    for (adt, field), allowed0 in X2_ALLOWED.items():
        allowed = expand_allowed(prog, allowed0, "rt::path::")
        for w in prog.writers().get((adt, field), []):
            fk = enclosing_fn(w["fn"])
            if prog.fns[w["fn"]].j.get("derived"):
                continue
            if w["kind"] == "borrow_mut" and not w["exact"]:
                continue
            n += 1
            if fk == SCH + "::backtrack" and (adt, field) == (SCH, "threads"):
                # backtracking may change an alternative only through Thread::explore (Skip -> Pending, rule X1)
                okw = False
                if w["kind"] == "borrow_mut":
                    cons = prog.borrow_consumer(w["fn"], w["bb"], w["idx"])
                    ck = callee_path(cons[1]) if cons else ""
                    okw = ck == PT + "::explore" or ck.endswith("IntoIterator::into_iter") or ck.endswith("::iter_mut")
                if not okw:
                    ctx.bad("X2", fk, "Schedule::backtrack changes the state of an alternative directly (not through Thread::explore): "
                            "a Visited/Active alternative can be re-armed, so executions are repeated or exploration does not terminate",
                            site_str(prog, w["fn"], w["bb"]), detail="direct-write")
                    continue
            if fk in allowed:
                ctx.ok("X2", "%s.%s<-%s" % (adt.split("::")[-1], field, fk.split("::")[-1]), w["kind"], [site_str(prog, w["fn"], w["bb"])])
            else:
                ctx.bad("X2", fk, "%s.%s is written by %s; only %s may change the exploration state of a branch" %
                        (adt.split("::")[-1], field, fk, sorted(x.split("::")[-1] for x in allowed)), site_str(prog, w["fn"], w["bb"]), detail=field)
    ctx.floor("X2", n, 16, "writers of Schedule/Load/Spurious fields")
    # value discipline of the step() writes
    fk = _step_fn(prog)
    fn = prog.fn(fk)
    if fn is None:
        return
    for w in field_writes(prog, fk, LOAD, "pos"):
        e = rv_expr(prog, w)
        txt = canon(e)
        if "Add" in txt and txt.count(".pos") >= 1 and " 1)" in txt:
            ctx.ok("X2", "step:Load.pos+=1", txt[-40:], [site_str(prog, fk, w["bb"])])
        else:
            ctx.bad("X2", fk, "step() must advance Load.pos by exactly one (found %s)" % txt[-80:], site_str(prog, fk, w["bb"]), detail="load-step")
    for w in field_writes(prog, fk, SPUR, "spur"):
        e = rv_expr(prog, w)
        if e[0] == "const" and e[1].get("int") == 1:
            ctx.ok("X2", "step:Spurious.spur=true", "", [site_str(prog, fk, w["bb"])])
        else:
            ctx.bad("X2", fk, "step() may only set Spurious.spur to true", site_str(prog, fk, w["bb"]), detail="spur-step")
    # Schedule.threads in step: Active -> Visited, then first Pending -> Active (in step itself, its closures, or a private helper)
    reach = module_reach(prog, fk, "rt::path::")
    calls = set()
    for k in reach:
        for (b_, t_, c_) in prog.sites(prog.ident(k)):
            calls.add(prog.callee_key(c_))
    vals = set()
    for w in prog.writers().get((PT, "*"), []):
        if w["fn"] in reach and w["fn"] != PT + "::explore":
            vals.add(canon(rv_expr(prog, w)).split("::")[-1].rstrip("{}"))
    # which alternatives the two searches select: the predicate handed to `find` holds exactly for Active resp. Pending slots
    # (is_active()/is_pending() calls, or the match written in place)
    sel = set()
    for k in reach:
        for (b_, t_, c_) in prog.sites(prog.ident(k)):
            if callee_path(t_) in ("std::iter::Iterator::find", "std::iter::Iterator::position"):
                ck_ = _closure_arg(arg_expr_call(prog.fns[k].body, t_))
                if ck_ and ck_ in prog.fns:
                    for (ce, cpol) in true_conditions(prog, ck_):
                        if cpol and ce[0] == "call" and ce[1] in (PT + "::is_active", PT + "::is_pending"):
                            sel.add(ce[1].split("::")[-1][3:].capitalize())
                    sel |= _selected_states(prog, ck_)
    if PT + "::is_active" in calls:
        sel.add("Active")
    if PT + "::is_pending" in calls:
        sel.add("Pending")
    ok = {"Visited", "Active"} <= vals and {"Active", "Pending"} <= sel and "Pending" not in vals
    if ok:
        ctx.ok("X2", "step:Schedule", "Active -> Visited, then first Pending -> Active", [fn.loc()])
    else:
        ctx.bad("X2", P + "::step", "step() must retire the Active alternative (Visited) and activate the first Pending one "
                "(values written: %s)" % sorted(vals), fn.loc(), detail="schedule-step")


def X3(ctx):
    """Every `return true` of Path::step is dominated by a strict advance of the examined branch and by the truncation of everything
    deeper; `false` is returned only after the loop over all branches (in reverse)."""
    prog = ctx.prog
    fk = _step_fn(prog)
    fn = need_fn(ctx, "X3", fk)
    if fn is None:
        return
    body = fn.body
    inst = prog.ident(fk)
    trues = blocks_assigning_ret(body, lambda e: is_const_bool(e, True))
    falses = blocks_assigning_ret(body, lambda e: is_const_bool(e, False))
    dom = body.dominators()
    trunc = [b for (b, t, c) in prog.sites(inst) if prog.callee_key(c) == "rt::object::Store::<T>::truncate"]
    ctx.touch(fk, len(trues) + len(falses))
    if not trues or not falses or len(trunc) != 1:
        ctx.bad("X3", fk, "step() shape changed: %d `return true`, %d `return false`, %d truncate (expected >=1 / >=1 / 1)" %
                (len(trues), len(falses), len(trunc)), fn.loc(), detail="shape")
        return
    # truncate(last) with last = the loop index, dominating every success
    tb = trunc[0]
    targ = canon(arg_expr(body, body.term(tb), 1))
    rev = "std::iter::Iterator::rev(" in targ and "from_usize" in targ
    if all(tb in dom[b] for b in trues) and rev:
        ctx.ok("X3", "step:truncate", "branches.truncate(last) dominates every success; indices visited in reverse", [site_str(prog, fk, tb)])
    else:
        ctx.bad("X3", fk, "deeper branches are not discarded before a successful step, or the loop no longer runs from the deepest branch", site_str(prog, fk, tb), detail="truncate")
    # per branch kind, by scenario (so it does not matter whether the three arms are written in step(), in helpers, or return a
    # flag that step() tests): with the examined branch of kind K,
    #   (a) not exploring            -> no success before the next branch is examined
    #   (b) exploring, no alternative left -> no success
    #   (c) exploring, alternative left    -> success is reachable
    nexts = [b for (b, t, c) in prog.sites(inst) if callee_path(t) == "std::iter::Iterator::next"]
    loop_heads = set(n_ for n_ in nexts if n_ in dom[tb])
    KINDS = {"Schedule": SCH, "Load": LOAD, "Spurious": SPUR}

    def kind_of_downcast(e):
        """which branch type a `last.downcast::<K>()` call asks for (from the resolved instance)"""
        c = strip(e)
        if c[0] != "call" or not c[1].endswith("Ref::downcast") or len(c) < 4:
            return None
        rec = prog.insts[inst].calls.get(c[3], {})
        if rec.get("k") != "inst":
            return None
        args = prog.insts[rec["id"]].args
        for nm, adt in KINDS.items():
            if adt in str(args):
                return nm
        return None

    def scenario(kind, exploring, can_advance):
        adt = KINDS[kind]

        def truth_of(e):
            """value of a boolean test under the scenario, or None"""
            if is_field(e, adt, "exploring"):
                return exploring
            if kind == "Load" and e[0] == "binop" and e[1] in ("Lt", "Ge") and mentions_field(e[2], LOAD, "pos") and mentions_field(e[3], LOAD, "len"):
                return can_advance if e[1] == "Lt" else (not can_advance)
            if kind == "Spurious" and is_field(e, SPUR, "spur"):
                return not can_advance
            return None

        def a(body_, b_, t_, e):
            pol = True
            while e[0] == "unop" and e[1] == "Not":
                e = e[2]
                pol = not pol
            if e[0] == "discr":
                k2 = kind_of_downcast(e[1])
                if k2 is not None:
                    names = dict((n_, v_) for (v_, n_) in (e[3] or []))
                    want = names.get("Some" if k2 == kind else "None")
                    hit = [tb_ for (v_, tb_) in t_["targets"] if v_ == want]
                    return set(hit) if hit else {t_["otherwise"]}
                c = strip(e[1])
                if kind == "Schedule" and c[0] == "call" and c[1] == "std::iter::Iterator::find":
                    sel = _selected_states(prog, _closure_arg(c))
                    if sel == {"Pending"}:
                        names = dict((n_, v_) for (v_, n_) in (e[3] or []))
                        want = names.get("Some" if can_advance else "None")
                        hit = [tb_ for (v_, tb_) in t_["targets"] if v_ == want]
                        return set(hit) if hit else {t_["otherwise"]}
                return None
            r = truth_of(e)
            if r is not None:
                return switch_targets_for(t_, r == pol)
            return None

        def value_of(body_, b_, e):
            pol = True
            while e[0] == "unop" and e[1] == "Not":
                e = e[2]
                pol = not pol
            r = truth_of(e)
            return None if r is None else (r == pol)
        a.value_of = value_of
        return a
    handled = set()
    for kind in KINDS:
        res = {}
        for (nm, expl, adv) in (("not-exploring", False, True), ("exhausted", True, False), ("advance", True, True)):
            r_, _ = PEval(body, scenario(kind, expl, adv)).run(start=list(body.succs(tb))[0], stop_blocks=loop_heads)
            res[nm] = any(b in r_ for b in trues)
        # the arm exists at all: some downcast for this kind is tested
        exists = any(body.term(b)["k"] == "switch" and body.expr_of_operand(body.term(b)["op"])[0] == "discr" and
                     kind_of_downcast(body.expr_of_operand(body.term(b)["op"])[1]) == kind for b in range(body.n))
        if not exists:
            continue
        handled.add(kind)
        if not res["not-exploring"] and not res["exhausted"] and res["advance"]:
            ctx.ok("X3", "step:" + kind, {"Load": "pos += 1; pos < len", "Spurious": "!spur; spur = true",
                                          "Schedule": "a Pending alternative was activated"}[kind] + " (and branch.exploring)", [site_str(prog, fk, tb)])
        else:
            ctx.bad("X3", fk, "%s arm of step() reports progress without a strict advance of the branch (success when not exploring=%s, "
                    "when exhausted=%s, when an alternative is left=%s): an execution would be repeated or exploration would not terminate" %
                    (kind, res["not-exploring"], res["exhausted"], res["advance"]), site_str(prog, fk, tb), detail=kind)
    if handled != set(KINDS):
        ctx.bad("X3", fk, "step() does not handle all three branch kinds (%s)" % sorted(handled), fn.loc(), detail="kinds")
    # false only after the loop: the false block is reached through the iterator's None edge
    okf = True
    for fb in falses:
        atoms = guard_atoms(body, fb)
        if not any(e[0] == "discr" and "Iterator::next" in canon(e) and v == 0 for (e, pol, v, sb) in atoms):
            okf = False
    # (a `false` assigned to an intermediate flag inside the loop is not a return)
    real_false = [fb for fb in falses]
    if okf:
        ctx.ok("X3", "step:false", "`false` only when every branch has been popped", [site_str(prog, fk, falses[0])])
    else:
        ctx.bad("X3", fk, "step() can report exhaustion before all branches were examined", site_str(prog, fk, falses[0]), detail="false")


def _selected_states(prog, ck):
    """Which `Thread` states a search closure (`|th| th.is_pending()`, `|th| *th == Thread::Active`, ...) selects."""
    sel = set()
    if ck and ck in prog.fns:
        cb_ = prog.fns[ck].body
        for x_ in deep_sources(cb_, cb_.expr_of_local(0)):
            vt = variant_test(x_)
            if vt and vt[2]:
                sel.add(vt[1])
            if x_[0] == "call" and x_[1] in (PT + "::is_pending", PT + "::is_active"):
                sel.add(x_[1].split("::")[-1][3:].capitalize())
        # `matches!(th, Thread::X)`: the closure returns true on the X edge of a switch on the discriminant
        for b_ in ret_const_blocks(cb_, True):
            for (ge, pol, v, sb) in guard_atoms(cb_, b_):
                if ge[0] == "discr" and ge[2] == PT and not isinstance(v, tuple):
                    nm = variant_of_discr_value(prog, ge, v)
                    if nm:
                        sel.add(nm)
    return sel


SEARCHES = ("std::iter::Iterator::find", "std::iter::Iterator::position", "std::iter::Iterator::find_map", "std::iter::Iterator::any")


def X6(ctx):
    """In the Schedule arm of step() the explored alternative is retired (Active -> Visited) before the next one is promoted
    (Pending -> Active): a search for "the Active entry" that runs after another entry was made Active is ambiguous and retires
    the wrong one whenever the promoted thread has the smaller index."""
    prog = ctx.prog
    fk = _step_fn(prog)
    fn = need_fn(ctx, "X6", fk)
    if fn is None:
        return
    n = 0
    bad = []
    for k2 in [fk] + [k for k in prog.fns if enclosing_fn(k) == fk and k != fk]:
        f2 = prog.fn(k2)
        if f2 is None:
            continue
        body = f2.body
        def _is_active_value(st):
            if st["k"] == "setdiscr":
                return st.get("variant") == "Active"
            e = strip(body.expr_of_rvalue(st["rv"]))
            return (e[0] == "agg" and e[1] == PT and e[2] == "Active") or \
                   (e[0] == "const" and e[1].get("variant") == "Active" and PT in str(e[1].get("ty", PT)))
        promotes = [b for b, blk in enumerate(body.blocks) if not blk["cleanup"] for st in blk["stmts"]
                    if st["k"] in ("=", "setdiscr") and st["lhs"]["p"] and _is_active_value(st)]
        # a promotion inside a closure handed to a call of the parent (map / for_each): the call site stands for it
        if f2.kind == "Closure" and promotes:
            pf = prog.fn(f2.j.get("parent_fn"))
            if pf is not None:
                pb = pf.body
                for b in range(pb.n):
                    t = pb.term(b)
                    if t["k"] == "call" and any(strip(pb.expr_of_operand(a))[0] == "agg" and strip(pb.expr_of_operand(a))[1] == k2 for a in t["args"]):
                        bad += _active_search_after(prog, pf, b)
                        n += 1
            continue
        for b in promotes:
            n += 1
            bad += _active_search_after(prog, f2, b)
    if n == 0:
        ctx.missing("X6", fk, "no promotion of an alternative to Active found in step()")
        return
    ctx.touch(fk, n)
    if bad:
        ctx.bad("X6", fk, "step() looks for the Active entry of a schedule after it has promoted another entry to Active: the search "
                "finds whichever of the two has the smaller index, so a pending alternative with a smaller index than the explored one is "
                "marked Visited without ever being run (a backtrack point is lost)", bad[0], detail="retire-first")
    else:
        ctx.ok("X6", "step:retire-first", "the explored alternative is retired before the next one is promoted", [fn.loc()])


def _active_search_after(prog, fn, start_b):
    """sites of a search for the Active entry reachable from block start_b without leaving the loop iteration"""
    body = fn.body
    inst = prog.ident(fn.key)
    heads = set(b for (b, t, c) in prog.sites(inst) if callee_path(t) == "std::iter::Iterator::next")
    out = []
    seen = set()
    work = [x for x in body.succs(start_b)]
    while work:
        b = work.pop()
        if b in seen or b in heads:
            continue
        seen.add(b)
        t = body.term(b)
        if t["k"] == "call" and callee_path(t) in SEARCHES:
            e = ("call", callee_path(t), [body.expr_of_operand(a) for a in t["args"]], b)
            if "Active" in _selected_states(prog, _closure_arg(e)):
                out.append(site_str(prog, fn.key, b))
        work += list(body.succs(b))
    return out


def stuck_cycles(body):
    """Loops that can go round without changing anything: a cycle of blocks none of which writes memory, assigns a variable that
    has several definitions, or hands out a mutable borrow to a call.  Returns one witness block per such cycle."""
    defs = body.defs()

    def progress(b):
        blk = body.blocks[b]
        for st in blk["stmts"]:
            if st["k"] == "setdiscr":
                return True
            if st["k"] != "=":
                continue
            if st["lhs"]["p"]:
                return True
            if len(defs.get(st["lhs"]["l"], [])) > 1 and st["rv"]["k"] not in ("ref",) and \
                    not (st["rv"]["k"] == "use" and st["rv"]["op"].get("k") == "const"):
                return True
            if st["rv"]["k"] in ("ref", "rawptr") and st["rv"].get("mut"):
                return True
        t = blk["term"]
        if t["k"] in ("call", "tailcall") and callee_path(t).startswith("rt::") is False and "Iterator::next" in callee_path(t):
            return True
        return False
    quiet = [b for b in range(body.n) if not body.blocks[b]["cleanup"] and not progress(b)]
    qs = set(quiet)
    succ = {b: [x for x in body.succs(b) if x in qs] for b in quiet}
    # Tarjan-free: a quiet block that reaches itself through quiet blocks only
    out = []
    covered = set()
    for b in quiet:
        if b in covered:
            continue
        seen = set()
        work = list(succ[b])
        while work:
            x = work.pop()
            if x in seen:
                continue
            seen.add(x)
            work += succ[x]
        if b in seen:
            out.append(b)
            covered |= seen
    return out


def X5(ctx):
    """The walks of Path::backtrack / Path::step over the branch stack make progress on every round: no loop in them can go
    round without moving its cursor (or changing anything at all) - such a round would repeat forever."""
    prog = ctx.prog
    n = 0
    for fk in (P + "::backtrack", _step_fn(prog), P + "::branch_thread", SCH + "::backtrack"):
        fn = need_fn(ctx, "X5", fk)
        if fn is None:
            continue
        n += 1
        ctx.touch(fk, 1)
        st = stuck_cycles(fn.body)
        if st:
            ctx.bad("X5", fk, "a loop of %s can go round without moving its cursor or changing any state: once entered with that "
                    "condition it never ends (the exploration hangs)" % fk.split("::")[-1], site_str(prog, fk, st[0]), detail="progress")
        else:
            ctx.ok("X5", fk + ":progress", "every round of every loop moves a cursor or changes state", [fn.loc()])
    ctx.floor("X5", n, 4, "Path::backtrack, Path::step, Path::branch_thread, Schedule::backtrack")


def X4(ctx):
    """Path::step resets pos/exploring/skipping; Execution::step returns None iff exhausted; Builder::check stops on None."""
    prog = ctx.prog
    fk = _step_fn(prog)
    fn = need_fn(ctx, "X4", fk)
    if fn is not None and fk != P + "::step":
        # the helper runs on every path of step()
        sfn = prog.fn(P + "::step")
        sinst = prog.ident(P + "::step")
        hs = [b for (b, t, c) in prog.sites(sinst) if prog.callee_key(c) == fk]
        if not (hs and every_path_passes(sfn.body, hs)):
            ctx.bad("X4", P + "::step", "Path::step does not run its stepping helper on every path", sfn.loc(), detail="helper")
    if fn is not None:
        body = fn.body
        want = {"pos": lambda e: e[0] == "const" and e[1].get("int") == 0,
                "exploring": lambda e: is_field(e, P, "exploring_on_start"),
                "skipping": lambda e: e[0] == "const" and e[1].get("int") == 0}
        for f, pred in want.items():
            ws = field_writes(prog, fk, P, f)
            good = [w for w in ws if pred(rv_expr(prog, w)) and every_path_passes(body, [w["bb"]])]
            if good:
                ctx.ok("X4", "step:reset-" + f, "reset on every path", [site_str(prog, fk, good[0]["bb"])])
            else:
                ctx.bad("X4", fk, "Path::step must reset `%s` for the next iteration on every path" % f, fn.loc(), detail="reset-" + f)
    fk = EXEC + "::step"
    fn = need_fn(ctx, "X4", fk)
    if fn is not None:
        body = fn.body
        noneb = [b for b, blk in enumerate(body.blocks) for s in blk["stmts"]
                 if s["k"] == "=" and s["lhs"]["l"] == 0 and not s["lhs"]["p"] and s["rv"]["k"] == "agg" and s["rv"].get("variant") == "None"]
        someb = [b for b, blk in enumerate(body.blocks) for s in blk["stmts"]
                 if s["k"] == "=" and s["lhs"]["l"] == 0 and not s["lhs"]["p"] and s["rv"]["k"] == "agg" and s["rv"].get("variant") == "Some"]
        ok = noneb and someb and all(unreachable_if(body, b, assume_calls({P + "::step": True})) for b in noneb) and \
            all(unreachable_if(body, b, assume_calls({P + "::step": False})) for b in someb)
        if ok:
            ctx.ok("X4", fk, "None iff path.step() is false", [site_str(prog, fk, noneb[0])])
        else:
            ctx.bad("X4", fk, "Execution::step must return None exactly when Path::step() reports exhaustion", fn.loc())
    fk = "model::Builder::check"
    fn = need_fn(ctx, "X4", fk)
    if fn is not None:
        body = fn.body
        inst = prog.ident(fk)
        steps = [b for (b, t, c) in prog.sites(inst) if prog.callee_key(c) == EXEC + "::step"]
        ok = False
        for sb in steps:
            # the switch on discr(step()) : None edge leads to return without another run
            for b in range(body.n):
                t = body.term(b)
                if t["k"] == "switch":
                    e = body.expr_of_operand(t["op"])
                    if e[0] == "discr" and mentions_call(e, EXEC + "::step"):
                        none_t = [tb for (v, tb) in t["targets"] if variant_of_discr_value(prog, e, v) == "None"]
                        none_t = none_t or [t["otherwise"]]
                        runs = {bb for (bb, tt, c) in prog.sites(inst) if prog.callee_key(c) == "rt::scheduler::Scheduler::run"}
                        r = body.reachable(none_t[0])
                        if not (r & runs) and any(body.term(x)["k"] == "return" for x in r):
                            ok = True
        if ok:
            ctx.ok("X4", fk, "returns when Execution::step() yields None", [fn.loc()])
        else:
            ctx.bad("X4", fk, "Builder::check must stop iterating when the path is exhausted", fn.loc())


# ---------------------------------------------------------------------------------------- C13 (replay discipline)

def Z3(ctx):
    """Replay discipline: branch entries created only when the recorded path is exhausted; each branch_* consumes exactly one decision; wrong kind is reported."""
    prog = ctx.prog
    n = 0
    for m in ("branch_thread", "branch_spurious"):
        fk = P + "::" + m
        fn = need_fn(ctx, "Z3", fk)
        if fn is None:
            continue
        body = fn.body
        inst = prog.ident(fk)
        ins = [b for (b, t, c) in prog.sites(inst) if prog.callee_key(c) == "rt::object::Store::<T>::insert"]
        n += 1
        ok = bool(ins) and all(unreachable_if(body, b, assume_calls({P + "::is_traversed": False})) and
                               not unreachable_if(body, b, assume_calls({P + "::is_traversed": True})) for b in ins)
        if ok:
            ctx.ok("Z3", fk + ":create", "a new branch entry is created only when the recorded path is exhausted (is_traversed)", [site_str(prog, fk, ins[0])])
        else:
            ctx.bad("Z3", fk, "%s creates a branch entry while replaying a recorded path (or never): the replay diverges from the stored decisions" % m,
                    fn.loc(), detail="create")
    fk = P + "::branch_load"
    fn = need_fn(ctx, "Z3", fk)
    if fn is not None:
        n += 1
        inst = prog.ident(fk)
        ins = [b for (b, t, c) in prog.sites(inst) if prog.callee_key(c) == "rt::object::Store::<T>::insert"]
        ps = panic_sites(prog, fk, "[loom internal bug]")
        ok = not ins and ps and all(unreachable_if(fn.body, b, assume_calls({P + "::is_traversed": False})) for b, _ in ps)
        if ok:
            ctx.ok("Z3", fk + ":replay", "never creates; asserts the decision exists", [fn.loc()])
        else:
            ctx.bad("Z3", fk, "branch_load must only replay an entry pushed before (assert !is_traversed)", fn.loc(), detail="create")
    # each advances pos by exactly one on every normal path, and reads branches[pos] before advancing
    for m in ("branch_thread", "branch_spurious", "branch_load"):
        fk = P + "::" + m
        fn = prog.fn(fk)
        if fn is None:
            continue
        n += 1
        body = fn.body
        ws = field_writes(prog, fk, P, "pos")
        good = []
        for w in ws:
            txt = canon(rv_expr(prog, w))
            if "self.pos Add" in txt and " 1)" in txt:
                good.append(w)
        inst = prog.ident(fk)
        reads = [b for (b, t, c) in prog.sites(inst) if prog.callee_key(c) == "rt::object::Ref::from_usize" and
                 is_field(arg_expr(body, t, 0), P, "pos")]
        dom = body.dominators()
        ok = len(ws) == 1 and len(good) == 1 and every_path_passes(body, [good[0]["bb"]]) and reads and \
            all(r in dom[good[0]["bb"]] for r in reads)
        if ok:
            ctx.ok("Z3", fk + ":pos", "reads branches[pos], then pos += 1 exactly once on every path", [site_str(prog, fk, good[0]["bb"])])
        else:
            ctx.bad("Z3", fk, "%s must consume exactly one recorded decision: read branches[pos] then advance pos by one on every path" % m,
                    fn.loc(), detail="pos")
    # push_load only at a new decision
    for s in call_sites(prog, P + "::push_load"):
        n += 1
        body = prog.fns[s["fn"]].body
        if unreachable_if(body, s["bb"], assume_calls({P + "::is_traversed": False})):
            ctx.ok("Z3", enclosing_fn(s["fn"]) + ":push_load", "only when is_traversed()", [site_str(prog, s["fn"], s["bb"])])
        else:
            ctx.bad("Z3", enclosing_fn(s["fn"]), "push_load while replaying a recorded path", site_str(prog, s["fn"], s["bb"]), detail="push_load")
    # the downcast of a replayed entry fails loudly
    for m in ("branch_thread", "branch_spurious", "branch_load"):
        fk = P + "::" + m
        if prog.fn(fk) is None:
            continue
        inst = prog.ident(fk)
        body = prog.fns[fk].body
        ex = [b for (b, t, c) in prog.sites(inst) if prog.callee_key(c) == "std::option::Option::<T>::expect" and
              "Is the model fully deterministic" in canon(arg_expr(body, t, 1))]
        n += 1
        if ex:
            ctx.ok("Z3", fk + ":kind", "a recorded decision of another kind is reported (nondeterminism)", [site_str(prog, fk, ex[0])])
        else:
            ctx.bad("Z3", fk, "a recorded decision of the wrong kind must be reported, not reinterpreted", prog.fns[fk].loc(), detail="kind")
    ctx.floor("Z3", n, 11, "2 create + 1 replay + 3 pos + 2 push_load + 3 kind")


# ---------------------------------------------------------------------------------------- C15

def E1(ctx):
    """Schedule::backtrack arms no alternative at the bound, asserts preemptions <= bound, arms the racing thread if enabled else all."""
    prog = ctx.prog
    fk = SCH + "::backtrack"
    fn = need_fn(ctx, "E1", fk)
    if fn is None:
        return
    body = fn.body
    inst = prog.ident(fk)
    ex = [b for (b, t, c) in prog.sites(inst) if prog.callee_key(c) == PT + "::explore"]
    ctx.touch(fk, len(ex))
    if len(ex) < 2:
        ctx.bad("E1", fk, "Schedule::backtrack no longer marks alternatives (explore sites: %d)" % len(ex), fn.loc(), detail="shape")
        return
    PB = body.local_name(3) or "preemption_bound"

    def pb(some):
        """the bound parameter is Some / None, however it is tested (match / if let / is_some() / is_none())"""
        d = assume_discr(PB, 1 if some else 0)

        def a(body_, b_, t_, e):
            r = d(body_, b_, t_, e)
            if r is not None:
                return r
            pol = True
            while e[0] == "unop" and e[1] == "Not":
                e = e[2]
                pol = not pol
            if e[0] == "call" and e[2] and canon(strip(e[2][0])) == PB and e[1].split("::")[-1] in ("is_some", "is_none") and "Option" in e[1]:
                truth = some if e[1].endswith("is_some") else (not some)
                return switch_targets_for(t_, truth == pol)
            return None
        return a
    at_bound = assume_all(pb(True),
                          assume_expr(lambda e: True if field_cmp("Eq", SCH, "preemptions")(e) else
                                      (True if field_cmp("Le", SCH, "preemptions")(e) else None)))
    below = assume_all(pb(True),
                       assume_expr(lambda e: False if field_cmp("Eq", SCH, "preemptions")(e) else
                                   (True if field_cmp("Le", SCH, "preemptions")(e) else None)))
    nobound = pb(False)
    r_at, _ = PEval(body, at_bound).run()
    r_below, _ = PEval(body, below).run()
    r_none, _ = PEval(body, nobound).run()
    ok = not any(b in r_at for b in ex) and all(b in r_below for b in ex) and all(b in r_none for b in ex)
    if ok:
        ctx.ok("E1", fk, "no alternative is armed once preemptions == bound; all are reachable below the bound / without bound",
               [site_str(prog, fk, b) for b in ex])
    else:
        ctx.bad("E1", fk, "preemption bound not enforced exactly: armed at the bound=%s, armed below=%s, armed unbounded=%s" %
                (any(b in r_at for b in ex), all(b in r_below for b in ex), all(b in r_none for b in ex)), fn.loc(), detail="bound")
    ps = panic_sites(prog, fk, "actual = ")
    over = assume_all(pb(True), assume_expr(lambda e: False if field_cmp("Le", SCH, "preemptions")(e) else None))
    r_over, _ = PEval(body, over).run()
    if ps and all(b in r_over for b, _ in ps) and not any(b in r_over for b in ex):
        ctx.ok("E1", fk + ":assert", "exceeding the bound is an internal error", [site_str(prog, fk, ps[0][0])])
    else:
        ctx.bad("E1", fk, "the invariant `preemptions <= bound` is no longer asserted before arming alternatives", fn.loc(), detail="assert")
    # explore is applied to the requested thread when it is enabled, to all otherwise
    one = [b for b in ex if (body.local_name(2) or "thread_id") in canon(arg_expr(body, body.term(b), 0))]
    allb = [b for b in ex if b not in one]
    def disabled(truth):
        """the racing thread's slot is (not) Thread::Disabled - tested through is_disabled()/is_enabled() or by matching the slot"""
        base = assume_scenario(prog, {PT + "::is_disabled": truth, PT + "::is_enabled": not truth})

        def a(body_, b_, t_, e):
            r = base(body_, b_, t_, e)
            if r is not None:
                return r
            pol = True
            while e[0] == "unop" and e[1] == "Not":
                e = e[2]
                pol = not pol
            vt = variant_test(e)
            if vt and vt[0][0] == "index" and vt[1] == "Disabled":
                return switch_targets_for(t_, ((truth == vt[2]) == pol))
            if e[0] == "discr" and e[2] == PT and strip(e[1])[0] == "index":
                names = dict((n_, v_) for (v_, n_) in (e[3] or []))
                if not names and PT in prog.adts:
                    names = dict((v_["name"], v_.get("discr", i_)) for i_, v_ in enumerate(prog.adts[PT]["variants"]))
                d = names.get("Disabled")
                hit = [tb for (v_, tb) in t_["targets"] if v_ == d]
                if truth:
                    return set(hit) if hit else {t_["otherwise"]}
                rest = {tb for (v_, tb) in t_["targets"] if v_ != d} | {t_["otherwise"]}
                return rest - set(hit) if hit else rest
            return None
        return a
    g_one = one and all(unreachable_if(body, b, disabled(True)) for b in one)
    g_all = allb and all(unreachable_if(body, b, disabled(False)) for b in allb)
    # ... in both regimes (below a bound and without one) each of the two arms is actually taken
    for (nm, regime) in (("below the bound", below), ("without a bound", nobound)):
        r_dis, _ = PEval(body, assume_all(regime, disabled(True))).run()
        r_en, _ = PEval(body, assume_all(regime, disabled(False))).run()
        if allb and not any(b in r_dis for b in allb):
            g_all = False
        if one and not any(b in r_en for b in one):
            g_one = False
    if g_one and g_all:
        ctx.ok("E1", fk + ":target", "arms the racing thread if enabled there, otherwise every thread", [site_str(prog, fk, one[0])])
    else:
        ctx.bad("E1", fk, "backtrack must arm the racing thread when it is enabled at that point and all threads otherwise", fn.loc(), detail="target")


def E2(ctx):
    """preemptions() = stored + 1 iff the branch switched away from a thread that could continue; new branches inherit it."""
    prog = ctx.prog
    fk = SCH + "::preemptions"
    fn = need_fn(ctx, "E2", fk)
    if fn is None:
        return
    body = fn.body
    plus = []
    same = []
    other = []
    for b, blk in enumerate(body.blocks):
        for s in blk["stmts"]:
            if s["k"] == "=" and s["lhs"]["l"] == 0 and not s["lhs"]["p"]:
                e = body.expr_of_rvalue(s["rv"])
                txt = canon(e)
                if "self.preemptions Add" in txt and " 1)" in txt:
                    plus.append(b)
                elif txt == "self.preemptions":
                    same.append(b)
                elif e[0] != "phi" and not body.blocks[b]["cleanup"]:
                    other.append(b)         # any third value (a constant, another field): the count is neither kept nor advanced
    pre = {"std::option::Option::<T>::is_some": True, "std::cmp::PartialEq::ne": True}
    ok = len(plus) == 1 and len(same) == 1 and not other
    if ok:
        ok = unreachable_if(body, plus[0], assume_calls({"std::option::Option::<T>::is_some": False})) and \
            unreachable_if(body, plus[0], assume_calls({"std::cmp::PartialEq::ne": False})) and \
            unreachable_if(body, same[0], assume_calls(pre))
        inst = prog.ident(fk)
        nes = [t for (b, t, c) in prog.sites(inst) if callee_path(t).endswith("PartialEq::ne")]
        ok = ok and nes and is_field(arg_expr(body, nes[0], 0), SCH, "initial_active") and \
            mentions_call(arg_expr(body, nes[0], 1), SCH + "::active_thread_index") is not None
        iss = [t for (b, t, c) in prog.sites(inst) if callee_path(t).endswith("Option::<T>::is_some")]
        ok = ok and iss and is_field(arg_expr(body, iss[0], 0), SCH, "initial_active")
    if ok:
        ctx.ok("E2", fk, "preemptions + 1 iff initial_active.is_some() && initial_active != active_thread_index()", [site_str(prog, fk, plus[0])])
    else:
        ctx.bad("E2", fk, "the preemption count of a branch must be the stored count plus one exactly when the branch switched away from "
                "a thread that could have continued", fn.loc())
    # a new branch inherits prev.preemptions()
    bk = P + "::branch_thread"
    bfn = need_fn(ctx, "E2", bk)
    if bfn is not None:
        ws = field_writes(prog, bk, SCH, "preemptions")
        ok = False
        c = False
        for w in ws:
            e = rv_expr(prog, w)
            srcs = deep_sources(prog.fns[w["fn"]].body, e)
            # the stored count comes from prev.preemptions() when there is a previous branch, and is 0 only when there is none
            wb = prog.fns[w["fn"]].body
            some_subj = set()
            for b2 in range(wb.n):
                t2 = wb.term(b2)
                if t2["k"] == "call" and callee_path(t2) == SCH + "::preemptions":
                    for (ge, pol, v, sb) in guard_atoms(wb, b2):
                        if ge[0] == "discr" and not isinstance(v, tuple) and dict((x, y) for (x, y) in (ge[3] or [])).get(v) == "Some":
                            some_subj.add(canon(ge[1]))
            has_call = any(x[0] == "call" and x[1] == SCH + "::preemptions" for x in srcs)
            has_zero = any(x[0] == "const" and x[1].get("int") == 0 for x in srcs)
            if has_call and has_zero and some_subj and _zero_only_without_prev(wb, some_subj):
                ok = True
                c = True
        if ok and c:
            ctx.ok("E2", bk + ":inherit", "new branch: preemptions = prev.preemptions() or 0", [site_str(prog, bk, ws[0]["bb"])])
        else:
            ctx.bad("E2", bk, "a new schedule branch must inherit the preemption count of the previous one", bfn.loc(), detail="inherit")
        # the new branch continues the running thread iff its active thread equals the thread the *previous branch ran*
        binst = prog.ident(bk)
        nes = [(b, t) for (b, t, c) in prog.sites(binst) if callee_path(t).endswith("PartialEq::ne")]
        cont_ok = False
        for (b, t) in nes:
            a1 = strip(arg_expr(bfn.body, t, 1))
            if a1[0] == "call" and a1[1] == SCH + "::active_thread_index":
                cont_ok = True
        if cont_ok:
            ctx.ok("E2", bk + ":continuation", "initial_active is kept iff it equals prev.active_thread_index()", [bfn.loc()])
        else:
            ctx.bad("E2", bk, "whether a new branch continues the running thread must be decided against the thread the previous branch "
                    "actually ran (prev.active_thread_index()); otherwise a switch right after a preemption is not counted", bfn.loc(), detail="continuation")
        # initial_active cleared when the previous branch ran another thread
        iw = field_writes(prog, bk, SCH, "initial_active")
        if iw:
            ctx.ok("E2", bk + ":initial_active", "recorded for the preemption test", [site_str(prog, bk, iw[0]["bb"])])
        else:
            ctx.bad("E2", bk, "initial_active is not recorded for new branches", bfn.loc(), detail="initial_active")


def _edge_is_variant(ge, v, name):
    """The switch edge with value v (a discriminant value, or ("not", values) for the otherwise edge) is taken exactly for the
    variant `name`."""
    names = dict((x, y) for (x, y) in (ge[3] or []))
    if not isinstance(v, tuple):
        return names.get(v) == name
    if v[0] == "not":
        rest = [n for (x, n) in names.items() if x not in v[1]]
        return rest == [name]
    return False


def _zero_only_without_prev(body, some_subj):
    """No definition of the inherited count is the literal 0 on a path where the previous branch exists: literal-0 definitions
    (other than the default argument of unwrap_or) must lie on the None edge of the `prev` switch."""
    for b2, blk2 in enumerate(body.blocks):
        if blk2["cleanup"]:
            continue
        for st2 in blk2["stmts"]:
            if st2["k"] != "=" or st2["lhs"]["p"] or body.locals[st2["lhs"]["l"]]["ty"] != "u8":
                continue
            de = body.expr_of_rvalue(st2["rv"])
            if de[0] == "const" and de[1].get("int") == 0 and len(body.defs().get(st2["lhs"]["l"], [])) > 1:
                on_none = any(ge[0] == "discr" and _edge_is_variant(ge, v, "None")
                              and canon(ge[1]) in some_subj for (ge, pol, v, sb) in guard_atoms(body, b2))
                if not on_none:
                    return False
    return True


def E3(ctx):
    """Execution::schedule seeds the currently active thread as the default whenever it is runnable."""
    prog = ctx.prog
    fk = EXEC + "::schedule"
    fn = need_fn(ctx, "E3", fk)
    if fn is None:
        return
    body = fn.body
    # local `initial`
    # the "default choice" local: the one initialised with Some(<active thread id>) (whatever it is called)
    li = []
    for l, ds in body.defs().items():
        for d in ds:
            if d[0] == "stmt" and d[3]["k"] == "=":
                e = body.expr_of_rvalue(d[3]["rv"])
                if e[0] == "agg" and e[2] == "Some" and mentions_call(e, "rt::thread::Set::active_id") and body.local_name(l):
                    li.append(l)
    if not li:
        ctx.missing("E3", fk, "no local initialised with Some(active thread) found (the scheduler's default choice)")
        return
    li = li[0]
    lname = body.local_name(li)
    defs = body.defs().get(li, [])
    some_active = []
    none_defs = []
    for d in defs:
        if d[0] != "stmt":
            continue
        e = body.expr_of_rvalue(d[3]["rv"])
        if e[0] == "agg" and e[2] == "Some" and mentions_call(e, "rt::thread::Set::active_id"):
            some_active.append(d[1])
        if e[0] == "agg" and e[2] == "None":
            none_defs.append(d[1])
    ok = some_active and none_defs and all(unreachable_if(body, b, assume_calls({T + "::is_runnable": True})) for b in none_defs)
    # the cleared default depends on the *active* thread's runnability
    inst = prog.ident(fk)
    recv_ok = False
    for (b, t, c) in prog.sites(inst):
        if prog.callee_key(c) == T + "::is_runnable" and mentions_call(arg_expr(body, t, 0), "rt::thread::Set::active"):
            recv_ok = True
    # the seed closure marks `initial` as Active
    seed = [k for k in prog.closures_of(fk)]
    act = False
    for k in seed:
        cb = prog.fns[k].body
        for b, blk in enumerate(cb.blocks):
            for s in blk["stmts"]:
                if s["k"] == "=" and s["rv"]["k"] == "agg" and s["rv"].get("adt") == "rt::path::Thread" and s["rv"].get("variant") == "Active":
                    g = [canon(ge) for (ge, pol, v, sb) in guard_atoms(cb, b) if pol is True]
                    if any(lname in x and "eq(" in x for x in g):
                        act = True
    # while the running thread can continue, nothing else may (re)write the default choice: every other write or mutable borrow of
    # the local is unreachable in the scenario `active().is_runnable()`
    def a_run(body_, b, t, e):
        pol = True
        while e[0] == "unop" and e[1] == "Not":
            e = e[2]
            pol = not pol
        if e[0] == "call" and e[1] == T + "::is_runnable" and e[2] and mentions_call(e[2][0], "rt::thread::Set::active"):
            return switch_targets_for(t, pol)
        return None
    reached, _ = PEval(body, a_run).run()
    rewritten = []
    for b in sorted(reached):
        if body.blocks[b]["cleanup"]:
            continue
        for s in body.blocks[b]["stmts"]:
            if s["k"] in ("=", "setdiscr") and s["lhs"]["l"] == li and b not in some_active:
                rewritten.append(b)
            if s["k"] == "=" and s["rv"]["k"] in ("ref", "rawptr") and s["rv"].get("mut") and s["rv"]["place"]["l"] == li:
                bl = s["lhs"]["l"]
                into_closure = any(k2 == "stmt" and o["k"] == "=" and o["rv"]["k"] == "agg" and o["rv"].get("closure")
                                   for (b2, k2, o) in body.uses_of_local(bl))
                if not into_closure:
                    rewritten.append(b)
    if rewritten:
        ctx.bad("E3", fk, "the scheduler's default choice is rewritten although the running thread can continue: a branch of a runnable "
                "thread then defaults to another thread, and the switch is not counted as a preemption", site_str(prog, fk, rewritten[0]),
                detail="rewritten")
    if ok and recv_ok and act:
        ctx.ok("E3", fk, "default = the active thread unless it is not runnable; the default is seeded as Thread::Active", [site_str(prog, fk, some_active[0])])
    else:
        ctx.bad("E3", fk, "the scheduler's default choice must be the running thread whenever it can continue (otherwise every branch "
                "counts as a preemption): default-is-active=%s cleared-only-if-not-runnable=%s seeded-active=%s" % (bool(some_active), bool(ok), act), fn.loc())


def E4(ctx):
    """The conservative extra backtrack points exist exactly under a preemption bound, at the nearest earlier context switch."""
    prog = ctx.prog
    fk = P + "::backtrack"
    fn = need_fn(ctx, "E4", fk)
    if fn is None:
        return
    body = fn.body
    inst = prog.ident(fk)
    calls = [b for (b, t, c) in prog.sites(inst) if prog.callee_key(c) == SCH + "::backtrack"]
    if len(calls) < 2:
        ctx.bad("E4", fk, "Path::backtrack shape changed (%d Schedule::backtrack calls, expected the primary and the conservative ones)" % len(calls),
                fn.loc(), detail="shape")
        return
    r_none, _ = PEval(body, assume_option_field(P, "preemption_bound", False)).run()
    r_some, _ = PEval(body, assume_option_field(P, "preemption_bound", True)).run()
    primary = [b for b in calls if b in r_none]
    extra = [b for b in calls if b not in r_none]
    bound_guard = True      # the two scenarios differ only in the tests of Path.preemption_bound itself
    if len(primary) == 1 and len(extra) >= 1 and all(b in r_some for b in extra) and bound_guard:
        ctx.ok("E4", fk, "the conservative extra backtrack points exist only under a preemption bound", [site_str(prog, fk, b) for b in extra])
    else:
        ctx.bad("E4", fk, "the conservative extra backtrack loop must run exactly when preemption_bound.is_some() (primary=%d extra=%d)" %
                (len(primary), len(extra)), fn.loc())
    # under a bound the conservative point is added whatever became of the primary one: with a bound set and a previous schedule
    # at every step, no return is reachable after the primary call that is not preceded by a conservative backtrack call
    if len(primary) == 1 and extra:
        a_s = assume_all(assume_option_field(P, "preemption_bound", True), assume_option_field(SCH, "prev", True))
        dom = body.dominators()
        bad_ret = []
        for st in body.succs(primary[0]):
            r_s, _ = PEval(body, a_s).run(start=st, stop_blocks=set(extra))
            for rb in r_s:
                if body.term(rb)["k"] == "return" and rb not in extra:
                    bad_ret.append(rb)
        if bad_ret:
            ctx.bad("E4", fk, "with a preemption bound set, Path::backtrack can return after the primary backtrack point without adding the "
                    "conservative one: schedules a smaller bound finds are lost at a larger bound", site_str(prog, fk, bad_ret[0]), detail="skipped")
        else:
            ctx.ok("E4", fk + ":always", "the conservative point does not depend on the outcome of the primary one", [site_str(prog, fk, extra[0])])
    # ... also when the walk reaches the very first schedule (no earlier one to compare with): with a bound set, the racing
    # schedule having a predecessor, every *later* schedule looked at having none, and everything exploring, no return is
    # reachable after the primary call except through a conservative backtrack call
    if len(primary) == 1 and extra:
        base = assume_option_field(P, "preemption_bound", True)
        prev_some, prev_none = assume_option_field(SCH, "prev", True), assume_option_field(SCH, "prev", False)

        def first_sched(body_, b, t, e):
            r = base(body_, b, t, e)
            if r is not None:
                return r
            x = e
            pol = True
            while x[0] == "unop" and x[1] == "Not":
                x = x[2]
                pol = not pol
            if is_field(x, SCH, "exploring"):
                return switch_targets_for(t, pol)
            return None

        def stateful(body_, b, t, e, env):
            marker = -5001
            r = (prev_none if marker in env else prev_some)(body_, b, t, e)
            if r is not None:
                env[marker] = ("int", 1)
            return r
        first_sched.stateful = stateful
        bad_ret = []
        for st in body.succs(primary[0]):
            r_s, _ = PEval(body, first_sched).run(start=st, stop_blocks=set(extra))
            for rb in r_s:
                if body.term(rb)["k"] == "return" and rb not in extra:
                    bad_ret.append(rb)
        if bad_ret:
            ctx.bad("E4", fk, "with a preemption bound set, Path::backtrack returns from the walk over earlier schedules at the very first "
                    "schedule without adding the conservative backtrack point there", site_str(prog, fk, bad_ret[0]), detail="first-schedule")
        else:
            ctx.ok("E4", fk + ":first-schedule", "the walk ends with a conservative point at the very first schedule", [site_str(prog, fk, extra[-1])])
    # the extra point is placed where the running thread changed: active_a != active_b
    nes = [(b, t) for (b, t, c) in prog.sites(inst) if callee_path(t).endswith("PartialEq::ne")]
    if nes and all("active_thread_index" in canon(arg_expr(body, t, 0)) and "active_thread_index" in canon(arg_expr(body, t, 1)) for b, t in nes):
        ctx.ok("E4", fk + ":switch-point", "extra point at the nearest earlier context switch (or the first schedule)", [site_str(prog, fk, nes[0][0])])
    else:
        ctx.bad("E4", fk, "the extra backtrack point must be the nearest earlier branch at which the running thread changed", fn.loc(), detail="switch-point")


# ---------------------------------------------------------------------------------------- C19

def B1(ctx):
    """New branches record the exploring flag; backtrack only into exploring branches; the search for a backtrack point skips non-exploring entries."""
    prog = ctx.prog
    n = 0
    for (m, adt) in (("push_load", LOAD), ("branch_spurious", SPUR), ("branch_thread", SCH)):
        fk = P + "::" + m
        fn = need_fn(ctx, "B1", fk)
        if fn is None:
            continue
        ws = [w for w in prog.writers().get((adt, "exploring"), []) if w["fn"] == fk and w["kind"] == "construct"]
        n += 1
        if ws and all(is_field(fn.body.expr_of_operand(w["op"]), P, "exploring") for w in ws):
            ctx.ok("B1", fk + ":record", "new branch records exploring = self.exploring", [site_str(prog, fk, ws[0]["bb"])])
        else:
            ctx.bad("B1", fk, "a new %s branch must record the current exploring flag (decisions inside stop_exploring()..explore() "
                    "must not be explored)" % adt.split("::")[-1], fn.loc(), detail="record")
    # Path::backtrack: every Schedule::backtrack call dominated by that schedule's exploring
    fk = P + "::backtrack"
    fn = need_fn(ctx, "B1", fk)
    if fn is not None:
        body = fn.body
        inst = prog.ident(fk)
        for (b, t, c) in prog.sites(inst):
            if prog.callee_key(c) == SCH + "::backtrack":
                n += 1
                atoms = guard_atoms(body, b)
                if any(is_field(e, SCH, "exploring") and pol is True for (e, pol, v, sb) in atoms):
                    ctx.ok("B1", fk + ":guard", "backtrack only into exploring branches", [site_str(prog, fk, b)])
                else:
                    ctx.bad("B1", fk, "a backtrack point is added to a branch recorded as not exploring", site_str(prog, fk, b), detail="guard")
    ctx.floor("B1", n, 5, "3 recordings + the primary and at least one conservative guarded backtrack (how many call sites the "
              "conservative point has is E4's concern; step arms are checked by X3)")
    # the search for the branch to backtrack into skips non-exploring (and non-schedule) entries instead of giving up:
    # from the `exploring == false` edge and from the downcast-None edge no return is reachable except through `point == 0`
    if fn is not None:
        body = fn.body
        inst = prog.ident(fk)
        primary = None
        for (b, t, c) in prog.sites(inst):
            if prog.callee_key(c) == SCH + "::backtrack":
                primary = b if primary is None else min(primary, b)
        zero_tests = [b for b in range(body.n) if body.term(b)["k"] == "switch" and
                      (lambda e: e[0] == "binop" and e[1] == "Eq" and canon(strip(e[2])) in (body.local_name(2), "phi(%s)" % body.local_name(2)) and canon(e[3]) == "0")(body.expr_of_operand(body.term(b)["op"]))]
        skip_edges = []
        for b in range(body.n):
            t = body.term(b)
            if t["k"] != "switch" or primary is None:
                continue
            e = body.expr_of_operand(t["op"])
            if is_field(e, SCH, "exploring") and primary in body.reachable(b):
                # the guard of the primary backtrack: its false edge
                tg = switch_targets_for(t, False)
                if primary not in set().union(*[body.reachable(x, blocked=set(zero_tests)) for x in tg]) or True:
                    skip_edges.append((b, list(tg)[0]))
                break
        ok = bool(zero_tests) and bool(skip_edges)
        # iterator form of the same walk: the primary branch is what `find_map` / `find` selects from the points `0..=point`
        # taken in reverse, with the exploring test inside the search closure - every earlier point is examined until one matches
        if not zero_tests and primary is not None:
            recv = canon(arg_expr(body, body.term(primary), 0))
            searched = ("Iterator::find_map(" in recv or "Iterator::find(" in recv) and "Iterator::rev(" in recv and \
                "RangeInclusive::<Idx>::new(0, " in recv
            guarded = any(is_field(e, SCH, "exploring") and pol is True for (e, pol, v, sb) in guard_atoms(body, primary))
            if searched and guarded:
                ctx.ok("B1", fk + ":walk-back", "the primary branch is the first exploring schedule found among the points 0..=point in reverse",
                       [site_str(prog, fk, primary)])
                return
        for (sb, tgt) in skip_edges:
            r = body.reachable(tgt, blocked=set(zero_tests))
            if any(body.term(x)["k"] == "return" for x in r):
                ok = False
            # and the walk continues: the loop header (the downcast of the previous point) is reachable again
            if not any(x in body.reachable(z) for z in zero_tests for x in [sb]):
                ok = False
        if ok:
            ctx.ok("B1", fk + ":walk-back", "a non-exploring entry is skipped and the search continues with the previous branch (until point 0)",
                   [site_str(prog, fk, skip_edges[0][0])])
        else:
            ctx.bad("B1", fk, "when the racing access lies in a non-exploring region the search for an earlier exploring branch is abandoned: "
                    "decisions *before* the region are no longer fully explored", fn.loc(), detail="walk-back")


def B2(ctx):
    """Control state machine over (skipping, exploring)."""
    prog = ctx.prog

    def state_assume(skipping, exploring):
        def pred(e):
            if is_field(e, P, "skipping"):
                return skipping
            if is_field(e, P, "exploring"):
                return exploring
            return None
        return assume_expr(pred)
    table = {
        "explore_state": {(True, True): ({}, None), (True, False): ({}, None), (False, True): (None, "not in critical state"),
                          (False, False): ({"exploring": 1}, None)},
        "critical": {(True, True): ({}, None), (True, False): ({}, None), (False, False): (None, "not in exploring state"),
                     (False, True): ({"exploring": 0}, None)},
        "skip_branch": {(True, True): ({"exploring": 0, "skipping": 1}, None), (True, False): ({"exploring": 0, "skipping": 1}, None),
                        (False, True): ({"exploring": 0, "skipping": 1}, None), (False, False): ({"exploring": 0, "skipping": 1}, None)},
    }
    for m, rows in table.items():
        fk = P + "::" + m
        fn = need_fn(ctx, "B2", fk)
        if fn is None:
            continue
        body = fn.body
        for (sk, ex), (writes, panic) in rows.items():
            reached, _ = PEval(body, state_assume(sk, ex)).run()
            got = {}
            for f in ("exploring", "skipping"):
                for w in field_writes(prog, fk, P, f):
                    if w["bb"] in reached:
                        e = rv_expr(prog, w)
                        got[f] = e[1].get("int") if e[0] == "const" else "?"
            ps = [msg for (b, msg) in panic_sites(prog, fk) if b in reached]
            returns = any(body.term(b)["k"] == "return" for b in reached)
            inst_name = "%s[skipping=%s,exploring=%s]" % (m, sk, ex)
            if panic is None:
                if got == writes and returns and not ps:
                    ctx.ok("B2", inst_name, "-> %s" % (writes or "no change"), [fn.loc()])
                else:
                    ctx.bad("B2", fk, "%s in state (skipping=%s, exploring=%s) does %s%s, documented: %s" %
                            (m, sk, ex, got, " and panics" if ps else "", writes or "nothing"), fn.loc(), detail="%s-%s" % (sk, ex))
            else:
                if ps and all(panic in p for p in ps) and not returns:
                    ctx.ok("B2", inst_name, "panics \"%s\"" % panic, [fn.loc()])
                else:
                    ctx.bad("B2", fk, "%s in state (skipping=%s, exploring=%s) must panic with \"%s\" (panics=%s returns=%s)" %
                            (m, sk, ex, panic, ps, returns), fn.loc(), detail="%s-%s" % (sk, ex))


def _is_limit_test(e):
    """`<branches>.len() < <limit>` (whatever the limit is)."""
    return e[0] == "binop" and e[1] == "Lt" and "Store::<T>::len" in canon(e[2]) and mentions_field(e[2], P, "branches") is not None


def _is_config_limit_field(prog, f):
    """Path.f is initialised by Path::new from a parameter and assigned by set_max_branches from its parameter."""
    ctor = [w for w in prog.writers().get((P, f), []) if w["kind"] == "construct" and w["fn"] == P + "::new"
            and strip(prog.fns[w["fn"]].body.expr_of_operand(w["op"]))[0] == "param"]
    sets = [w for w in prog.writers().get((P, f), []) if w["kind"] == "assign" and w["fn"] == P + "::set_max_branches"
            and strip(rv_expr(prog, w))[0] == "param" and every_path_passes(prog.fns[w["fn"]].body, [w["bb"]])]
    others = [w for w in prog.writers().get((P, f), []) if w["kind"] in ("assign", "borrow_mut") and w["fn"] != P + "::set_max_branches"]
    return bool(ctor) and bool(sets) and not others


def B3(ctx):
    """Every insertion into Path.branches is dominated by the capacity assertion with the documented message."""
    prog = ctx.prog
    n = 0
    MSG = "Model exceeded maximum number of branches"
    for m in ("push_load", "branch_spurious", "branch_thread"):
        fk = P + "::" + m
        fn = need_fn(ctx, "B3", fk)
        if fn is None:
            continue
        body = fn.body
        inst = prog.ident(fk)
        ins = [b for (b, t, c) in prog.sites(inst) if prog.callee_key(c) == "rt::object::Store::<T>::insert"]
        ps = [b for (b, msg) in panic_sites(prog, fk, MSG)]
        n += 1
        full = assume_all(assume_calls({"std::thread::panicking": False}), assume_expr(lambda e: False if _is_limit_test(e) else None))
        room = assume_expr(lambda e: True if _is_limit_test(e) else None)
        r_full, _ = PEval(body, full).run()
        r_room, _ = PEval(body, room).run()
        ok = ins and ps and not any(b in r_full for b in ins) and any(b in r_full for b in ps) and all(b in r_room for b in ins) \
            and not any(b in r_room for b in ps)
        if ok:
            ctx.ok("B3", fk, "insert only if len < limit; otherwise the documented panic", [site_str(prog, fk, ins[0]), site_str(prog, fk, ps[0])])
        else:
            ctx.bad("B3", fk, "the branch limit is not enforced before inserting a branch in %s (or the documented message \"%s...\" changed)" % (m, MSG),
                    fn.loc())
        # what the length is compared against: the configured limit itself, i.e. a field of Path that Path::new and
        # set_max_branches take from their `max_branches` argument - not the allocation's capacity, which a deserialised or
        # grown vector exceeds
        for b in range(body.n):
            t = body.term(b)
            if t["k"] != "switch":
                continue
            e = body.expr_of_operand(t["op"])
            if not _is_limit_test(e):
                continue
            rhs = strip(e[3])
            if rhs[0] == "field" and rhs[3] == P and _is_config_limit_field(prog, rhs[2]):
                ctx.ok("B3", fk + ":limit", "compared against the configured Path.%s" % rhs[2], [site_str(prog, fk, b)])
            else:
                ctx.bad("B3", P, "the branch limit is enforced against `%s`, not against the configured max_branches: a path loaded from a "
                        "checkpoint has the capacity serde's growth left it (next power of two), so a resumed run accepts executions the "
                        "uninterrupted run rejects" % canon(rhs)[:60], site_str(prog, fk, b), detail="limit-by-capacity")
    fk = P + "::set_max_branches"
    fn = need_fn(ctx, "B3", fk)
    if fn is not None:
        n += 1
        inst = prog.ident(fk)
        ok = False
        pn = param_name(fn, "usize") or "max_branches"
        for (b, t, c) in prog.sites(inst):
            if prog.callee_key(c) == "rt::object::Store::<T>::reserve_exact":
                a = canon(arg_expr(fn.body, t, 1))
                ok = ("%s Sub" % pn) in a and "Store::<T>::len" in a
        sets = any(_is_config_limit_field(prog, f["name"]) for f in prog.adts[P]["variants"][0]["fields"])
        if ok or sets:
            ctx.ok("B3", fk, "installs the configured limit (%s)" % ("limit field" if sets else "reserve_exact(max_branches - len)"), [fn.loc()])
        else:
            ctx.bad("B3", fk, "set_max_branches must install the configured limit", fn.loc())
    ctx.floor("B3", n, 4, "3 insert sites + set_max_branches")


def B4b(ctx):
    """Where the thread limit is the capacity of the thread table (`Set::max()` = `threads.capacity()`), that capacity is the
    configured max_threads: the constructor sizes the table with its `max_threads` parameter, which Execution::new feeds from the
    builder's value."""
    prog = ctx.prog
    fk = "rt::thread::Set::new_thread"
    fn = need_fn(ctx, "B4b", fk)
    if fn is None:
        return
    body = fn.body
    uses_cap = False
    for b in range(body.n):
        t = body.term(b)
        if t["k"] != "switch":
            continue
        e = body.expr_of_operand(t["op"])
        for x in subexprs(e):
            if x[0] == "binop" and x[1] in ("Lt", "Le", "Ge", "Gt"):
                txt = canon(deep(prog, fk, x))
                for y in subexprs(x):
                    if y[0] == "call" and y[1] in prog.fns:
                        from .common import _simple_fn
                        cf = _simple_fn(prog, y[1])
                        if cf is not None:
                            txt += " " + canon(cf.body.expr_of_local(0))
                if "capacity(" in txt:
                    uses_cap = True
    if not uses_cap:
        ctx.ok("B4b", fk + ":limit-source", "the limit is not a container capacity", [fn.loc()])
        return
    ck = "rt::thread::Set::new"
    cfn = need_fn(ctx, "B4b", ck)
    if cfn is None:
        return
    cb = cfn.body
    sized = []
    for (b, t, c) in prog.sites(prog.ident(ck)):
        if callee_path(t).endswith("::with_capacity") and t["args"]:
            sized.append((b, strip(cb.expr_of_operand(t["args"][0]))))
    params = {cb.local_name(i) for i in range(1, cb.j["arg_count"] + 1)}
    ok = bool(sized) and all(e[0] == "param" for (b, e) in sized)
    # ... and that parameter is the configured value at the construction site
    fed = False
    for k2 in prog.fns:
        f2 = prog.fn(k2)
        if f2 is None:
            continue
        for (b, t, c) in prog.sites(prog.ident(k2)) if prog.ident(k2) is not None else []:
            if prog.callee_key(c) == ck:
                for a in t["args"]:
                    if "max_threads" in canon(f2.body.expr_of_operand(a)):
                        fed = True
    if ok and fed:
        ctx.ok("B4b", ck + ":capacity", "threads = Vec::with_capacity(max_threads), max_threads from the builder", [site_str(prog, ck, sized[0][0])])
    else:
        ctx.bad("B4b", ck, "the thread limit is enforced as `threads.len() < threads.capacity()`, but the table is not sized with the configured "
                "max_threads (%s): exceeding max_threads no longer produces the documented panic in Set::new_thread" %
                ([canon(e)[:40] for (b, e) in sized] or "no with_capacity"), cfn.loc(), detail="capacity")


def B4(ctx):
    """Thread-limit assertions before creating a thread (Set::new_thread, Scheduler::run)."""
    prog = ctx.prog
    rows = [("rt::thread::Set::new_thread", "assertion failed: self.threads.len() < self.max()", "std::vec::Vec::<T, A>::push"),
            ("rt::scheduler::Scheduler::run", "assertion failed: threads.len() < self.max_threads", "rt::scheduler::spawn_thread")]
    for (fk, msg, guarded) in rows:
        ids = prog.by_def.get(fk, [])
        fn = need_fn(ctx, "B4", fk)
        if fn is None:
            continue
        body = fn.body
        ps = [b for (b, m_) in panic_sites(prog, fk, msg)]
        inst = prog.ident(fk)
        gs = [b for (b, t, c) in prog.sites(inst) if prog.callee_key(c) == guarded and not body.blocks[b]["cleanup"]]
        lt_false = assume_expr(lambda e: False if (e[0] == "binop" and e[1] == "Lt" and "len(" in canon(e[2])) else None)
        r, _ = PEval(body, lt_false).run()
        # in Scheduler::run the first spawn (main thread) is unguarded by design: consider spawns inside the loop only
        loop_gs = [b for b in gs if any(b in body.reachable(s) for s in body.succs(b))] or gs
        ok = ps and loop_gs and all(b not in r for b in loop_gs) and any(b in r for b in ps)
        if ok:
            ctx.ok("B4", fk, "thread limit asserted before creating a thread", [site_str(prog, fk, ps[0])])
        else:
            ctx.bad("B4", fk, "max_threads is not enforced before a thread is created (documented panic: \"%s\")" % msg, fn.loc())
