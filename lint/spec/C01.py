"""C01 - every interleaving outcome is explored (necessary structural conditions of the DPOR machinery)."""
from . import g_dpor
from .common import *

EXPLANATION = ("Decides necessary conditions for DPOR to consider both orders of conflicting operations, on the MIR of the current tree: "
               "visibility of every modelled operation as a branch point (V1), results read after the branch (V2), algebraic laws of the "
               "per-object dependence tables extracted from last_dependent_access/set_last_access (T1 symmetry, T2 overwrite soundness, "
               "T3 required conflicts, T6 recency selection), wiring of Execution::schedule (T4), dispatch exhaustiveness (T5), and how a detected "
               "race becomes a backtrack point (E1: the racing thread if enabled there, else all threads; B1: walk-back). Completeness of the reduction "
               "itself and which outcomes appear are not decided."
               " Added after the seeding rounds: the lookup consults only the action, the access slots and markers set_last_access maintains (T7), Thread.dpor_vv is written only at spawn and in schedule (T8), no extra condition on recording a backtrack point (T4), an RMW is offered every maximal store (M5b), and the generic cross-checks G0 (no new condition on a backtrack/arm/branch/record-access step) and G1 (no such step dropped from a path) against the reference tree. What a non-blocking try_* operation can observe changes only at branch points (V4; on the current tree lock releases are not branch points: known finding KF-N).")
RULE_TEXT = ("rule instances = operations (V1/V2), dependence-table cells (T1-T3), wiring events (T4), dispatch arms (T5); "
             "non-trivial when matched to concrete MIR sites")
LEVEL_NOTE = "necessary conditions only; the DPOR completeness theorem is not decided"


def run(ctx):
    g_dpor.run_all(ctx, ["V1", "V2", "V3", "T1", "T2", "T3", "T4", "T5", "T6", "T7", "T8"])
    from . import g_state, pathrules
    g_state.S9(ctx)
    # where a race is turned into a backtrack point: the racing thread if it is enabled there, otherwise every thread (the one
    # that can unblock it is unknown); and the walk back to a point that may still be changed
    pathrules.E1(ctx)
    pathrules.B1(ctx)
    # ... and survives until it is explored: the explored alternative is retired before the next one is promoted
    pathrules.X6(ctx)
    # what a non-blocking operation can observe changes only at branch points
    from . import round6
    round6.V4(ctx)
    from . import atomics
    atomics.M5b(ctx)
    from . import guardvocab
    guardvocab.G0(ctx, effects={'backtrack', 'record-access', 'branch', 'explore'})
    guardvocab.G1(ctx, effects={'backtrack', 'record-access', 'branch', 'explore'})
    guardvocab.G2(ctx, scopes=('rt::object::Ref', 'rt::access::', 'rt::path::', 'rt::execution::Execution::schedule', 'rt::arc::State::set_last_access'))
    guardvocab.G3(ctx, scopes=('rt::object::Ref', 'rt::access::', 'rt::path::', 'rt::execution::Execution::schedule', 'rt::arc::State::set_last_access'))
