"""Rules added in the third build session after the side remarks of the round-6 seeding agents were triaged against the real
code (triage/tests/side_remarks_r6.rs, triage/tests/try_lock_blocked.rs): V4, W6, M7."""
from .common import *
from .g_state import _registrations  # noqa: F401  (same registration walk as S10)

SCHEDULE = "rt::execution::Execution::schedule"


def _writer_entries(prog, adt, field, module):
    """rt-level operations (non-closure functions of `module`) that assign `adt.field`, excluding constructors."""
    out = {}
    for w in prog.writers().get((adt, field), []):
        if w["kind"] != "assign" or not w["exact"]:
            continue
        fk = enclosing_fn(w["fn"])
        if not fk.startswith(module) or prog.fn(fk) is None:
            continue
        out.setdefault(fk, []).append((w["fn"], w["bb"]))
    return out


def V4(ctx):
    """What a non-blocking operation can observe, it can observe at every point the observed state changes: a lock that offers
    `try_*` operations (which read the lock state after their own branch point and never wait) must make every operation that
    *changes* that state a branch point too.  Otherwise the state change and everything the changing thread does up to its
    next branch point are one atomic step for the scheduler, and "try_lock fails because the holder is inside its critical
    section" is explored only when the critical section happens to contain another branch point."""
    prog = ctx.prog
    kinds = [
        ("rt::mutex::State", "lock", "rt::mutex::", ["rt::mutex::Mutex::try_acquire_lock"]),
        ("rt::rwlock::State", "lock", "rt::rwlock::", ["rt::rwlock::RwLock::try_acquire_read_lock", "rt::rwlock::RwLock::try_acquire_write_lock"]),
    ]
    live = assume_scenario(prog, {"rt::thread::Set::is_active": True})
    n = 0
    for adt, field, module, tries in kinds:
        tries_present = [t for t in tries if prog.fn(t) is not None]
        if not tries_present:
            ctx.missing("V4", tries[0], "non-blocking entry point not found")
            continue
        entries = _writer_entries(prog, adt, field, module)
        if not entries:
            ctx.missing("V4", "%s.%s" % (adt, field), "no writer of the lock state found")
            continue
        # writers are reached from the rt operations that call them (post_acquire* is called by acquire / try_acquire)
        ops = {}
        for wfk in entries:
            callers = {enclosing_fn(s["fn"]) for s in call_sites(prog, wfk)}
            callers = {c for c in callers if c.startswith(module) and c != wfk}
            for op in (callers or {wfk}):
                ops.setdefault(op, set()).add(wfk)
        roots = [prog.ident(k) for k in ops if prog.ident(k) is not None]
        ea = EventAnalysis(prog, path_matcher({"schedule": SCHEDULE}), assume=live).solve(roots)
        for op, writers in sorted(ops.items()):
            i = prog.ident(op)
            if i is None:
                continue
            n += 1
            if ea.holds_on_all_paths(i, "schedule"):
                ctx.ok("V4", op, "changes %s.%s at a branch point" % (adt.split("::")[-2], field), [prog.fns[op].loc()])
            else:
                ctx.bad("V4", op, "%s changes `%s.%s` (through %s) without being a branch point, although %s can observe that state without "
                        "waiting: the scheduler cannot run another thread between this change and the caller's next branch point, so a "
                        "`try_*` that fails (or succeeds) exactly in that window is explored only if another branch point happens to lie in "
                        "it" % (op, adt, field, ", ".join(sorted(w.split("::")[-1] for w in writers)),
                                " / ".join(t.split("::")[-1] for t in tries_present)), prog.fns[op].loc())
    ctx.floor("V4", n, 5, "mutex acquire/try/release + rwlock acquire/try/release operations that write the lock state")


WAITERS = ("rt::condvar::State", "waiters")
REMOVERS = ("retain", "remove", "retain_mut")


def W6(ctx):
    """A thread that returns from `Condvar::wait` is no longer in the condvar's waiter queue, however it was resumed: after
    `park` returns, every path removes the resuming thread's own entry (it may have been resumed by a stored park token or a
    direct `unpark`, not by `notify_*` which pops the entry).  A stale entry makes a later `notify_one` wake nobody."""
    prog = ctx.prog
    fk = "rt::condvar::Condvar::wait"
    root = prog.ident(fk)
    if root is None:
        ctx.missing("W6", fk)
        return

    def m(prog_, i, b, t, c):
        k = prog_.callee_key(c)
        out = []
        if k == "rt::park":
            out.append("park")
        cp = callee_path(t)
        last = cp.split("::")[-1]
        if t["args"] and ((last in ("retain", "retain_mut") and "VecDeque" in cp) or last in ("position", "rposition")):
            body_ = prog_.body_of(i)
            if mentions_field(deep(prog_, prog_.insts[i].key, body_.expr_of_operand(t["args"][0])), *WAITERS) is not None:
                if last in ("retain", "retain_mut"):
                    out.append("dequeue-self")
                else:
                    # `if let Some(i) = waiters.iter().position(..) { waiters.remove(i) }`: the search is performed on every
                    # path, the removal exactly when the entry is there
                    inst_ = prog_.insts[i]
                    for (b2, t2, c2) in prog_.sites(i):
                        cp2 = callee_path(t2)
                        if cp2.split("::")[-1] == "remove" and "VecDeque" in cp2 and t2["args"] and \
                                mentions_field(deep(prog_, inst_.key, body_.expr_of_operand(t2["args"][0])), *WAITERS) is not None:
                            out.append("dequeue-self")
                            break
        return out
    ea = EventAnalysis(prog, m).solve([root])
    ms = ea.must_of(root)
    ok = ms is not TOP and "park" in ms and "dequeue-self" in ms and not ea.must_before(root, "park", "dequeue-self")
    if ok:
        ctx.ok("W6", fk, "after park returns the thread removes its own entry from State.waiters on every path", [prog.fns[fk].loc()])
    else:
        ctx.bad("W6", fk, "Condvar::wait can return while the thread is still listed in `State.waiters`: park also returns for a stored "
                "unpark token / a direct unpark, which do not pop the queue; a later notify_one is then spent on this stale entry and "
                "a thread that really waits is never woken (false deadlock)", prog.fns[fk].loc(), detail="stale-waiter")


def M7(ctx):
    """A read-modify-write that can fail is a load on its failure path (C11 [atomics.types.operations]: a failed
    compare_exchange performs only a load): the stores offered to an RMW whose closure may return `Err` must include what a
    load of the same ordering could read, not only the modification-order-maximal stores an RMW that *writes* must read."""
    prog = ctx.prog
    ck = "rt::atomic::Atomic::<T>::rmw"
    fn = prog.fn(ck)
    if fn is None:
        ctx.missing("M7", ck)
        return
    ST = "rt::atomic::State::"
    calls = set()
    for k in [ck] + list(prog.closures_of(ck)):
        i = prog.ident(k)
        if i is None:
            continue
        for (b, t, c) in prog.sites(i):
            calls.add(prog.callee_key(c))
    # does State::rmw have a failure arm that only loads?  (sync_load with the failure ordering and no store on that arm)
    rk = ST + "rmw"
    rfn = prog.fn(rk)
    if rfn is None or ST + "match_rmw_to_stores" not in calls:
        ctx.missing("M7", rk if rfn is None else ck, "candidate selection of the RMW not found")
        return
    inst = prog.ident(rk)
    has_err_arm = False
    for b in range(rfn.body.n):
        t = rfn.body.term(b)
        if t["k"] == "switch":
            e = rfn.body.expr_of_operand(t["op"])
            if e[0] == "discr" and "Result" in str(e[2] or "") + canon(e)[:0]:
                has_err_arm = True
            if e[0] == "discr" and e[3] and {"Ok", "Err"} <= {n_ for (_, n_) in e[3]}:
                has_err_arm = True
    if not has_err_arm:
        ctx.ok("M7", ck, "State::rmw has no load-only failure arm", [rfn.loc()])
        return
    if ST + "match_load_to_stores" in calls:
        ctx.ok("M7", ck, "a failing RMW is offered the load candidates", [fn.loc()])
    else:
        ctx.bad("M7", ck, "the stores offered to a read-modify-write come only from match_rmw_to_stores (the modification-order-maximal "
                "stores), although State::rmw has a failure arm that performs only a load: a failing compare_exchange can never read a "
                "stale value C11 allows it to read (y.load()==1 then x.compare_exchange(5,6) == Err(0) is never produced)", fn.loc(),
                detail="failure-candidates")


def Y5(ctx):
    """The happens-before edge of `unpark` belongs to the `park` that consumes the token (std: "unpark synchronizes-with the park
    that returns because of it"): the unpark operation itself must not join the unparker's clock into the *running view*
    (`Thread.causality`) of the target - a target that never parks has not synchronised with anybody, and its accesses that
    race with the unparker's earlier writes must still be reported."""
    prog = ctx.prog
    T = "rt::thread::Thread"
    VVJ = "rt::vv::VersionVec::join"
    n = 0
    for fk in ("rt::thread::Thread::unpark", "rt::thread::Set::unpark"):
        fn = prog.fn(fk)
        if fn is None:
            continue
        for k in [fk] + list(prog.closures_of(fk)):
            i = prog.ident(k)
            if i is None:
                continue
            body = prog.fns[k].body
            for (b, t, c) in prog.sites(i):
                if prog.callee_key(c) != VVJ or body.blocks[b]["cleanup"]:
                    continue
                n += 1
                a0 = arg_expr(body, t, 0)
                a1 = arg_expr(body, t, 1)
                if mentions_field(a0, T, "causality") is not None and mentions_field(a1, T, "causality") is not None:
                    ctx.bad("Y5", fk, "the unpark operation joins the unparker's clock straight into the target's `causality`: the target "
                            "acquires the unparker's writes at the moment of the call, even if it never parks (or parks much later); an "
                            "access of the target that races with those writes is then not reported (`c.with_mut(..); t.unpark()` against "
                            "`t: c.with(..)` passes)", site_str(prog, k, b), detail="eager-join")
                else:
                    ctx.ok("Y5", fk, "the unparker's clock is stored with the token, not joined into the target's view", [site_str(prog, k, b)])
    if n == 0:
        ctx.missing("Y5", "rt::thread::Thread::unpark", "no clock transfer found in the unpark operation")


def P4c(ctx):
    """User values owned by the execution (thread-local and lazy-static values) are not destroyed outside the model scope when
    an iteration panics: in `Builder::check`, the cleanup reached from the unwind edge of `Scheduler::run` must not drop a value
    whose destructor can reach user-owned data (`dyn Any` boxes of `thread_local!` / `lazy_static!` values).  Their destructors
    may drop loom handles, which need the execution (`STATE` is already unset there): a second panic during unwinding aborts."""
    prog = ctx.prog
    k = "model::Builder::check"
    fn = prog.fn(k)
    if fn is None:
        ctx.missing("P4c", k)
        return
    n = 0
    for bk in [k] + list(prog.closures_of(k)):
        inst = prog.ident(bk)
        if inst is None:
            continue
        body = prog.fns[bk].body
        runs = [(b, t) for (b, t, c) in prog.sites(inst) if prog.callee_key(c) == "rt::scheduler::Scheduler::run"]
        for (b, t) in runs:
            n += 1
            uw = t.get("unwind")
            if not isinstance(uw, int):
                ctx.ok("P4c", k, "no cleanup on the unwind edge of Scheduler::run", [site_str(prog, bk, b)])
                continue
            bad = []
            for cb in sorted(body.reachable(uw, unwind=True)):
                ct = body.term(cb)
                if ct["k"] == "drop":
                    g = prog.insts[inst].drops.get(cb, {})
                    # (the model closure `F` itself cannot own objects of an execution; boxes of `dyn Any` are the values of
                    # thread_local! / lazy_static!)
                    if any(str(o).startswith("dyn:") for o in (g.get("opaque") or [])) and "rt::" in ct["ty"]:
                        bad.append((cb, ct["ty"]))
            if bad:
                # one finding however the drop of the execution is elaborated (whole `Execution`, or its fields one by one)
                ctx.bad("P4c", k, "when an iteration panics, the values of the model with opaque user destructors (the boxed thread_local! / "
                        "lazy_static! values, owned by %s) are dropped by the cleanup of Builder::check, after the model scope has ended: "
                        "a value that owns a loom Arc panics again in its destructor and the process aborts instead of failing the test" %
                        ", ".join(sorted({ty_ for (_, ty_) in bad})), site_str(prog, bk, bad[0][0]), detail="user-values")
            else:
                ctx.ok("P4c", k, "the unwind path of Scheduler::run drops no execution-owned user values", [site_str(prog, bk, b)])
    if n == 0:
        ctx.missing("P4c", k, "the call of Scheduler::run was not found")


# ---- the unpark edge in two steps ---------------------------------------------------------------------------------------------

VVJ_ = "rt::vv::VersionVec::join"
T_ = "rt::thread::Thread"


def unpark_clock_field(prog):
    """The field of `Thread` in which the unpark operation deposits the unparker's clock for the target's next `park` (the clock
    that travels with the park token), or None when the unpark operation joins straight into `causality` (or not at all)."""
    for fk in ("rt::thread::Thread::unpark", "rt::thread::Set::unpark"):
        if prog.fn(fk) is None:
            continue
        for k in [fk] + list(prog.closures_of(fk)):
            i = prog.ident(k)
            if i is None:
                continue
            body = prog.fns[k].body
            for (b, t, c) in prog.sites(i):
                if prog.callee_key(c) != VVJ_ or body.blocks[b]["cleanup"]:
                    continue
                a0 = strip(arg_expr(body, t, 0))
                a1 = arg_expr(body, t, 1)
                if mentions_field(a1, T_, "causality") is None:
                    continue
                for x in subexprs(a0):
                    if x[0] == "field" and x[3] == T_ and x[2] not in ("causality", "released", "dpor_vv"):
                        return x[2], fk, k, b
    return None


def Y1u(ctx):
    """The unpark edge: the unparker's clock reaches the target's `causality` - either joined by the unpark operation itself, or
    deposited with the token (a clock field of the target) by the unpark operation and acquired by `rt::park` on every path on
    which it returns (token consumed; woken from the blocked state)."""
    prog = ctx.prog
    found = unpark_clock_field(prog)
    if found is None:
        return False        # the eager form (or nothing): judged by the direct-join rule
    fld, fk, k, b = found
    body = prog.fns[k].body
    # (1) the deposit is unconditional, except on the self-unpark path
    def _other_thread(e):
        if e[0] == "call" and (e[1].endswith("PartialEq::eq") or e[1].endswith("PartialEq::ne")) and len(e[2]) == 2 and \
                any(mentions_call(x, "rt::thread::Set::active_id") is not None or mentions_field(x, "rt::thread::Set", "active") for x in e[2]) and \
                any(strip(x)[0] == "param" for x in e[2]):
            return e[1].endswith("::ne")
        return None
    reached_, _ = PEval(body, assume_expr(_other_thread)).run(stop_blocks=[b])
    if every_path_passes(body, [b]) or not any(body.term(rb)["k"] == "return" and rb != b for rb in reached_):
        ctx.ok("Y1", fk, "unpark: the unparker's clock is deposited in the target's `%s` on every path" % fld, [site_str(prog, k, b)])
    else:
        ctx.bad("Y1", fk, "happens-before edge is conditional (unpark: the unparker's clock is not deposited for the target on some path of %s)" % fk,
                site_str(prog, k, b), detail="join-conditional")
    # (2) park acquires it on every return path
    pk = "rt::park"
    root = prog.ident(pk)
    if root is None:
        ctx.missing("Y1", pk)
        return True

    def m(prog_, i, b_, t, c):
        if prog_.callee_key(c) == VVJ_:
            body_ = prog_.body_of(i)
            a0 = deep(prog_, prog_.insts[i].key, arg_expr(body_, t, 0))
            a1 = deep(prog_, prog_.insts[i].key, arg_expr(body_, t, 1))
            if mentions_field(a0, T_, "causality") is not None and mentions_field(a1, T_, fld) is not None:
                return ["acquire-unpark"]
        return []
    ea = EventAnalysis(prog, m).solve([root])
    ms = ea.must_of(root)
    if ms is not TOP and "acquire-unpark" in ms:
        ctx.ok("Y1", pk, "park joins `%s` into the parking thread's causality on every return path (token consumed / woken)" % fld, [prog.fns[pk].loc()])
    else:
        ctx.bad("Y1", pk, "missing happens-before edge (unpark -> park): on some return path of rt::park the clock deposited by the unparker "
                "(`Thread.%s`) is not joined into the thread's causality, so what the unparker wrote before `unpark` is not ordered before "
                "the continuation of the woken thread" % fld, prog.fns[pk].loc(), detail="join")
    # (3) nobody else writes the deposited clock
    for w in prog.writers().get((T_, fld), []):
        wf = enclosing_fn(w["fn"])
        if w["kind"] == "construct" and wf == T_ + "::new":
            continue
        if wf in ("rt::thread::Thread::unpark", "rt::thread::Set::unpark") and w["kind"] == "borrow_mut":
            continue
        if w["kind"] == "assign" and is_reinit_write(prog, w, T_, fld, T_ + "::new"):
            continue
        ctx.bad("Y2", wf, "the clock that travels with the park token (`Thread.%s`) is modified by %s: only the unpark operation deposits "
                "into it" % (fld, wf), site_str(prog, w["fn"], w["bb"]), detail="unpark-clock")
    return True
