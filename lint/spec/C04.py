"""C04 - data races are reported exactly (structural clauses only)."""
from . import g_sync
from .common import *

EXPLANATION = ("Decides, on the MIR of the current tree, that every unsynchronised-access API passes through its tracker (R1), "
               "that the conflict matrix of the trackers is symmetric and equals the definition of a data race (R2), and that the "
               "inventory of happens-before edges is exactly the promised one (Y1 required edges, Y2 no others, Y3/Y4 ordering "
               "tables, O4 thread-local fence predicate). Not decided: that clock comparison equals happens-before on every execution."
               " G0/G1 cross-check the tracking and acquire/release/join steps against the reference tree.")
RULE_TEXT = ("rule instances = primitive sides (required edge), causality writers (allowed edge), ordering-table cells; "
             "non-trivial when matched to a concrete call site / table cell in MIR")
LEVEL_NOTE = "necessary conditions only"


def run(ctx):
    from . import guardvocab
    guardvocab.G0(ctx, effects={'track', 'release', 'join', 'acquire'})
    guardvocab.G1(ctx, effects={'track', 'release', 'join', 'acquire'})
    guardvocab.G2(ctx, scopes=('rt::cell::', 'rt::location::', 'rt::atomic::', 'rt::synchronize::'))
    guardvocab.G3(ctx, scopes=('rt::cell::', 'rt::location::', 'rt::atomic::', 'rt::synchronize::', 'cell::', 'sync::atomic::'))
    from . import races
    races.R1(ctx)
    races.R2(ctx)
    g_sync.run_all(ctx, ["Y1", "Y1c", "Y2", "Y3", "Y4", "O4", "O5"])
    # an edge that exists too early hides a race just as an extra edge does
    from . import round6
    round6.Y5(ctx)
    # which ordering reaches the runtime decides which edges exist, hence which races are hidden
    from . import atomics
    atomics.O1(ctx)
