"""C09 - mpsc delivers once, in order, with ordering (structural clauses only)."""
from . import g_dpor, g_state, g_sync
from .common import *

EXPLANATION = ("Decides on the MIR of the current tree: visibility and dependence of channel operations (V1/V2/T3 channel rows), block/wake guards "
               "of the channel (S3,S5,S7), the send->recv happens-before edge with one clock per message in FIFO order (Y1 channel rows), the "
               "writers of the message counter (Q1), that bookkeeping and the carrying std channel act in one step (Q2), that recv blocks on "
               "emptiness (D2) and that dropping the receiver drains (Q4). Exactly-once/in-order delivery is carried by std's channel (trusted)."
               " A message the std channel refuses is taken out of the modelled count again (Q5); G0/G1 cross-check send/recv.")
RULE_TEXT = "rule instances = channel operations, counter writers, ordered steps; non-trivial when matched to concrete MIR sites"
LEVEL_NOTE = "necessary conditions only; std::sync::mpsc trusted"

CH = ("rt::mpsc", "sync::mpsc")
CSTATE = "rt::mpsc::State"


def Q1(ctx):
    """Writers of the channel message counter: 0 at creation, checked_add(1) in send, checked_sub(1) in recv."""
    prog = ctx.prog
    n = 0
    allowed = {"rt::mpsc::Channel::new": None, "rt::mpsc::Channel::send": "checked_add", "rt::mpsc::Channel::recv": "checked_sub",
               "rt::mpsc::Channel::send_failed": "checked_sub"}
    for w in prog.writers().get((CSTATE, "msg_cnt"), []):
        fk = enclosing_fn(w["fn"])
        body = prog.fns[w["fn"]].body
        n += 1
        if fk not in allowed:
            ctx.bad("Q1", fk, "message counter written outside new/send/recv", site_str(prog, w["fn"], w["bb"]))
            continue
        if w["kind"] == "construct":
            e = body.expr_of_operand(w["op"])
            if e[0] == "const" and e[1].get("int") == 0:
                ctx.ok("Q1", fk, "channel starts empty", [site_str(prog, w["fn"], w["bb"])])
            else:
                ctx.bad("Q1", fk, "a new channel must start with msg_cnt = 0", site_str(prog, w["fn"], w["bb"]), detail="init")
            continue
        e = body.expr_of_rvalue(w["stmt"]["rv"]) if w["kind"] == "assign" and w["stmt"]["k"] == "=" else \
            ("call", callee_path(w["stmt"]), [body.expr_of_operand(a) for a in w["stmt"].get("args", [])]) if w["kind"] == "assign" else None
        txt = canon(e) if e else ""
        want = allowed[fk]
        one = ", 1)" in txt
        if e is not None and want in txt and one and mentions_field(e, CSTATE, "msg_cnt"):
            ctx.ok("Q1", fk, "msg_cnt = msg_cnt.%s(1)" % want, [site_str(prog, w["fn"], w["bb"])])
        else:
            ctx.bad("Q1", fk, "message counter must change by exactly one via %s (found %s)" % (want, txt[:100]), site_str(prog, w["fn"], w["bb"]), detail="step")
    ctx.floor("Q1", n, 3, "new, send, recv")


def Q5(ctx):
    """A message the std channel refuses (the receiver is gone: `send` returns `Err(SendError(msg))`, the message goes back to the
    caller) must not stay counted in the model: on the Err path of Sender::send the count taken by rt::Channel::send is given
    back, otherwise a program that holds nothing is reported as `Messages leaked`."""
    prog = ctx.prog
    fk = "sync::mpsc::Sender::<T>::send"
    fn = need_fn(ctx, "Q5", fk)
    if fn is None:
        return
    body = fn.body
    inst = prog.ident(fk)
    std_send = [(b, t) for (b, t, c) in prog.sites(inst) if prog.callee_key(c) == "std::sync::mpsc::Sender::<T>::send"]
    if not std_send:
        ctx.missing("Q5", fk, "no call of the carrying std channel")
        return
    # functions of the modelled channel that take a message out of the count
    dec = set()
    for w in prog.writers().get((CSTATE, "msg_cnt"), []):
        if w["kind"] == "assign":
            e = rv_expr(prog, w) if w["stmt"]["k"] == "=" else ("call", callee_path(w["stmt"]), [prog.fns[w["fn"]].body.expr_of_operand(a) for a in w["stmt"].get("args", [])])
            if "checked_sub" in canon(e) or " Sub" in canon(e):
                dec.add(enclosing_fn(w["fn"]))
    sb, st = std_send[0]
    want = canon(("call", callee_path(st), [body.expr_of_operand(a) for a in st["args"]], sb))

    def err_path(body_, b_, t_, e):
        pol = True
        while e[0] == "unop" and e[1] == "Not":
            e = e[2]
            pol = not pol
        if e[0] == "discr" and canon(strip(e[1])) == want:
            names = dict((n_, v_) for (v_, n_) in (e[3] or []))
            tgt = [tb for (val, tb) in t_["targets"] if val == names.get("Err")]
            return set(tgt) if tgt else {t_["otherwise"]}
        if e[0] == "call" and e[2] and canon(strip(e[2][0])) == want:
            if e[1].endswith("Result::<T, E>::is_err"):
                return switch_targets_for(t_, pol)
            if e[1].endswith("Result::<T, E>::is_ok"):
                return switch_targets_for(t_, not pol)
        return None
    reached, _ = PEval(body, err_path).run(start=sb)
    gives_back = [b for (b, t, c) in prog.sites(inst) if b in reached and b != sb and prog.callee_key(c) in dec and prog.callee_key(c) != "rt::mpsc::Channel::recv"]
    tests = any(body.term(b)["k"] == "switch" and err_path(body, b, body.term(b), body.expr_of_operand(body.term(b)["op"])) is not None for b in range(body.n))
    if gives_back and tests:
        ctx.ok("Q5", fk, "a refused message is taken out of the modelled count again (%s)" % prog.callee_key(prog.insts[inst].calls[gives_back[0]]).split("::")[-1],
               [site_str(prog, fk, gives_back[0])])
    else:
        ctx.bad("Q5", fk, "when the std channel refuses the message (receiver dropped: `Err(SendError(msg))`) the modelled channel keeps "
                "counting it: the iteration ends with `Messages leaked` although the message went back to the caller", site_str(prog, fk, sb),
                detail="uncompensated-error")


def Q2(ctx):
    """rt bookkeeping and the carrying std channel operate in one step: no branch point between them."""
    prog = ctx.prog
    rows = [("sync::mpsc::Sender::<T>::send", "rt::mpsc::Channel::send", "std::sync::mpsc::Sender::<T>::send"),
            ("sync::mpsc::Receiver::<T>::recv", "rt::mpsc::Channel::recv", "std::sync::mpsc::Receiver::<T>::recv")]
    for (fk, rt_op, std_op) in rows:
        fn = need_fn(ctx, "Q2", fk)
        if fn is None:
            continue
        inst = prog.ident(fk)
        seq = [(b, prog.callee_key(c)) for (b, t, c) in prog.sites(inst) if not is_noise(t)]
        keys = [k for _, k in seq]
        if rt_op in keys and std_op in keys:
            i0, i1 = keys.index(rt_op), keys.index(std_op)
            between = [k for k in keys[i0 + 1:i1] if k.startswith("rt::") and "location" not in k and k != "rt::execution"]
            ea = EventAnalysis(prog, path_matcher({"rt": rt_op, "std": std_op}), stop=lambda i: prog.insts[i].key != fk).solve([inst])
            if i0 < i1 and not between and not ea.must_before(inst, "rt", "std"):
                ctx.ok("Q2", fk, "%s immediately followed by the std operation" % rt_op.split("::")[-1], [fn.loc()])
                continue
        ctx.bad("Q2", fk, "modelled bookkeeping (%s) and the carrying %s are not adjacent: another thread can interleave between them" % (rt_op, std_op), fn.loc())


def Q4(ctx):
    """Dropping the Receiver drains the channel with recv() while !is_empty() (live execution)."""
    prog = ctx.prog
    fk = "<sync::mpsc::Receiver<T> as std::ops::Drop>::drop"
    fn = need_fn(ctx, "Q4", fk)
    if fn is None:
        return
    body = fn.body
    inst = prog.ident(fk)
    recvs = [b for (b, t, c) in prog.sites(inst) if prog.callee_key(c) == "sync::mpsc::Receiver::<T>::recv"]
    empt = [b for (b, t, c) in prog.sites(inst) if prog.callee_key(c) == "rt::mpsc::Channel::is_empty"]
    ok = bool(recvs) and bool(empt)
    for rb in recvs:
        # in a loop guarded by !is_empty
        in_loop = any(rb in body.reachable(s) for s in body.succs(rb))
        guarded = unreachable_if(body, rb, assume_calls({"rt::mpsc::Channel::is_empty": True}))
        ok = ok and in_loop and guarded
    # returns only when empty
    for rb in body.return_blocks():
        # (a deadlocked execution - no active thread - is exempt: cleanup does not matter, see C06/P2)
        reached, _ = PEval(body, assume_scenario(prog, {"rt::mpsc::Channel::is_empty": False, "rt::thread::Set::is_active": True})).run()
        if rb in reached:
            ok = False
    if ok:
        ctx.ok("Q4", fk, "drains with recv() while !is_empty()", [site_str(prog, fk, recvs[0])])
    else:
        ctx.bad("Q4", fk, "dropping the Receiver must drain the channel (messages would otherwise be reported as leaked / destructors skipped)", fn.loc())
WITNESSES = ['C09ReceiverNotSync']


def run(ctx):
    from . import guardvocab
    guardvocab.G0(ctx, effects={'send', 'recv'})
    guardvocab.G1(ctx, effects={'send', 'recv'})
    guardvocab.G2(ctx, scopes=('rt::mpsc::', 'sync::mpsc::'))
    guardvocab.G3(ctx, scopes=('rt::mpsc::', 'sync::mpsc::'))
    g_dpor.V1(ctx, subset=CH)
    g_dpor.V2(ctx, subset=CH)
    g_dpor.T3(ctx, mods=["rt::mpsc"])
    g_dpor.T1(ctx, mods=["rt::mpsc"])
    g_state.run_all(ctx, ["S3", "S5", "S7", "S9", "D2"])
    g_dpor.V3(ctx, subset=("rt::mpsc",))
    g_sync.run_all(ctx, ["Y1:channel"])
    Q1(ctx)
    Q2(ctx)
    Q4(ctx)
    Q5(ctx)
