"""G0 - no new condition on an effect.  For the effect call sites the properties hinge on (blocking / waking a thread, recording
a backtrack point, synchronising clocks, tracking an access, scanning for leaks, ...) the *vocabulary* of their guards - which
loom-local fields and predicates the conditions dominating the site mention - is recorded on the reference tree
(lint/reference.json, "guard_vocab").  A site whose guards mention something the reference guards of that effect in that
function never mentioned has gained a condition: the typical shape of "a step that was unconditional got a bypass".
Spelling changes do not matter (std combinators, `is_some`/`match`, helper predicates are normalised away); a genuinely new
state field or predicate in front of an effect does."""
from .common import *

EFFECTS = {
    # callee -> short name
    "rt::thread::Thread::set_blocked": "block", "rt::thread::Thread::set_runnable": "wake", "rt::thread::Thread::set_yield": "yield",
    "rt::thread::Thread::set_terminated": "terminate", "rt::thread::Thread::set_unparked": "unpark",
    "rt::path::Path::backtrack": "backtrack", "rt::path::Schedule::backtrack": "backtrack", "rt::path::Thread::explore": "explore",
    "rt::synchronize::Synchronize::sync_load": "acquire", "rt::synchronize::Synchronize::sync_store": "release",
    "rt::vv::VersionVec::join": "join", "rt::execution::Execution::schedule": "schedule",
    "rt::object::Store::check_for_leaks": "leak-scan", "rt::execution::Execution::check_for_leaks": "leak-scan",
    "rt::object::Store::set_last_access": "record-access", "rt::access::Access::set_or_create": "record-access",
    "rt::location::LocationSet::track": "track", "rt::atomic::State::track_load": "track", "rt::atomic::State::track_store": "track",
    "rt::atomic::State::track_unsync_load": "track", "rt::cell::State::track_read": "track", "rt::cell::State::track_write": "track",
    "rt::path::Path::branch_thread": "branch", "rt::path::Path::branch_load": "branch", "rt::path::Path::branch_spurious": "branch",
    "rt::path::Path::push_load": "branch", "rt::scheduler::Scheduler::switch": "switch", "rt::thread_done": "thread-done",
    "rt::lazy_static::Set::init_static": "init-static", "rt::arc::Arc::ref_inc": "ref-inc", "rt::arc::Arc::ref_dec": "ref-dec",
    "rt::mpsc::Channel::send": "send", "rt::mpsc::Channel::recv": "recv", "rt::notify::Notify::notify": "notify", "rt::notify::Notify::wait": "wait",
}


def _known_adt(prog, a):
    from .. import normalize
    ref = normalize.reference().get("adts") or {}
    return a in prog.adts and (a in ref or not ref or prog.adts[a].get("kind") != "struct")


def _fn_tokens(prog, key, depth, seen):
    """Vocabulary of a local predicate / accessor: the state it reads, through its own guards, returned expressions, the
    closures it hands to iterator adaptors, and the local functions it calls (so that naming a predicate and writing its body
    in place give the same vocabulary)."""
    if key in seen or depth > 3:
        return set()
    seen = seen | {key}
    f = prog.fns.get(key)
    if f is None or f.j.get("stub"):
        return set()
    out = set()
    bodies = [key] + list(prog.closures_of(key))
    for bk in bodies:
        body = prog.fns[bk].body
        exprs = []
        for b in range(body.n):
            if body.blocks[b]["cleanup"]:
                continue
            t = body.term(b)
            if t["k"] == "switch":
                exprs.append(body.expr_of_operand(t["op"]))
            for st in body.blocks[b]["stmts"]:
                if st["k"] == "=" and st["lhs"]["l"] == 0:
                    exprs.append(body.expr_of_rvalue(st["rv"]))
        for e in exprs:
            out |= _tokens(prog, bk, e, depth + 1, seen)
    return out


def _tokens(prog, fn_key, e, depth=0, seen=frozenset()):
    """loom-local vocabulary of a guard expression: `Adt.field` of (reference) ADTs; calls of local functions contribute the
    vocabulary of their bodies."""
    out = set()
    e = deep(prog, fn_key, e)
    for x in subexprs(e):
        if x[0] == "field" and x[3] and _known_adt(prog, x[3]):
            out.add("%s.%s" % (x[3], x[2]))
        elif x[0] == "call" and x[1] in prog.fns and prog.fns[x[1]].kind != "Closure":
            # a pure function of its arguments (constructor, conversion) adds no vocabulary of its own
            out |= _fn_tokens(prog, x[1], depth, seen)
        elif x[0] == "discr" and x[2] and _known_adt(prog, x[2]):
            out.add("discr:" + x[2])
    return out


def site_vocab(prog):
    """{"<enclosing fn>-><callee>": sorted tokens} for every effect call site (tokens = union over the sites of that pair and
    over the guards inherited from enclosing closures' call sites)."""
    out = {}
    for callee in EFFECTS:
        for s in call_sites(prog, callee):
            fk = enclosing_fn(s["fn"])
            key = "%s->%s" % (fk, callee)
            toks = out.setdefault(key, set())
            k, b = s["fn"], s["bb"]
            for _ in range(4):
                body = prog.fns[k].body
                for (ge, pol, v, sb) in guard_atoms(body, b):
                    toks |= _tokens(prog, k, ge)
                f = prog.fns[k]
                if f.kind != "Closure":
                    break
                # guards of the site where the closure is handed over (rt::execution(|e| ..) etc.)
                parent = f.j.get("parent_fn")
                pf = prog.fns.get(parent)
                if pf is None:
                    break
                nb = None
                for b2 in range(pf.body.n):
                    t2 = pf.body.term(b2)
                    if t2["k"] == "call" and any(strip(pf.body.expr_of_operand(a))[0] == "agg" and strip(pf.body.expr_of_operand(a))[1] == k for a in t2["args"]):
                        nb = b2
                if nb is None:
                    break
                k, b = parent, nb
    return {k: sorted(v) for k, v in out.items()}


def G0(ctx, effects=None):
    """No new condition on an effect: the guards of each effect call site (block/wake/backtrack/acquire/release/track/leak-scan/...) mention only loom-local state and predicates that the guards of that effect in that function mentioned on the reference tree."""
    prog = ctx.prog
    note = ("G0 compares the guard vocabulary of effect call sites with lint/reference.json (reference tree); it reports a new "
            "dependency of an effect on loom-local state, not a changed spelling of an existing condition")
    if note not in ctx.notes:
        ctx.notes.append(note)
    from .. import normalize
    ref = normalize.reference().get("guard_vocab")
    if not ref:
        ctx.missing("G0", "reference", "lint/reference.json has no guard vocabulary")
        return
    cur = site_vocab(prog)
    n = 0
    for key, toks in sorted(cur.items()):
        fk, callee = key.split("->")
        if effects is not None and EFFECTS.get(callee) not in effects:
            continue
        if key not in ref:
            continue            # a new site is a matter for the who-may-call / pairing rules
        n += 1
        # vocabulary of this effect in this function, widened by the vocabulary of the same effect anywhere in the module
        allowed = set(ref[key])
        new = [t for t in toks if t not in allowed]
        if new:
            ctx.bad("G0", fk, "the %s step (%s) in %s now also depends on `%s`, which none of its conditions mentioned on the reference "
                    "tree: a step that used to be taken in these states can now be skipped" %
                    (EFFECTS[callee], callee.split("::")[-1], fk.split("::")[-1], new[0]), prog.fns[fk].loc() if fk in prog.fns else None,
                    detail="%s:%s" % (EFFECTS[callee], new[0]))
        else:
            ctx.ok("G0", key, "guards mention only %d known terms" % len(allowed), [prog.fns[fk].loc()] if fk in prog.fns else [])
    return n


def must_effects(prog):
    """{function: sorted effect callees that occur on every normal path of the function (interprocedural must-analysis)} for the
    non-closure functions of the crate that have any."""
    def m(prog_, i, b, t, c):
        k = prog_.callee_key(c)
        return [k] if k in EFFECTS else []
    roots = [prog.ident(k) for k, f in prog.fns.items() if f.kind != "Closure" and not f.j.get("stub")]
    roots = [r for r in roots if r is not None]
    ea = EventAnalysis(prog, m).solve(roots)
    out = {}
    for r in roots:
        ms = ea.must_of(r)
        if ms is TOP or not ms:
            continue
        out[prog.insts[r].key] = sorted(ms)
    return out


def G1(ctx, effects=None):
    """No effect dropped from a path: every effect that occurred on every normal path of a function on the reference tree (directly or through callees) still does."""
    prog = ctx.prog
    from .. import normalize
    ref = normalize.reference().get("must_effects")
    if not ref:
        ctx.missing("G1", "reference", "lint/reference.json has no must-effect table")
        return
    cur = getattr(prog, "_must_effects", None)
    if cur is None:
        cur = prog._must_effects = must_effects(prog)
    n = 0
    for fk, want in sorted(ref.items()):
        if prog.fn(fk) is None:
            continue                # anchor questions are for the other rules
        want = [w for w in want if effects is None or EFFECTS.get(w) in effects]
        if not want:
            continue
        n += 1
        have = set(cur.get(fk, []))
        lost = [w for w in want if w not in have]
        if lost:
            ctx.bad("G1", fk, "%s no longer performs the %s step (%s) on every path: on the reference tree every normal path did" %
                    (fk, EFFECTS[lost[0]], lost[0].split("::")[-1]), prog.fns[fk].loc(), detail="%s:%s" % (EFFECTS[lost[0]], lost[0].split("::")[-1]))
        else:
            ctx.ok("G1", fk, "still performs on every path: %s" % ", ".join(sorted({EFFECTS[w] for w in want})), [prog.fns[fk].loc()])
    return n
