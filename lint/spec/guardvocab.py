"""G0 - no new condition on an effect.  For the effect call sites the properties hinge on (blocking / waking a thread, recording
a backtrack point, synchronising clocks, tracking an access, scanning for leaks, ...) the *vocabulary* of their guards - which
loom-local fields and predicates the conditions dominating the site mention - is recorded on the reference tree
(lint/reference.json, "guard_vocab").  A site whose guards mention something the reference guards of that effect in that
function never mentioned has gained a condition: the typical shape of "a step that was unconditional got a bypass".
Spelling changes do not matter (std combinators, `is_some`/`match`, helper predicates are normalised away); a genuinely new
state field or predicate in front of an effect does."""
from .common import *

EFFECTS = {
    # callee -> short name
    "rt::thread::Thread::set_blocked": "block", "rt::thread::Thread::set_runnable": "wake", "rt::thread::Thread::set_yield": "yield",
    "rt::thread::Thread::set_terminated": "terminate", "rt::thread::Thread::set_unparked": "unpark",
    "rt::path::Path::backtrack": "backtrack", "rt::path::Schedule::backtrack": "backtrack", "rt::path::Thread::explore": "explore",
    "rt::synchronize::Synchronize::sync_load": "acquire", "rt::synchronize::Synchronize::sync_store": "release",
    "rt::vv::VersionVec::join": "join", "rt::execution::Execution::schedule": "schedule",
    "rt::object::Store::check_for_leaks": "leak-scan", "rt::execution::Execution::check_for_leaks": "leak-scan",
    "rt::object::Store::set_last_access": "record-access", "rt::access::Access::set_or_create": "record-access",
    "rt::location::LocationSet::track": "track", "rt::atomic::State::track_load": "track", "rt::atomic::State::track_store": "track",
    "rt::atomic::State::track_unsync_load": "track", "rt::cell::State::track_read": "track", "rt::cell::State::track_write": "track",
    "rt::path::Path::branch_thread": "branch", "rt::path::Path::branch_load": "branch", "rt::path::Path::branch_spurious": "branch",
    "rt::path::Path::push_load": "branch", "rt::scheduler::Scheduler::switch": "switch", "rt::thread_done": "thread-done",
    "rt::lazy_static::Set::init_static": "init-static", "rt::arc::Arc::ref_inc": "ref-inc", "rt::arc::Arc::ref_dec": "ref-dec",
    "rt::mpsc::Channel::send": "send", "rt::mpsc::Channel::recv": "recv", "rt::notify::Notify::notify": "notify", "rt::notify::Notify::wait": "wait",
}


def _known_adt(prog, a):
    from .. import normalize
    ref = normalize.reference().get("adts") or {}
    if a in prog.adts and prog.adts[a].get("kind") != "struct":
        enums = normalize.reference().get("enums")
        return enums is None or a in enums or not a.split("::")[0] in ("rt", "sync", "cell", "thread", "model", "future", "alloc", "lazy_static", "hint")
    return a in prog.adts and (a in ref or not ref)


def _fn_tokens(prog, key, depth, seen):
    """Vocabulary of a local predicate / accessor: the state it reads, through its own guards, returned expressions, the
    closures it hands to iterator adaptors, and the local functions it calls (so that naming a predicate and writing its body
    in place give the same vocabulary)."""
    if key in seen or depth > 3:
        return set()
    seen = seen | {key}
    f = prog.fns.get(key)
    if f is None or f.j.get("stub"):
        return set()
    out = set()
    bodies = [key] + list(prog.closures_of(key))
    for bk in bodies:
        body = prog.fns[bk].body
        exprs = []
        for b in range(body.n):
            if body.blocks[b]["cleanup"]:
                continue
            t = body.term(b)
            if t["k"] == "switch":
                exprs.append(body.expr_of_operand(t["op"]))
            if t["k"] == "call" and not t["dest"]["p"] and t["dest"]["l"] == 0 and not is_noise(t) and callee_path(t) not in prog.fns:
                # an operator / std call as the tail expression (`a != b` is `PartialEq::ne(a, b)` writing the return place)
                exprs.append(("call", callee_path(t), [body.expr_of_operand(a) for a in t["args"]], b))
            for st in body.blocks[b]["stmts"]:
                if st["k"] == "=" and st["lhs"]["l"] == 0:
                    e_ = body.expr_of_rvalue(st["rv"])
                    if st["rv"]["k"] == "use" and not st["lhs"]["p"] and strip(e_)[0] == "call" and strip(e_)[1] in prog.fns:
                        # `let r = f(..); r` is `f(..)` as the tail expression (a call terminator writing the return place, which
                        # is not an expression of this body): what a callee's result was computed from is the callee's business
                        continue
                    exprs.append(e_)
        for e in exprs:
            out |= _tokens(prog, bk, e, depth + 1, seen)
    return out


def _tokens(prog, fn_key, e, depth=0, seen=frozenset()):
    """loom-local vocabulary of a guard expression: `Adt.field` of (reference) ADTs; calls of local functions contribute the
    vocabulary of their bodies."""
    out = set()
    e = deep(prog, fn_key, e)
    # an Option assembled on several paths counts as a flag where it is only asked whether it is Some (`it.find(..).map(..)
    # .is_some()` after desugaring); an Option that is compared or unwrapped is a value, and how a value was computed is not
    # a condition
    opt_flags = set()
    for x in subexprs(e):
        if x[0] == "call" and x[1].split("::")[-1] in ("is_some", "is_none") and "Option" in x[1] and x[2]:
            a0 = strip(x[2][0])
            if a0[0] == "phi":
                opt_flags.add(a0[1])
        if x[0] == "discr" and strip(x[1])[0] == "phi":
            opt_flags.add(strip(x[1])[1])
    for x in subexprs(e):
        if x[0] == "phi" and depth < 2 and fn_key in prog.fns and x[1] < len(prog.fns[fn_key].body.locals) and \
                (prog.fns[fn_key].body.locals[x[1]]["ty"] == "bool" or x[1] in opt_flags):
            # a flag assembled on several paths (`let found = match it.find(..) { Some(..) => true, None => false }`): what its
            # definitions were computed from, and the branches that chose between them
            body_ = prog.fns[fn_key].body
            for d in body_.defs().get(x[1], []):
                if body_.blocks[d[1]]["cleanup"]:
                    continue
                if d[0] == "stmt" and d[3]["k"] == "=":
                    out |= _tokens(prog, fn_key, body_.expr_of_rvalue(d[3]["rv"]), depth + 1, seen)
                elif d[0] == "call":
                    out |= _tokens(prog, fn_key, ("call", callee_path(d[2]), [body_.expr_of_operand(a) for a in d[2]["args"]], d[1]), depth + 1, seen)
                for sb_ in body_.control_deps(d[1]):
                    if depth < 1:
                        out |= _tokens(prog, fn_key, body_.expr_of_operand(body_.term(sb_)["op"]), depth + 2, seen)
        if x[0] == "field" and x[3] and _known_adt(prog, x[3]):
            out.add("%s.%s" % (x[3], x[2]))
        elif x[0] == "call" and x[1] in prog.fns and prog.fns[x[1]].kind != "Closure":
            # a pure function of its arguments (constructor, conversion) adds no vocabulary of its own
            out |= _fn_tokens(prog, x[1], depth, seen)
        elif x[0] == "discr" and x[2] and _known_adt(prog, x[2]):
            out.add("discr:" + x[2])
        if x[0] == "call" and (x[1].endswith("PartialEq::eq") or x[1].endswith("PartialEq::ne")) and not x[1].startswith("<"):
            vt_ = variant_test(x)
            if vt_ is not None:
                for a_ in x[2]:
                    c_ = strip(a_)
                    ty_ = None
                    if c_[0] == "agg" and isinstance(c_[1], str):
                        ty_ = c_[1]
                    elif c_[0] == "const" and c_[1].get("variant"):
                        ty_ = str(c_[1]["variant"]).rsplit("::", 1)[0]
                    if ty_ in prog.adts and prog.adts[ty_].get("kind") == "enum" and _known_adt(prog, ty_):
                        out.add("discr:" + ty_)
        if x[0] == "call" and x[1].startswith("<") and (x[1].endswith(" as std::cmp::PartialEq>::eq") or x[1].endswith(" as std::cmp::PartialEq>::ne")):
            # `x == Variant` through the derived PartialEq of a loom enum is the discriminant test `matches!(x, Variant)`
            ty_ = x[1][1:x[1].index(" as std::cmp::PartialEq>")]
            if ty_ in prog.adts and prog.adts[ty_].get("kind") == "enum" and _known_adt(prog, ty_):
                out.add("discr:" + ty_)
        if x[0] == "call" and depth < 3:
            # a predicate handed to an iterator adaptor (`.any(|k| ..)`, `.find(..)`): what the closure reads decides the guard
            for a in x[2]:
                a = strip(a) if isinstance(a, tuple) else a
                if isinstance(a, tuple) and a[0] == "agg" and isinstance(a[1], str) and "{closure#" in a[1] and a[1] in prog.fns:
                    out |= _fn_tokens(prog, a[1], depth + 1, seen)
    return out


def site_vocab(prog):
    """{"<enclosing fn>-><callee>": sorted tokens} for every effect call site (tokens = union over the sites of that pair and
    over the guards inherited from enclosing closures' call sites)."""
    out = {}
    for callee in EFFECTS:
        for s in call_sites(prog, callee):
            fk = enclosing_fn(s["fn"])
            key = "%s->%s" % (fk, callee)
            toks = out.setdefault(key, set())
            k, b = s["fn"], s["bb"]
            for _ in range(4):
                body = prog.fns[k].body
                for (ge, pol, v, sb) in guard_atoms(body, b):
                    toks |= _tokens(prog, k, ge)
                # ... and every branch the site is control dependent on (a bypass under a conjunction dominates nothing)
                for sb2 in body.control_deps(b):
                    toks |= _tokens(prog, k, body.expr_of_operand(body.term(sb2)["op"]))
                f = prog.fns[k]
                if f.kind != "Closure":
                    break
                # guards of the site where the closure is handed over (rt::execution(|e| ..) etc.)
                parent = f.j.get("parent_fn")
                pf = prog.fns.get(parent)
                if pf is None:
                    break
                nb = None
                for b2 in range(pf.body.n):
                    t2 = pf.body.term(b2)
                    if t2["k"] == "call" and any(strip(pf.body.expr_of_operand(a))[0] == "agg" and strip(pf.body.expr_of_operand(a))[1] == k for a in t2["args"]):
                        nb = b2
                if nb is None:
                    break
                k, b = parent, nb
    return {k: sorted(v) for k, v in out.items()}


def G0(ctx, effects=None):
    """No new condition on an effect: the guards of each effect call site (block/wake/backtrack/acquire/release/track/leak-scan/...) mention only loom-local state and predicates that the guards of that effect in that function mentioned on the reference tree."""
    prog = ctx.prog
    note = ("G0 compares the guard vocabulary of effect call sites with lint/reference.json (reference tree); it reports a new "
            "dependency of an effect on loom-local state, not a changed spelling of an existing condition")
    if note not in ctx.notes:
        ctx.notes.append(note)
    from .. import normalize
    ref = normalize.reference().get("guard_vocab")
    if not ref:
        ctx.missing("G0", "reference", "lint/reference.json has no guard vocabulary")
        return
    cur = site_vocab(prog)
    n = 0
    for key, toks in sorted(cur.items()):
        fk, callee = key.split("->")
        if effects is not None and EFFECTS.get(callee) not in effects:
            continue
        if key not in ref:
            continue            # a new site is a matter for the who-may-call / pairing rules
        n += 1
        # vocabulary of this effect in this function, widened by the vocabulary of the same effect anywhere in the module
        allowed = set(ref[key])
        new = [t for t in toks if t not in allowed]
        if new:
            ctx.bad("G0", fk, "the %s step (%s) in %s now also depends on `%s`, which none of its conditions mentioned on the reference "
                    "tree: a step that used to be taken in these states can now be skipped" %
                    (EFFECTS[callee], callee.split("::")[-1], fk.split("::")[-1], new[0]), prog.fns[fk].loc() if fk in prog.fns else None,
                    detail="%s:%s" % (EFFECTS[callee], new[0]))
        else:
            ctx.ok("G0", key, "guards mention only %d known terms" % len(allowed), [prog.fns[fk].loc()] if fk in prog.fns else [])
    return n


def must_effects(prog):
    """{function: sorted effect callees that occur on every normal path of the function (interprocedural must-analysis)} for the
    non-closure functions of the crate that have any."""
    def m(prog_, i, b, t, c):
        k = prog_.callee_key(c)
        return [k] if k in EFFECTS else []
    roots = [prog.ident(k) for k, f in prog.fns.items() if f.kind != "Closure" and not f.j.get("stub")]
    roots = [r for r in roots if r is not None]
    ea = EventAnalysis(prog, m).solve(roots)
    out = {}
    for r in roots:
        ms = ea.must_of(r)
        if ms is TOP or not ms:
            continue
        out[prog.insts[r].key] = sorted(ms)
    return out


def G1(ctx, effects=None):
    """No effect dropped from a path: every effect that occurred on every normal path of a function on the reference tree (directly or through callees) still does."""
    prog = ctx.prog
    from .. import normalize
    ref = normalize.reference().get("must_effects")
    if not ref:
        ctx.missing("G1", "reference", "lint/reference.json has no must-effect table")
        return
    cur = getattr(prog, "_must_effects", None)
    if cur is None:
        cur = prog._must_effects = must_effects(prog)
    n = 0
    for fk, want in sorted(ref.items()):
        if prog.fn(fk) is None:
            continue                # anchor questions are for the other rules
        want = [w for w in want if effects is None or EFFECTS.get(w) in effects]
        if not want:
            continue
        n += 1
        have = set(cur.get(fk, []))
        lost = [w for w in want if w not in have]
        if lost:
            ctx.bad("G1", fk, "%s no longer performs the %s step (%s) on every path: on the reference tree every normal path did" %
                    (fk, EFFECTS[lost[0]], lost[0].split("::")[-1]), prog.fns[fk].loc(), detail="%s:%s" % (EFFECTS[lost[0]], lost[0].split("::")[-1]))
        else:
            ctx.ok("G1", fk, "still performs on every path: %s" % ", ".join(sorted({EFFECTS[w] for w in want})), [prog.fns[fk].loc()])
    G1r(ctx, effects)
    return n


# ---------------------------------------------------------------------------------------------------------------------------
# G1r - weak must: the place where an effect can happen is still reached on every path

def reach_effects(prog, with_reached=False):
    """{function: effect callees e such that e is *not* performed on every path, but every normal path reaches a block that may
    perform e or the head of a loop containing such a block} - "the scan is always entered", which an early return in front
    of the loop breaks."""
    def m(prog_, i, b, t, c):
        k = prog_.callee_key(c)
        return [k] if k in EFFECTS else []
    roots = [prog.ident(k) for k, f in prog.fns.items() if f.kind != "Closure" and not f.j.get("stub")]
    roots = [r for r in roots if r is not None]
    ea = EventAnalysis(prog, m).solve(roots)
    out = {}
    reached = {}
    for r in roots:
        key = prog.insts[r].key
        body = prog.body_of(r)
        ms = ea.must_of(r)
        ms = set() if ms is TOP else set(ms)
        may = set(ea.may.get(r, ())) - ms
        if not may:
            continue
        dom = body.dominators()
        rets = [b for b in range(body.n) if body.term(b)["k"] == "return" and b in dom]
        if not rets:
            continue
        res = []
        for e in sorted(may):
            B = set(ea.sites_may(r, e))
            if not B:
                continue
            cut = set(B)
            for b in B:
                back = body.reachable(b)
                for h in dom.get(b, ()):
                    if h != b and h in back and any(b in body.reachable(s_) for s_ in body.succs(h)):
                        cut.add(h)
            reach = body.reachable(0, blocked=cut) if 0 not in cut else set()
            if not any(rb in reach for rb in rets):
                reached.setdefault(key, []).append(e)
                if cut != B:
                    res.append(e)   # (no loop around the effect: plain conditional effects are G0's business)
        if res:
            out[key] = res
    return (out, reached) if with_reached else out


def G1r(ctx, effects=None):
    """The loop (scan) in which an effect happens is still entered on every path of the function."""
    prog = ctx.prog
    from .. import normalize
    ref = normalize.reference().get("reach_effects")
    if ref is None:
        ctx.missing("G1r", "reference", "lint/reference.json has no reach-effect table")
        return
    cur = getattr(prog, "_reach_effects", None)
    if cur is None:
        # whether the effect sits in a loop or was turned into an iterator chain (one call site) does not matter for the check
        cur = prog._reach_effects = reach_effects(prog, with_reached=True)[1]
    must = getattr(prog, "_must_effects", None)
    if must is None:
        must = prog._must_effects = must_effects(prog)
    for fk, want in sorted(ref.items()):
        if prog.fn(fk) is None:
            continue
        want = [w for w in want if effects is None or EFFECTS.get(w) in effects]
        if not want:
            continue
        have = set(cur.get(fk, [])) | set(must.get(fk, []))
        lost = [w for w in want if w not in have]
        if lost:
            ctx.bad("G1r", fk, "%s can now return without entering the loop in which it performs the %s step (%s): on the reference tree "
                    "every normal path reached it" % (fk, EFFECTS[lost[0]], lost[0].split("::")[-1]), prog.fns[fk].loc(),
                    detail="%s:%s" % (EFFECTS[lost[0]], lost[0].split("::")[-1]))
        else:
            ctx.ok("G1r", fk, "the loop performing %s is entered on every path" % ", ".join(sorted({EFFECTS[w] for w in want})), [prog.fns[fk].loc()])


# ---------------------------------------------------------------------------------------------------------------------------
# G2 - state writes: no write dropped from a path, no new condition on a write

_ASSIGN_SITES = {}
_PATH_TOKS = {}


def _write_sites(prog):
    """{(fn, "Adt.field" | "out:<type>"): [blocks]} - assignments to fields of (reference) loom types, and writes through a
    `&mut [T]` / `&mut [T; N]` parameter (the out-parameter of a candidate search)."""
    out = {}
    for (adt, fld), ws in prog.writers().items():
        if fld == "*" or not _known_adt(prog, adt):
            continue
        for w in ws:
            if w["kind"] not in ("assign", "borrow_mut") or not w["exact"]:
                continue
            f = prog.fns[w["fn"]]
            if f.j.get("stub"):
                continue
            if w["kind"] == "borrow_mut" and "&mut " in f.body.locals[0]["ty"]:
                continue        # an accessor handing out `&mut` to the field: whoever receives it may write, the accessor does not
            if w["kind"] == "borrow_mut" and isinstance(w["idx"], int):
                # a `&mut` handed to a crate-local accessor (a function that returns a `&mut` derived from it) is not a write by
                # itself; handed to any other function (`join`, `push_back`, `insert`, ..) it is the mutation
                cons = prog.borrow_consumer(w["fn"], w["bb"], w["idx"])
                if cons is not None:
                    inst_ = prog.ident(w["fn"])
                    c_ = prog.insts[inst_].calls.get(cons[0]) if inst_ is not None else None
                    k_ = prog.callee_key(c_) if c_ else None
                    if k_ in prog.fns and "&mut " in prog.fns[k_].body.locals[0]["ty"]:
                        continue
            # (`x.f = v` and `match &mut x.f { .. }` / `x.f.as_mut()` are two spellings of updating the field)
            out.setdefault((w["fn"], "%s.%s" % (adt, fld)), []).append(w["bb"])
            # the state read to *reach* the written field (the object handle, the store it lives in)
            try:
                st_ = w["stmt"]
                pl_ = st_["rv"]["place"] if w["kind"] == "borrow_mut" else (st_.get("lhs") or st_.get("dest"))
                if pl_ is not None:
                    _PATH_TOKS.setdefault(id(prog), {}).setdefault("%s=>%s.%s" % (enclosing_fn(w["fn"]), adt, fld), set()).update(
                        _tokens(prog, w["fn"], f.body.expr_of_place(pl_)))
            except Exception:
                pass
            if w["kind"] == "assign":
                _ASSIGN_SITES.setdefault(id(prog), {}).setdefault((w["fn"], "%s.%s" % (adt, fld)), set()).add(w["bb"])
    for key, f in prog.fns.items():
        if f.j.get("stub"):
            continue
        body = f.body
        for b, blk in enumerate(body.blocks):
            if blk["cleanup"]:
                continue
            for st in blk["stmts"]:
                if st["k"] == "=" and len(st["lhs"]["p"]) == 2 and st["lhs"]["p"][0] == "*" and isinstance(st["lhs"]["p"][1], dict) and \
                        "idx" in st["lhs"]["p"][1] and 1 <= st["lhs"]["l"] <= body.arg_count:
                    ty = body.locals[st["lhs"]["l"]]["ty"]
                    if ty.startswith("&mut ["):
                        out.setdefault((key, "out:" + ty), []).append(b)
    return out


def write_tables(prog):
    """(must_writes, write_vocab): per function the state fields assigned on every normal path (directly or through a local
    callee that assigns them on every path), and per (function, field) the guard vocabulary of the assignments."""
    sites = _write_sites(prog)
    by_fn = {}
    for (fk, what), bs in sites.items():
        by_fn.setdefault(fk, {}).setdefault(what, set()).update(bs)
    fns = [k for k, f in prog.fns.items() if not f.j.get("stub") and prog.ident(k) is not None]
    must = {k: set() for k in fns}
    # functions that run the closure they are handed exactly once, on every path (the runtime's scoping helpers)
    RUNS_ITS_CLOSURE = ("rt::execution", "rt::branch", "rt::synchronize", "rt::scheduler::Scheduler::with_execution",
                        "rt::scheduler::Scheduler::with_state")

    def solve(fk):
        body = prog.fns[fk].body
        inst = prog.ident(fk)
        ev = {}
        for what, bs in by_fn.get(fk, {}).items():
            for b in bs:
                ev.setdefault(b, set()).add(what)
        for (b, t, c) in prog.sites(inst):
            k = prog.callee_key(c)
            if k in must and k != fk:
                ev.setdefault(b, set()).update(must[k])
            if k in RUNS_ITS_CLOSURE:
                for a in t["args"]:
                    ae = strip(body.expr_of_operand(a))
                    if ae[0] == "agg" and isinstance(ae[1], str) and ae[1] in must and prog.fns[ae[1]].kind == "Closure":
                        ev.setdefault(b, set()).update(must[ae[1]])
        order = body.rpo(False)
        preds = body.preds(False)
        IN = {b: None for b in order}
        OUT = {b: None for b in order}
        IN[0] = frozenset()
        changed = True
        while changed:
            changed = False
            for b in order:
                if b != 0:
                    acc = None
                    for p in preds[b]:
                        if p in OUT and OUT[p] is not None:
                            acc = OUT[p] if acc is None else (acc & OUT[p])
                    if acc is None:
                        continue
                    IN[b] = acc
                new = frozenset(IN[b] | ev.get(b, set()))
                if new != OUT[b]:
                    OUT[b] = new
                    changed = True
        res = None
        for b in order:
            if body.term(b)["k"] == "return" and OUT[b] is not None:
                res = OUT[b] if res is None else (res & OUT[b])
        return set(res or ())
    for _ in range(6):
        grew = False
        for fk in fns:
            r = solve(fk)
            if r != must[fk]:
                must[fk] = r
                grew = True
        if not grew:
            break
    vocab = {}
    for (fk, what), bs in sites.items():
        key = "%s=>%s" % (enclosing_fn(fk), what)
        toks = vocab.setdefault(key, set())
        body = prog.fns[fk].body
        for b in bs:
            for (ge, pol, v, sb) in guard_atoms(body, b):
                toks |= _tokens(prog, fk, ge)
            for sb2 in body.control_deps(b):
                toks |= _tokens(prog, fk, body.expr_of_operand(body.term(sb2)["op"]))
            # the mutation performed by a std call that takes a predicate (`q.retain(|x| p(x))`): what the predicate reads decides
            # which elements are changed, exactly as the guard of `if p(x) { q.remove(..) }` does
            t_ = body.term(b)
            if t_["k"] == "call" and not is_noise(t_):
                for a_ in t_["args"]:
                    ae_ = strip(body.expr_of_operand(a_))
                    if ae_[0] == "agg" and isinstance(ae_[1], str) and "{closure#" in ae_[1] and ae_[1] in prog.fns:
                        toks |= _fn_tokens(prog, ae_[1], 1, frozenset())
    nsites = {}
    # number of *assignments* per (function, field): a new assignment site is a new writer (judged elsewhere); a mutable borrow
    # that appears next to the known assignment is a condition of that writer and is judged here
    asg = _ASSIGN_SITES.get(id(prog), {})
    for (fk, what), bs in sites.items():
        if what.startswith("out:"):
            nsites.setdefault("%s=>%s" % (enclosing_fn(fk), what), []).extend((fk, b) for b in bs)
        else:
            nsites.setdefault("%s=>%s" % (enclosing_fn(fk), what), []).extend((fk, b) for b in asg.get((fk, what), ()))
    return ({k: sorted(v) for k, v in must.items() if v and prog.fns[k].kind != "Closure"}, {k: sorted(v) for k, v in vocab.items()}, nsites)


def _replaced_field(prog, tok):
    """`Adt.field` where the field is new relative to the reference struct *and* the struct lost a reference field."""
    from .. import normalize
    ref = normalize.reference().get("adts") or {}
    if "." not in tok or tok.startswith("discr:"):
        return False
    a, f = tok.rsplit(".", 1)
    if a not in ref or a not in prog.adts:
        return False
    ref_fields = {x[0] for x in ref[a]}
    cur_fields = {x["name"] for v in prog.adts[a]["variants"] for x in v["fields"]}
    return f not in ref_fields and bool(ref_fields - cur_fields)


def _leads_to(prog, tok, adt):
    """`X.f` is a handle to an `adt` value: the declared type of field f of X mentions adt (`Condvar.state: Ref<condvar::State>`)."""
    if "." not in tok or tok.startswith("discr:"):
        return False
    a, f = tok.rsplit(".", 1)
    d = prog.adts.get(a)
    if not d:
        return False
    for v in d["variants"]:
        for x in v["fields"]:
            if x["name"] == f and adt in x.get("ty", ""):
                return True
    return False


def G2(ctx, scopes=None):
    """State writes: a field (or out-parameter) a function assigned on every normal path on the reference tree is still assigned
    on every path, and the conditions of the assignments mention no loom-local state they did not mention there."""
    prog = ctx.prog
    from .. import normalize
    refm = normalize.reference().get("must_writes")
    refv = normalize.reference().get("write_vocab")
    if refm is None or refv is None:
        ctx.missing("G2", "reference", "lint/reference.json has no write tables")
        return
    cur = getattr(prog, "_write_tables", None)
    if cur is None:
        cur = prog._write_tables = write_tables(prog)
    must, vocab, sites_now = cur
    refn = normalize.reference().get("write_sites") or {}

    def in_scope(fk):
        return scopes is None or any(fk.startswith(s_) for s_ in scopes)
    for fk, want in sorted(refm.items()):
        if not in_scope(fk) or prog.fn(fk) is None:
            continue
        lost = [w for w in want if w not in set(must.get(fk, []))]
        # a field that no longer exists (representation change) is the other rules' business
        lost = [w for w in lost if w.startswith("out:") or (w.rsplit(".", 1)[0] in prog.adts and
                                                            any(f_["name"] == w.rsplit(".", 1)[1] for v_ in prog.adts[w.rsplit(".", 1)[0]]["variants"] for f_ in v_["fields"]))]
        if lost:
            ctx.bad("G2", fk, "%s no longer assigns `%s` on every path: on the reference tree every normal path did, so a path now leaves "
                    "the old value in place" % (fk, lost[0]), prog.fns[fk].loc(), detail="must-write:%s" % lost[0])
        else:
            ctx.ok("G2", fk, "still assigns on every path: %s" % ", ".join(w.split("::")[-1] for w in want[:4]), [prog.fns[fk].loc()])
    for key, toks in sorted(vocab.items()):
        fk, what = key.split("=>")
        if not in_scope(fk) or key not in refv:
            continue
        new = [t for t in toks if t not in set(refv[key])]
        # a site that did not exist (same field assigned in one more place) brings its own conditions: the pairing / writer rules
        # judge new writers, this rule only the conditions of the known ones
        if len(set(sites_now.get(key, ()))) > refn.get(key, 0):
            continue
        # a field that replaced another one of its struct (representation change of private state) is not a new dependency
        new = [t for t in new if not _replaced_field(prog, t)]
        # a condition on the written field itself, or on the handle through which the written object is reached, is an update of
        # that object computed from its own content (`if let Some(i) = q.iter().position(..) { q.remove(i) }` for `q.retain(..)`),
        # not a dependency on other state
        path_toks = _PATH_TOKS.get(id(prog), {}).get(key, set())
        new = [t for t in new if t != what and t not in path_toks and not _leads_to(prog, t, what.rsplit(".", 1)[0])]
        if new:
            ctx.bad("G2", fk, "the assignment of `%s` in %s now also depends on `%s`, which none of its conditions mentioned on the "
                    "reference tree: in these states the old value now stays in place" % (what, fk.split("::")[-1], new[0]),
                    prog.fns[fk].loc() if fk in prog.fns else None, detail="write-guard:%s:%s" % (what, new[0]))


# ---------------------------------------------------------------------------------------------------------------------------
# G3 - no new effect: a function performs (directly or through callees) no kind of runtime step it could not perform on the
# reference tree

def may_effects(prog):
    def m(prog_, i, b, t, c):
        k = prog_.callee_key(c)
        return [k] if k in EFFECTS else []
    roots = [prog.ident(k) for k, f in prog.fns.items() if f.kind != "Closure" and not f.j.get("stub")]
    roots = [r for r in roots if r is not None]
    ea = EventAnalysis(prog, m).solve(roots)
    return {prog.insts[r].key: sorted({EFFECTS[e] for e in ea.may.get(r, ())}) for r in roots}, ea


def G3(ctx, scopes=None):
    """No new effect: the kinds of runtime step (yield, block, wake, switch, synchronise, branch, ...) a function can perform,
    directly or through its callees, are those it could perform on the reference tree."""
    prog = ctx.prog
    from .. import normalize
    ref = normalize.reference().get("may_effects")
    if ref is None:
        ctx.missing("G3", "reference", "lint/reference.json has no may-effect table")
        return
    cur = getattr(prog, "_may_effects", None)
    if cur is None:
        cur = prog._may_effects = may_effects(prog)
    may, ea = cur
    for fk, have in sorted(may.items()):
        if fk not in ref or prog.fn(fk) is None or (scopes is not None and not any(fk.startswith(s_) for s_ in scopes)):
            continue
        new = [e for e in have if e not in set(ref[fk])]
        if not new:
            continue
        # blame the function that introduces it: skip when a callee that exists in the reference gained the effect itself
        inst = prog.ident(fk)
        for e in new:
            own = False
            for (b, t, c) in prog.sites(inst):
                k = prog.callee_key(c)
                if EFFECTS.get(k) == e:
                    own = True
                    continue
                sm = {EFFECTS[x] for x in ea._site_may(inst, b, t)}
                if e not in sm:
                    continue
                if k in ref and k in may and e not in set(ref[k]) and prog.fns.get(k) is not None and prog.fns[k].kind != "Closure":
                    continue        # that callee is reported itself
                own = True
            if own:
                ctx.bad("G3", fk, "%s can now perform a %s step, which it could not on the reference tree (neither directly nor through "
                        "its callees)" % (fk, e), prog.fns[fk].loc(), detail="new-effect:%s" % e)
