"""C07 - Mutex / RwLock exclusion, blocking, hand-over (structural clauses only)."""
from . import g_state, g_sync
from .common import *

EXPLANATION = ("Decides on the MIR of the current tree: who may block/wake lock waiters and under which guard (S2,S3,S5,S7), that the blocking "
               "condition comes from the lock's own state (D2), the release/acquire happens-before edges of both locks (Y1 lock rows), the "
               "writers of the lock-holder fields and their guards (L1), that try_*/acquire results are the value computed by post_acquire (L2), "
               "the pairing of the rt bookkeeping with the inner std lock in the public front-ends and guards (L3) and that get_mut/into_inner "
               "only forward to the std lock (L4). Exclusion in every explored execution (behaviour) is not decided."
               " The block loop of post_acquire* is unconditional on the success path (S5b); the reader/writer arms of post_acquire_read_lock are decided on lock-state scenarios (L1r); G0/G1 cross-check the block/wake steps. A pending try_lock/try_read/try_write is never disabled by another thread's acquire (S10), and the lock state a try_* observes changes only at branch points (V4, known finding KF-N).")
RULE_TEXT = ("rule instances = transition sites, lock-field writers, front-end methods; non-trivial when matched to concrete MIR sites")
LEVEL_NOTE = "necessary conditions only"

MSTATE = "rt::mutex::State"
RSTATE = "rt::rwlock::State"


def _writers_of(prog, adt, field):
    return [w for w in prog.writers().get((adt, field), []) if not (w["kind"] == "borrow_mut" and not w["exact"])]


def L1(ctx):
    """Writers of the lock-holder fields and their guards (mutex taken only when free; write lock only from None; readers only from None|Read; release clears)."""
    prog = ctx.prog
    n = 0
    # ---- mutex
    allowed = {"rt::mutex::Mutex::new": "construct", "rt::mutex::Mutex::post_acquire": "acquire", "rt::mutex::Mutex::release_lock": "release"}
    for w in _writers_of(prog, MSTATE, "lock"):
        fk = enclosing_fn(w["fn"])
        body = prog.fns[w["fn"]].body
        n += 1
        ctx.touch(w["fn"], 1)
        role = allowed.get(fk)
        if role is None:
            ctx.bad("L1", fk, "mutex holder field written outside new/post_acquire/release_lock", site_str(prog, w["fn"], w["bb"]))
            continue
        if role == "construct":
            e = body.expr_of_operand(w["op"])
            ok = e[0] == "agg" and e[2] == "None"
            (ctx.ok if ok else ctx.bad)("L1", fk, "a new mutex is unlocked" if ok else "a new mutex must start unlocked",
                                        *([[site_str(prog, w["fn"], w["bb"])]] if ok else [site_str(prog, w["fn"], w["bb"])]))
            continue
        if w["kind"] != "assign":
            cons = prog.borrow_consumer(w["fn"], w["bb"], w["idx"])
            if role == "release" and cons and callee_path(cons[1]) == "std::option::Option::<T>::take":
                ctx.ok("L1", fk, "lock.take() on release (clears the holder)", [site_str(prog, w["fn"], w["bb"])])
                continue
            ctx.bad("L1", fk, "mutex holder field is mutably borrowed (%s)" % w["kind"], site_str(prog, w["fn"], w["bb"]), detail="borrow")
            continue
        e = strip(body.expr_of_rvalue(w["stmt"]["rv"]))
        if role == "acquire":
            is_some_active = e[0] == "agg" and e[2] == "Some" and mentions_call(e, "rt::thread::Set::active_id")
            # in whatever spelling the test is written (is_some / is_none / if let / match): unreachable when the lock is held
            guarded = unreachable_if(body, w["bb"], assume_option_field(MSTATE, "lock", True)) and \
                not unreachable_if(body, w["bb"], assume_option_field(MSTATE, "lock", False))
            gexpr = [ge for (ge, pol, v, sb) in guard_atoms(body, w["bb"]) if mentions_field(ge, MSTATE, "lock")]
            if is_some_active and guarded and gexpr:
                ctx.ok("L1", fk, "lock = Some(active) only when lock.is_none()", [site_str(prog, w["fn"], w["bb"])])
            else:
                ctx.bad("L1", fk, "mutex is taken without checking that it is free (value=%s, guarded=%s): two threads can hold it" %
                        (canon(e)[:80], guarded), site_str(prog, w["fn"], w["bb"]), detail="acquire")
        else:
            if e[0] == "agg" and e[2] == "None":
                ctx.ok("L1", fk, "lock = None on release", [site_str(prog, w["fn"], w["bb"])])
            else:
                ctx.bad("L1", fk, "release_lock must clear the holder", site_str(prog, w["fn"], w["bb"]), detail="release")
    # ---- rwlock
    allowed = {"rt::rwlock::RwLock::new": "construct", "rt::rwlock::RwLock::post_acquire_read_lock": "read",
               "rt::rwlock::RwLock::post_acquire_write_lock": "write", "rt::rwlock::RwLock::release_read_lock": "rel_read",
               "rt::rwlock::RwLock::release_write_lock": "rel_write"}
    for w in _writers_of(prog, RSTATE, "lock"):
        fk = enclosing_fn(w["fn"])
        body = prog.fns[w["fn"]].body
        role = allowed.get(fk)
        ctx.touch(w["fn"], 1)
        if role is None:
            ctx.bad("L1", fk, "rwlock holder field written outside new/post_acquire_*/release_*", site_str(prog, w["fn"], w["bb"]))
            continue
        if w["kind"] == "borrow_mut":
            # `state.lock.take()` in post_acquire_read_lock / `match &mut state.lock` in release_read_lock
            cons = prog.borrow_consumer(w["fn"], w["bb"], w["idx"])
            ck = callee_path(cons[1]) if cons else None
            if role == "read":
                # `state.lock.take()` + re-assignment, or `match &mut state.lock` updating the reader set in place: what may
                # happen under which holder is decided by L1r on the lock-state scenarios
                n += 1
                ctx.ok("L1", fk + ":take", "holder inspected / moved out and re-assigned in the same step", [site_str(prog, w["fn"], w["bb"])])
            elif role == "rel_read":
                n += 1
                ctx.ok("L1", fk + ":readers", "reader set borrowed for removal", [site_str(prog, w["fn"], w["bb"])])
            else:
                ctx.bad("L1", fk, "rwlock holder mutably borrowed by %s" % ck, site_str(prog, w["fn"], w["bb"]), detail="borrow")
            continue
        if w["kind"] == "construct":
            n += 1
            e = body.expr_of_operand(w["op"])
            if e[0] == "agg" and e[2] == "None":
                ctx.ok("L1", fk, "a new rwlock is unlocked", [site_str(prog, w["fn"], w["bb"])])
            else:
                ctx.bad("L1", fk, "a new rwlock must start unlocked", site_str(prog, w["fn"], w["bb"]), detail="construct")
            continue
        if not w["exact"]:
            continue
        n += 1
        st = w["stmt"]
        e = strip(body.expr_of_rvalue(st["rv"])) if st["k"] == "=" and "rv" in st else ("other",)
        txt = canon(e)
        if role == "write":
            # only from None: every assignment of Some(Write(..)) is dominated by discr(lock) == None
            if "Write" in txt:
                none_only = unreachable_if(body, w["bb"], assume_option_field(RSTATE, "lock", True)) and \
                    not unreachable_if(body, w["bb"], assume_option_field(RSTATE, "lock", False))
                if none_only and mentions_call(e, "rt::thread::Set::active_id"):
                    ctx.ok("L1", fk, "lock = Write(active) only from None", [site_str(prog, w["fn"], w["bb"])])
                else:
                    ctx.bad("L1", fk, "write lock is taken while the lock is not free: writer coexists with readers/writer",
                            site_str(prog, w["fn"], w["bb"]), detail="write")
            else:
                ctx.ok("L1", fk + ":keep", "re-assigns the unchanged state", [site_str(prog, w["fn"], w["bb"])])
        elif role == "read":
            ctx.ok("L1", fk, "lock re-assigned from the taken value (arms checked by L1r)", [site_str(prog, w["fn"], w["bb"])])
        elif role in ("rel_read", "rel_write"):
            if e[0] == "agg" and e[2] == "None":
                if role == "rel_read":
                    emptied = unreachable_if(body, w["bb"], assume_collection_calls({"is_empty": False}))
                    if not emptied:
                        ctx.bad("L1", fk, "read release clears the lock although other readers remain", site_str(prog, w["fn"], w["bb"]), detail="rel_read")
                        continue
                ctx.ok("L1", fk, "lock = None on release" + (" of the last reader" if role == "rel_read" else ""), [site_str(prog, w["fn"], w["bb"])])
            else:
                ctx.bad("L1", fk, "release must clear the holder", site_str(prog, w["fn"], w["bb"]), detail="release")
    _read_arms(ctx)
    ctx.floor("L1", n, 10, "mutex 3 + rwlock 7 writers of the holder fields")


def _read_arms(ctx):
    """post_acquire_read_lock: readers are inserted only from None|Read; a Write holder makes it return false."""
    prog = ctx.prog
    k = "rt::rwlock::RwLock::post_acquire_read_lock::{closure#0}"
    fn = need_fn(ctx, "L1r", k)
    if fn is None:
        return
    body = fn.body
    inst = prog.ident(k)
    ins = [(b, t) for (b, t, c) in prog.sites(inst) if is_std_collection_call(prog.callee_key(c), "insert")]
    ok = True
    for (b, t) in ins:
        vs = set()
        for (ge, pol, val, sb) in guard_atoms(body, b):
            if ge[0] == "discr" and not isinstance(val, tuple):
                v = variant_of_discr_value(prog, ge, val)
                if v:
                    vs.add(v)
        if "Write" in vs:
            ok = False
    # a failed attempt leaves the holder untouched: after `lock.take()` every path to a return re-assigns the field
    takes = [w for w in prog.writers().get((RSTATE, "lock"), []) if w["fn"] == k and w["kind"] == "borrow_mut"]
    stores = [w["bb"] for w in prog.writers().get((RSTATE, "lock"), []) if w["fn"] == k and w["kind"] == "assign" and w["exact"]]
    for w in takes:
        cons = prog.borrow_consumer(w["fn"], w["bb"], w["idx"])
        if cons and callee_path(cons[1]) == "std::option::Option::<T>::take":
            if every_path_passes(body, stores, start=cons[0]) or not stores and False:
                ctx.ok("L1r", "rt::rwlock::RwLock::post_acquire_read_lock:restore", "the taken holder is written back on every path", [site_str(prog, k, cons[0])])
            else:
                ctx.bad("L1r", "rt::rwlock::RwLock::post_acquire_read_lock", "a path takes the lock holder out of the state and returns without writing it "
                        "back: a failed try_read erases the writer's ownership and the next acquirer coexists with the writer",
                        site_str(prog, k, cons[0]), detail="restore")
    # the Write arm leads to `return false`: in the scenario "the lock is held by a writer" - however the holder is inspected
    # (match on `lock.take()`, on `&mut lock`, if-let chains) - no success return and no reader insertion is reachable
    rets = blocks_assigning_ret(body, lambda e: is_const_bool(e, True))
    from .g_state import _scenario_assume
    reached, _ = PEval(body, _scenario_assume(prog, k, RSTATE, "lock", "Some:Write", 0)).run()
    r_read, _ = PEval(body, _scenario_assume(prog, k, RSTATE, "lock", "Some:Read", 0)).run()
    r_none, _ = PEval(body, _scenario_assume(prog, k, RSTATE, "lock", "None", 0)).run()
    leaks = [b for b in rets if b in reached]
    ins_w = [b for (b, t) in ins if b in reached]
    grants = any(b in r_read for b in rets) and any(b in r_none for b in rets)
    if ins and ok and rets and not leaks and not ins_w and grants:
        ctx.ok("L1r", "rt::rwlock::RwLock::post_acquire_read_lock", "readers inserted only from None|Read; Write holder => false",
               [site_str(prog, k, b) for (b, t) in ins])
    else:
        ctx.bad("L1r", "rt::rwlock::RwLock::post_acquire_read_lock", "a read lock can be granted while a writer holds the lock "
                "(insert sites=%d, success reachable under Write=%s, reader inserted under Write=%s, granted from None and Read=%s)" %
                (len(ins), bool(leaks), bool(ins_w), grants), fn.loc())


def L2(ctx):
    """try_* return, and acquire_* assert, the value computed by post_acquire* (no constant)."""
    prog = ctx.prog
    rows = [
        ("rt::mutex::Mutex::acquire_lock", "rt::mutex::Mutex::post_acquire", "assert"),
        ("rt::mutex::Mutex::try_acquire_lock", "rt::mutex::Mutex::post_acquire", "return"),
        ("rt::rwlock::RwLock::acquire_read_lock", "rt::rwlock::RwLock::post_acquire_read_lock", "assert"),
        ("rt::rwlock::RwLock::acquire_write_lock", "rt::rwlock::RwLock::post_acquire_write_lock", "assert"),
        ("rt::rwlock::RwLock::try_acquire_read_lock", "rt::rwlock::RwLock::post_acquire_read_lock", "return"),
        ("rt::rwlock::RwLock::try_acquire_write_lock", "rt::rwlock::RwLock::post_acquire_write_lock", "return"),
    ]
    n = 0
    for (fk, post, how) in rows:
        fn = need_fn(ctx, "L2", fk)
        if fn is None:
            continue
        body = fn.body
        n += 1
        if how == "return":
            e = body.expr_of_local(0)
            if e[0] == "call" and e[1] == post:
                ctx.ok("L2", fk, "returns %s()" % post.split("::")[-1], [fn.loc()])
            else:
                ctx.bad("L2", fk, "try-acquire result is %s, not the outcome of %s" % (canon(e)[:80], post), fn.loc())
        else:
            ps = panic_sites(prog, fk, "expected to be able to acquire")
            ok = False
            for (b, msg) in ps:
                if unreachable_if(body, b, assume_calls({post: True})) and not unreachable_if(body, b, assume_calls({post: False})):
                    ok = True
            if ok:
                ctx.ok("L2", fk, "asserts %s()" % post.split("::")[-1], [fn.loc()])
            else:
                ctx.bad("L2", fk, "blocking acquire does not assert the outcome of %s" % post, fn.loc())
    # try-acquires register a branch point but never block the caller
    for fk in ("rt::mutex::Mutex::try_acquire_lock", "rt::rwlock::RwLock::try_acquire_read_lock", "rt::rwlock::RwLock::try_acquire_write_lock"):
        root = prog.ident(fk)
        if root is None:
            continue
        n += 1
        ea = EventAnalysis(prog, lambda p_, i, b, t, c: (["block"] if p_.callee_key(c) == T + "::set_blocked" and
                                                         g_state.receiver_is_active(p_.body_of(i), t) else [])).solve([root])
        if "block" in ea.may.get(root, ()):
            ctx.bad("L2", fk, "a try-acquire can mark the calling thread Blocked: try_lock/try_read/try_write then wait for the lock "
                    "instead of failing with WouldBlock", prog.fns[fk].loc(), detail="blocks")
        else:
            ctx.ok("L2", fk + ":non-blocking", "never blocks the caller", [prog.fns[fk].loc()])
    # front-ends: Ok(guard) iff the rt try-acquire returned true
    fronts = [("sync::mutex::Mutex::<T>::try_lock", "rt::mutex::Mutex::try_acquire_lock"),
              ("sync::rwlock::RwLock::<T>::try_read", "rt::rwlock::RwLock::try_acquire_read_lock"),
              ("sync::rwlock::RwLock::<T>::try_write", "rt::rwlock::RwLock::try_acquire_write_lock")]
    for (fk, tr) in fronts:
        fn = need_fn(ctx, "L2", fk)
        if fn is None:
            continue
        n += 1
        body = fn.body
        okb = errb = None
        for b, blk in enumerate(body.blocks):
            for s in blk["stmts"]:
                if s["k"] == "=" and s["lhs"]["l"] == 0 and not s["lhs"]["p"] and s["rv"]["k"] == "agg":
                    if s["rv"].get("variant") == "Ok":
                        okb = b
                    if s["rv"].get("variant") == "Err":
                        errb = b
        good = okb is not None and errb is not None and \
            unreachable_if(body, okb, assume_calls({tr: False})) and unreachable_if(body, errb, assume_calls({tr: True})) and \
            not unreachable_if(body, okb, assume_calls({tr: True}))
        if good:
            ctx.ok("L2", fk, "Ok(guard) iff %s()" % tr.split("::")[-1], [site_str(prog, fk, okb)])
        else:
            ctx.bad("L2", fk, "try-lock front-end does not return Ok exactly when %s succeeded" % tr, fn.loc())
    ctx.floor("L2", n, 12, "6 rt + 3 non-blocking + 3 front-end")


def L3(ctx):
    """Front-end pairing of rt bookkeeping and the inner std lock."""
    prog = ctx.prog
    rows = [
        ("sync::mutex::Mutex::<T>::lock", "rt::mutex::Mutex::acquire_lock", "std::sync::Mutex::<T>::lock"),
        ("sync::mutex::Mutex::<T>::try_lock", "rt::mutex::Mutex::try_acquire_lock", "std::sync::Mutex::<T>::lock"),
        ("sync::rwlock::RwLock::<T>::read", "rt::rwlock::RwLock::acquire_read_lock", "std::sync::RwLock::<T>::try_read"),
        ("sync::rwlock::RwLock::<T>::try_read", "rt::rwlock::RwLock::try_acquire_read_lock", "std::sync::RwLock::<T>::try_read"),
        ("sync::rwlock::RwLock::<T>::write", "rt::rwlock::RwLock::acquire_write_lock", "std::sync::RwLock::<T>::try_write"),
        ("sync::rwlock::RwLock::<T>::try_write", "rt::rwlock::RwLock::try_acquire_write_lock", "std::sync::RwLock::<T>::try_write"),
    ]
    n = 0
    for (fk, rt_acq, std_acq) in rows:
        root = prog.ident(fk)
        if root is None:
            ctx.missing("L3", fk)
            continue
        n += 1
        ea = EventAnalysis(prog, path_matcher({"rt": rt_acq, "std": std_acq}), stop=lambda i: not prog.insts[i].key.startswith("sync::")).solve([root])
        v = ea.must_before(root, "rt", "std")
        has = "std" in ea.may.get(root, ()) and "rt" in ea.may.get(root, ())
        if has and not v:
            ctx.ok("L3", fk, "%s precedes the inner %s" % (rt_acq.split("::")[-1], std_acq.split("::")[-1]), [prog.fns[fk].loc()])
        else:
            ctx.bad("L3", fk, "the inner std lock is taken before/without the modelled acquire (%s): the model no longer decides who "
                    "holds the data" % rt_acq, prog.fns[fk].loc())
    guards = [("<sync::mutex::MutexGuard<'a, T> as std::ops::Drop>::drop", "rt::mutex::Mutex::release_lock", "sync::mutex::MutexGuard"),
              ("<sync::rwlock::RwLockReadGuard<'a, T> as std::ops::Drop>::drop", "rt::rwlock::RwLock::release_read_lock", "sync::rwlock::RwLockReadGuard"),
              ("<sync::rwlock::RwLockWriteGuard<'a, T> as std::ops::Drop>::drop", "rt::rwlock::RwLock::release_write_lock", "sync::rwlock::RwLockWriteGuard")]
    for (fk, rel, gadt) in guards:
        fn = need_fn(ctx, "L3", fk)
        if fn is None:
            continue
        n += 1
        body = fn.body
        inst = prog.ident(fk)
        rels = [b for (b, t, c) in prog.sites(inst) if prog.callee_key(c) == rel]
        clear = [w for w in prog.writers().get((gadt, "data"), []) if w["fn"] == fk and w["kind"] == "assign"]
        dom = body.dominators()
        # the std guard held in `self.data` is destroyed before the modelled release - by `self.data = None` (drop-and-replace:
        # assignment + Drop terminator on the field) or by taking it out and dropping the taken value
        def taken(e):
            c = mentions_call(e, "std::option::Option::<T>::take") or mentions_call(e, "std::mem::take") or mentions_call(e, "std::mem::replace")
            return c is not None and mentions_field(c, gadt, "data") is not None
        dropped = [b for b in range(body.n) if body.term(b)["k"] == "drop" and not body.blocks[b]["cleanup"] and
                   mentions_field(body.expr_of_place(body.term(b)["place"]), gadt, "data")]
        took = []
        for b in range(body.n):
            t = body.term(b)
            if body.blocks[b]["cleanup"]:
                continue
            if t["k"] == "drop" and taken(body.expr_of_place(t["place"])):
                took.append(b)
            if t["k"] == "call" and callee_path(t) == "std::mem::drop" and t["args"] and taken(body.expr_of_operand(t["args"][0])):
                took.append(b)
            # the std guard kept in a `ManuallyDrop` and destroyed explicitly (`ManuallyDrop::drop(&mut self.data)`), or through
            # `ptr::drop_in_place(&mut self.data)`
            if t["k"] == "call" and callee_path(t).split("::")[-1] in ("drop", "drop_in_place") and \
                    ("ManuallyDrop" in callee_path(t) or "ptr::drop_in_place" in callee_path(t)) and t["args"] and \
                    mentions_field(body.expr_of_operand(t["args"][0]), gadt, "data") is not None:
                took.append(b)
        good = bool(rels) and (bool(clear) or bool(took))
        for rb in rels:
            by_assign = any((w["bb"] in dom.get(rb, ())) for w in clear) and any(d in dom.get(rb, ()) for d in dropped)
            by_take = any(d in dom.get(rb, ()) for d in took)
            if not (by_assign or by_take):
                good = False
        if good:
            ctx.ok("L3", fk, "inner std guard released before %s" % rel.split("::")[-1], [site_str(prog, fk, rels[0])])
        else:
            ctx.bad("L3", fk, "guard drop must release the inner std guard before the modelled release (otherwise the next holder "
                    "blocks on the real lock / deadlocks the test)", fn.loc())
    # condvar: unborrow -> rt wait -> reborrow
    fk = "sync::condvar::Condvar::wait"
    root = prog.ident(fk)
    if root is None:
        ctx.missing("L3", fk)
    else:
        n += 1
        ev = {"unborrow": "sync::mutex::MutexGuard::<'a, T>::unborrow", "wait": "rt::condvar::Condvar::wait",
              "reborrow": "sync::mutex::MutexGuard::<'a, T>::reborrow"}
        ea = EventAnalysis(prog, path_matcher(ev), stop=lambda i: prog.insts[i].key != fk).solve([root])
        m = ea.must_of(root)
        ok = m is not TOP and set(ev) <= set(m) and not ea.must_before(root, "unborrow", "wait") and not ea.must_before(root, "wait", "reborrow")
        if not ok:
            # the same three steps written in place (helpers merged / flattened): `guard.data = None`, the modelled wait, and
            # `guard.data = Some(inner.lock())` - in that order on every path
            wb = prog.fns[fk].body
            gadt_ = "sync::mutex::MutexGuard"
            dom_ = wb.dominators()
            rel_ = [w["bb"] for w in prog.writers().get((gadt_, "data"), []) if w["fn"] == fk and w["kind"] == "assign" and
                    strip(wb.expr_of_rvalue(w["stmt"]["rv"]))[0] == "agg" and strip(wb.expr_of_rvalue(w["stmt"]["rv"]))[2] == "None"]
            rel_ += [b for (b, t, c) in prog.sites(root) if prog.callee_key(c) == ev["unborrow"]]
            wait_ = [b for (b, t, c) in prog.sites(root) if prog.callee_key(c) == ev["wait"]]
            take_ = [w["bb"] for w in prog.writers().get((gadt_, "data"), []) if w["fn"] == fk and w["kind"] == "assign" and
                     mentions_call(wb.expr_of_rvalue(w["stmt"]["rv"]), "std::sync::Mutex::<T>::lock") is not None]
            take_ += [b for (b, t, c) in prog.sites(root) if prog.callee_key(c) == ev["reborrow"]]
            ok = bool(rel_) and bool(wait_) and bool(take_) and all(any(r in dom_[w_] for r in rel_) for w_ in wait_) and \
                all(any(w_ in dom_[t_] for w_ in wait_) for t_ in take_) and every_path_passes(wb, take_)
        if ok:
            ctx.ok("L3", fk, "unborrow -> rt wait -> reborrow", [prog.fns[fk].loc()])
        else:
            ctx.bad("L3", fk, "Condvar::wait must release the inner guard, wait in the model, then re-take the inner guard", prog.fns[fk].loc())
    ctx.floor("L3", n, 10, "6 acquire front-ends + 3 guard drops + condvar wait")


def L4(ctx):
    """get_mut / into_inner only forward to the std lock."""
    prog = ctx.prog
    rows = [("sync::mutex::Mutex::<T>::get_mut", "std::sync::Mutex::<T>::get_mut"),
            ("sync::mutex::Mutex::<T>::into_inner", "std::sync::Mutex::<T>::into_inner"),
            ("sync::rwlock::RwLock::<T>::get_mut", "std::sync::RwLock::<T>::get_mut"),
            ("sync::rwlock::RwLock::<T>::into_inner", "std::sync::RwLock::<T>::into_inner")]
    n = 0
    for (fk, fwd) in rows:
        fn = need_fn(ctx, "L4", fk)
        if fn is None:
            continue
        n += 1
        inst = prog.ident(fk)
        calls = [prog.callee_key(c) for (b, t, c) in prog.sites(inst)]
        rt_calls = [c for c in calls if c.startswith("rt::")]
        if fwd in calls and not rt_calls:
            ctx.ok("L4", fk, "forwards to %s" % fwd, [fn.loc()])
        else:
            ctx.bad("L4", fk, "%s must only forward to %s (calls: %s)" % (fk, fwd, sorted(set(calls))[:6]), fn.loc())
    ctx.floor("L4", n, 4, "get_mut/into_inner of both locks")
WITNESSES = ['C07MutexGuardNotSend', 'C07RwLockGuardsNotSend', 'C07GetMutNeedsMut']


def run(ctx):
    from . import guardvocab
    guardvocab.G0(ctx, effects={'wake', 'block'})
    guardvocab.G1(ctx, effects={'wake', 'block'})
    guardvocab.G2(ctx, scopes=('rt::mutex::', 'rt::rwlock::', 'rt::object::Ref', 'sync::mutex::', 'sync::rwlock::'))
    guardvocab.G3(ctx, scopes=('rt::mutex::', 'rt::rwlock::', 'rt::object::Ref', 'sync::mutex::', 'sync::rwlock::'))
    g_state.run_all(ctx, ["S2", "S3", "S5", "S5b", "S7", "S9", "S10", "D2"])
    from . import round6
    round6.V4(ctx)
    g_sync.run_all(ctx, ["Y1:mutex,rwlock", "Y1c"])
    L1(ctx)
    L2(ctx)
    L3(ctx)
    L4(ctx)
