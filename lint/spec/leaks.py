"""C10 rules K1-K5 (leak reporting)."""
import re

from . import g_dpor
from .common import *


def assume_cmp(field_adt, field, op, const, truth):
    """Assumption on `self.<field> <op> <const>` switch operands (op in Ne/Eq) or bare bool field switches."""
    def a(body, b, t, e):
        pol = True
        while e[0] == "unop" and e[1] == "Not":
            e = e[2]
            pol = not pol
        if op is None:
            if e[0] == "field" and e[2] == field and e[3] == field_adt:
                return switch_targets_for(t, truth if pol else not truth)
            return None
        if e[0] == "binop" and e[1] in ("Ne", "Eq") and mentions_field(e[2], field_adt, field) and canon(e[3]) == str(const):
            val = truth if e[1] == op else (not truth)
            return switch_targets_for(t, val if pol else not val)
        return None
    return a


def _const_key(e):
    """Comparable identity of a constant-like expression: bool/int value or enum variant name."""
    e = strip(e)
    if e[0] == "const":
        if e[1].get("variant"):
            return "variant:" + e[1]["variant"]
        if "int" in e[1]:
            return "int:%s" % e[1]["int"]
    if e[0] == "agg" and e[2] and not e[3]:
        return "variant:" + e[2]
    return None


def alloc_liveness(prog):
    """How rt::alloc::State records that an allocation was released, whatever the representation (a bool, an enum, ..):
    (field, value at creation, value written by Allocation::drop) - read off the writers."""
    adt = "rt::alloc::State"
    dropk = "<rt::alloc::Allocation as std::ops::Drop>::drop"
    for (a, f), ws in prog.writers().items():
        if a != adt:
            continue
        dv = [_const_key(rv_expr(prog, w)) for w in ws if w["kind"] == "assign" and w.get("exact") and enclosing_fn(w["fn"]) == dropk]
        cv = [_const_key(prog.fns[w["fn"]].body.expr_of_operand(w["op"])) for w in ws if w["kind"] == "construct"]
        if dv and cv and len(set(dv)) == 1 and dv[0]:
            live = [c for c in cv if c and c != dv[0]]
            if live and len(set(live)) == 1:
                return f, live[0], dv[0]
    return None


def assume_field_value(adt, field, value_key):
    """PEval assumption: adt.field currently holds the constant `value_key` (see _const_key) - for a bare bool test, a
    comparison with a constant, or a match on the discriminant."""
    def a(body, b, t, e):
        pol = True
        while e[0] == "unop" and e[1] == "Not":
            e = e[2]
            pol = not pol
        if is_field(e, adt, field) and value_key.startswith("int:"):
            return switch_targets_for(t, (value_key != "int:0") == pol)
        if e[0] == "call" and (e[1].endswith("PartialEq::eq") or e[1].endswith("PartialEq::ne")) and len(e[2]) == 2:
            x, y = e[2]
            if is_field(y, adt, field):
                x, y = y, x
            if is_field(x, adt, field):
                d = strip(y)
                # the other side may be a promoted constant / a reference to one
                k = _const_key(d)
                if k is not None:
                    eq = (k == value_key)
                    return switch_targets_for(t, (eq if e[1].endswith("::eq") else not eq) == pol)
        if e[0] == "binop" and e[1] in ("Eq", "Ne") and is_field(e[2], adt, field):
            k = _const_key(e[3])
            if k is not None:
                eq = (k == value_key)
                return switch_targets_for(t, (eq if e[1] == "Eq" else not eq) == pol)
        if e[0] == "discr" and is_field(e[1], adt, field) and value_key.startswith("variant:"):
            names = dict((n, v) for (v, n) in (e[3] or []))
            want = names.get(value_key[8:])
            if want is not None:
                tgt = [tb for (val, tb) in t["targets"] if val == want]
                return {tgt[0] if tgt else t["otherwise"]}
        return None
    return a


def K1(ctx):
    """Every iteration of Builder::check runs the leak scan between scheduler.run and execution.step."""
    prog = ctx.prog
    fk = "model::Builder::check"
    root = prog.ident(fk)
    if root is None:
        ctx.missing("K1", fk)
        return
    ev = {"run": "rt::scheduler::Scheduler::run", "leaks": EXEC + "::check_for_leaks", "step": EXEC + "::step"}
    ea = EventAnalysis(prog, path_matcher(ev), stop=lambda i: prog.insts[i].key != fk).solve([root])
    body = prog.body_of(root)
    ctx.touch(fk, body.n)
    may = ea.may.get(root, ())
    if not {"run", "leaks", "step"} <= set(may):
        ctx.bad("K1", fk, "Builder::check lost a step of the iteration (has %s)" % sorted(may), prog.fns[fk].loc(), detail="missing")
        return
    # between run and the next run: leaks must occur; between leaks and step nothing else
    bad = []
    for b in ea.sites_may(root, "step"):
        # every path from a `run` site to this `step` passes `leaks`
        pass
    runs = ea.sites_may(root, "run")
    steps = ea.sites_may(root, "step")
    leaks = set(ea.sites_may(root, "leaks"))
    ok = True
    for rb in runs:
        # search path from rb to any step site avoiding leaks sites
        seen = set()
        dq = list(body.succs(rb))
        while dq:
            x = dq.pop()
            if x in seen or x in leaks:
                continue
            seen.add(x)
            if x in steps:
                ok = False
                break
            dq.extend(body.succs(x))
    if ok:
        ctx.ok("K1", fk, "every iteration: scheduler.run -> check_for_leaks -> execution.step", [site_str(prog, fk, runs[0])])
    else:
        ctx.bad("K1", fk, "an iteration can reach execution.step() without the leak scan after scheduler.run", prog.fns[fk].loc())


def K2(ctx):
    """The leak scan dispatches to every object kind defining check_for_leaks and iterates over all entries."""
    n = g_dpor.dispatch_exhaustive(ctx, "K2", "check_for_leaks", "check_for_leaks")
    ctx.floor("K2", n, 3, "Alloc, Arc, Channel")
    # and the scan covers all entries
    prog = ctx.prog
    fk = "rt::object::Store::check_for_leaks"
    fn = prog.fn(fk)
    if fn is not None:
        inst = prog.ident(fk)
        keys = [prog.callee_key(c) for (b, t, c) in prog.sites(inst)]
        if any(k.endswith("Iterator>::next") or k.endswith("Iterator::next") for k in keys) and any("enumerate" in k for k in keys):
            ctx.ok("K2", fk + ":loop", "iterates over all entries", [fn.loc()])
        else:
            ctx.bad("K2", fk, "the leak scan no longer iterates over every stored object", fn.loc(), detail="loop")


def K2b(ctx):
    """The leak scan of an execution is unconditional: Execution::check_for_leaks reaches the scan of the object store on every
    path (no early return that exempts some executions)."""
    prog = ctx.prog
    fk = EXEC + "::check_for_leaks"
    fn = need_fn(ctx, "K2b", fk)
    if fn is None:
        return
    inst = prog.ident(fk)
    scans = [b for (b, t, c) in prog.sites(inst) if prog.callee_key(c) == "rt::object::Store::check_for_leaks"]
    if scans and every_path_passes(fn.body, scans):
        ctx.ok("K2b", fk, "objects.check_for_leaks() on every path", [site_str(prog, fk, scans[0])])
    else:
        ctx.bad("K2b", fk, "some executions are exempt from the leak scan (a path of Execution::check_for_leaks returns without scanning "
                "the object store)", fn.loc(), detail="conditional")


def K6(ctx):
    """from_std / from_raw create the modelled Arc only after every check that can reject the call: a panic after rt::Arc::new leaves
    a phantom object with count 1 behind, which is reported as a leak although the program holds no handle."""
    prog = ctx.prog
    n = 0
    for fk in ("sync::arc::Arc::<T>::from_std",):
        fn = need_fn(ctx, "K6", fk)
        if fn is None:
            continue
        inst = prog.ident(fk)
        body = fn.body
        news = [b for (b, t, c) in prog.sites(inst) if prog.callee_key(c) == "rt::arc::Arc::new"]
        if not news:
            ctx.missing("K6", fk, "no rt::Arc::new")
            continue
        n += 1
        after = set()
        for nb in news:
            after |= body.reachable(nb)
        late = [(b, msg) for (b, msg) in panic_sites(prog, fk) if b in after and b not in news]
        if late:
            ctx.bad("K6", fk, "the modelled Arc is created before a check that can still reject the call (\"%s\"): on that panic the object "
                    "stays in the store with count 1 and the iteration ends with a false `Arc leaked`" % (late[0][1] or "")[:60],
                    site_str(prog, fk, late[0][0]), detail="late-check")
        else:
            ctx.ok("K6", fk, "all rejecting checks precede rt::Arc::new", [site_str(prog, fk, news[0])])
    ctx.floor("K6", n, 1, "from_std")


K3_ROWS = [
    ("rt::arc::State::check_for_leaks", "Arc leaked", ("rt::arc::State", "ref_cnt", "Ne", 0)),
    ("rt::alloc::State::check_for_leaks", "Allocation leaked", ("rt::alloc::State", "is_dropped", None, None)),
    ("rt::mpsc::State::check_for_leaks", "Messages leaked", ("rt::mpsc::State", "msg_cnt", "Ne", 0)),
]


def K3(ctx):
    """Leak predicates and documented messages: Arc leaked iff ref_cnt != 0, Allocation leaked iff !is_dropped, Messages leaked iff msg_cnt != 0."""
    prog = ctx.prog
    for (fk, text, (adt, field, op, const)) in K3_ROWS:
        fn = need_fn(ctx, "K3", fk)
        if fn is None:
            continue
        body = fn.body
        ps = panic_sites(prog, fk, text)
        ctx.touch(fk, len(ps))
        if len(ps) < 2:
            ctx.bad("K3", fk, "the documented leak panic \"%s\" must exist for both location variants (found %d)" % (text, len(ps)), fn.loc(), detail="message")
            continue
        # leaked <=> panic: with the leak condition true no return; with it false no panic
        if op is None:
            lv = alloc_liveness(prog)
            if lv is None:
                ctx.missing("K3", fk, "cannot identify how an allocation is marked as released (a field of %s written by Allocation::drop)" % adt)
                continue
            field, live, dropped = lv
            leak_true = assume_field_value(adt, field, live)
            leak_false = assume_field_value(adt, field, dropped)
        else:
            leak_true = assume_cmp(adt, field, op, const, True)
            leak_false = assume_cmp(adt, field, op, const, False)
        r_true, _ = PEval(body, leak_true).run()
        r_false, _ = PEval(body, leak_false).run()
        rets = set(body.return_blocks())
        panics = {b for b, _ in ps}
        ok = not (rets & r_true) and (panics & r_true) and not (panics & r_false) and (rets & r_false)
        if ok:
            ctx.ok("K3", fk, "panics \"%s\" iff %s.%s %s" % (text, adt.split("::")[-2], field, "!= 0" if op else "is false"),
                   [site_str(prog, fk, b) for b, _ in ps])
        else:
            ctx.bad("K3", fk, "leak predicate changed: with the leak condition true returns=%s panics=%s; with it false panics=%s returns=%s" %
                    (bool(rets & r_true), bool(panics & r_true), bool(panics & r_false), bool(rets & r_false)), fn.loc(), detail="predicate")


def K4_refcnt(ctx):
    """Writers of the Arc reference count: 1 at creation, checked_add(1) in ref_inc, -1 in ref_dec."""
    prog = ctx.prog
    adt, field = "rt::arc::State", "ref_cnt"
    allowed = {"rt::arc::Arc::new": "init", "rt::arc::Arc::ref_inc": "inc", "rt::arc::Arc::ref_dec": "dec"}
    n = 0
    for w in prog.writers().get((adt, field), []):
        fk = enclosing_fn(w["fn"])
        body = prog.fns[w["fn"]].body
        n += 1
        role = allowed.get(fk)
        if role is None:
            ctx.bad("K4", fk, "Arc reference count written outside new/ref_inc/ref_dec", site_str(prog, w["fn"], w["bb"]), detail="ref_cnt")
            continue
        if role == "init":
            e = body.expr_of_operand(w["op"]) if w["kind"] == "construct" else None
            if e and e[0] == "const" and e[1].get("int") == 1:
                ctx.ok("K4", fk, "ref_cnt starts at 1", [site_str(prog, w["fn"], w["bb"])])
            else:
                ctx.bad("K4", fk, "a new Arc must start with ref_cnt = 1", site_str(prog, w["fn"], w["bb"]), detail="init")
            continue
        if w["kind"] != "assign":
            ctx.bad("K4", fk, "ref_cnt mutably borrowed", site_str(prog, w["fn"], w["bb"]), detail="borrow")
            continue
        st = w["stmt"]
        txt = canon(body.expr_of_rvalue(st["rv"])) if st["k"] == "=" else ""
        if role == "inc" and "checked_add" in txt and ", 1)" in txt and "ref_cnt" in txt:
            ctx.ok("K4", fk, "ref_cnt = ref_cnt.checked_add(1)", [site_str(prog, w["fn"], w["bb"])])
        elif role == "dec" and re.search(r"ref_cnt Sub(WithOverflow)? 1\)", txt):
            ctx.ok("K4", fk, "ref_cnt -= 1", [site_str(prog, w["fn"], w["bb"])])
        else:
            ctx.bad("K4", fk, "reference count must change by exactly one (%s: %s)" % (role, txt[:100]), site_str(prog, w["fn"], w["bb"]), detail=role)
    ctx.floor("K4-refcnt", n, 3, "new, ref_inc, ref_dec")


def K4_alloc(ctx):
    """Writers of the allocation's released-marker and of the raw-allocation registry; rt bookkeeping paired with the std alloc/dealloc call."""
    prog = ctx.prog
    adt = "rt::alloc::State"
    lv = alloc_liveness(prog)
    n = 0
    if lv is None:
        ctx.missing("K4", adt, "cannot identify how an allocation is marked as released (a field written by Allocation::drop)")
        field, live, dropped = "is_dropped", None, None
    else:
        field, live, dropped = lv
    for w in prog.writers().get((adt, field), []):
        fk = enclosing_fn(w["fn"])
        body = prog.fns[w["fn"]].body
        n += 1
        if w["kind"] == "construct":
            e = body.expr_of_operand(w["op"])
            if fk in ("rt::alloc::alloc", "rt::alloc::Allocation::new") and _const_key(e) == live:
                ctx.ok("K4", fk + ":is_dropped", "tracked as live at creation", [site_str(prog, w["fn"], w["bb"])])
            else:
                ctx.bad("K4", fk, "allocation must be created live by alloc/Allocation::new", site_str(prog, w["fn"], w["bb"]), detail="is_dropped-init")
        elif w["kind"] == "assign":
            e = body.expr_of_rvalue(w["stmt"]["rv"])
            if fk == "<rt::alloc::Allocation as std::ops::Drop>::drop" and _const_key(e) == dropped:
                ctx.ok("K4", fk + ":is_dropped", "marked released only by Allocation::drop", [site_str(prog, w["fn"], w["bb"])])
            else:
                ctx.bad("K4", fk, "an allocation may only be marked released by Allocation::drop", site_str(prog, w["fn"], w["bb"]), detail="is_dropped")
        else:
            ctx.bad("K4", fk, "the released-marker is mutably borrowed", site_str(prog, w["fn"], w["bb"]), detail="is_dropped-borrow")
    ctx.floor("K4-alloc", n, 3, "2 creations + Allocation::drop")
    # raw allocation registry
    for (fk, method) in (("rt::alloc::alloc::{closure#0}", "insert"), ("rt::alloc::dealloc::{closure#0}", "remove")):
        fn = need_fn(ctx, "K4", fk)
        if fn is None:
            continue
        inst = prog.ident(fk)
        hit = [b for (b, t, c) in prog.sites(inst) if is_std_collection_call(prog.callee_key(c), method) and mentions_field(arg_expr(fn.body, t, 0), EXEC, "raw_allocations")]
        if hit:
            ctx.ok("K4", enclosing_fn(fk) + ":registry", "raw_allocations.%s" % method, [site_str(prog, fk, hit[0])])
        else:
            ctx.bad("K4", enclosing_fn(fk), "raw allocation registry not updated (%s)" % method, fn.loc(), detail="registry")
    # front-end: rt bookkeeping before std dealloc; after std alloc
    rows = [("alloc::dealloc", "rt::alloc::dealloc", "std::alloc::dealloc", True), ("alloc::alloc", "std::alloc::alloc", "rt::alloc::alloc", True),
            ("alloc::alloc_zeroed", "std::alloc::alloc_zeroed", "rt::alloc::alloc", True)]
    for (fk, first, then, _) in rows:
        root = prog.ident(fk)
        if root is None:
            ctx.missing("K4", fk)
            continue
        ea = EventAnalysis(prog, path_matcher({"a": first, "b": then}), stop=lambda i: prog.insts[i].key != fk).solve([root])
        m = ea.must_of(root)
        if m is not TOP and {"a", "b"} <= set(m) and not ea.must_before(root, "a", "b"):
            ctx.ok("K4", fk, "%s then %s" % (first, then), [prog.fns[fk].loc()])
        else:
            ctx.bad("K4", fk, "%s must call %s and then %s on every path" % (fk, first, then), prog.fns[fk].loc(), detail="pairing")


def K5(ctx):
    """Lazy statics are taken inside the execution, destroyed outside any execution borrow, before the main thread finishes."""
    prog = ctx.prog
    ck = "model::Builder::check::{closure#0}"
    root = prog.ident(ck)
    if root is None:
        ctx.missing("K5", ck)
        return

    def m(prog_, i, b, t, c):
        k = prog_.callee_key(c)
        if k == "rt::lazy_static::Set::drop":
            return ["take"]
        if k == "rt::thread_done":
            return ["thread_done"]
        if k == "std::mem::drop" and "lazy_static::StaticKeyId" in c.get("gargs", ""):
            return ["destroy"]
        if k.endswith("Fn::call") or k.endswith("FnOnce::call_once") or k.endswith("Fn<()>>::call"):
            if prog_.insts[i].key == ck:
                return ["user"]
        return []
    ea = EventAnalysis(prog, m, stop=lambda i: prog.insts[i].key == "rt::thread_done").solve([root])
    must = ea.must_of(root)
    steps = ["user", "take", "destroy", "thread_done"]
    miss = [s for s in steps if must is not TOP and s not in must]
    bad = [(a, b) for a, b in zip(steps, steps[1:]) if ea.must_before(root, a, b)]
    # the destruction happens outside the execution borrow: the mem::drop is a direct call of the closure itself
    direct = [b for b in ea.sites_may(root, "destroy") if "destroy" in ea._direct(root, b, prog.body_of(root).term(b))]
    if not miss and not bad and direct:
        ctx.ok("K5", "model::Builder::check", "user closure -> take lazy statics -> destroy them outside the execution borrow -> thread_done (-> leak scan)",
               [site_str(prog, ck, direct[0])])
    else:
        ctx.bad("K5", "model::Builder::check", "end-of-iteration teardown out of order: missing %s, misordered %s, destroyed outside borrow=%s" %
                (miss, bad, bool(direct)), prog.fns[ck].loc())
