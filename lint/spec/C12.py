"""C12 - loom atomics compute the same values as std atomics (structural clauses only)."""
from . import atomics
from .common import *

EXPLANATION = ("Decides on the MIR of the current tree: the u64 carrier is lossless for every Numeric type (N1: size <= 8, single `as` cast both "
               "ways, bool encoding), the operator computed by the closure of each fetch_* method of each atomic type equals std's documented "
               "operator on the decoded T incl. operand order and signedness (N2), compare_exchange / compare_and_swap / compare_exchange_weak / "
               "fetch_update shapes (N3) and the decode-before / encode-after discipline of rt::Atomic incl. with_mut write-back and the "
               "most-recent-store index (N4). Numeric equality for all operands relies on std's semantics of wrapping_add etc. (trusted)."
               " fetch_update returns Err only when the user function itself yields None (N3 none-only).")
RULE_TEXT = "rule instances = Numeric impls, (type, fetch-op) closures, front-end methods; non-trivial when matched to a concrete MIR body"
LEVEL_NOTE = "necessary conditions only; std operator semantics trusted"
WITNESSES = ['C12WithMutNeedsMut']


def run(ctx):
    from . import guardvocab as _gv
    _gv.G3(ctx, scopes=('sync::atomic::', 'rt::atomic::'))
    atomics.N1(ctx)
    atomics.N2(ctx)
    atomics.N3(ctx)
    atomics.N4(ctx)
    atomics.O2(ctx)
    atomics.R1(ctx)
    atomics.N5(ctx)
    # a load in the thread that performed the latest store returns that store, also after a yield
    from . import tlsrules
    tlsrules.U4(ctx)
