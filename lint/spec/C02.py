"""C02 - every allowed weak-memory outcome is explored: no over-synchronisation (structural clauses only)."""
from . import g_sync
from .common import *

EXPLANATION = ("Decides on the MIR of the current tree the direction of C02 that is visible in code shape - that loom never treats a weaker "
               "ordering as a stronger one: exactness of the ordering tables of Synchronize and fence (Y3, Y4), no stray joins into a thread's "
               "causality (Y2), the acquire-fence predicate is thread-local (O4), the user's Ordering reaches the runtime unmodified for every "
               "atomic front-end method (O1), compare_and_swap's failure-ordering table (O2) and that loads/RMWs seed the read-from branch with "
               "all candidate stores and use the branch's choice (O3). Which candidate stores are offered depends on clock values and is not decided."
               " G0/G1 cross-check the acquire/release/join steps against the reference tree. A read-modify-write that can fail is offered what a load could read on its failure path (M7; on the current tree it is not: known finding KF-P).")
RULE_TEXT = "rule instances = ordering-table cells, causality writers, front-end methods x atomic types; non-trivial when matched to concrete MIR"
LEVEL_NOTE = "necessary conditions only"


def run(ctx):
    from . import guardvocab
    guardvocab.G0(ctx, effects={'release', 'join', 'acquire'})
    guardvocab.G1(ctx, effects={'release', 'join', 'acquire'})
    guardvocab.G2(ctx, scopes=('rt::atomic::', 'rt::synchronize::', 'rt::vv::'))
    guardvocab.G3(ctx, scopes=('rt::atomic::', 'rt::synchronize::', 'rt::vv::', 'sync::atomic::'))
    g_sync.run_all(ctx, ["Y1:atomic", "Y2", "Y3", "Y4", "O4", "Y1c"])
    from . import atomics
    atomics.O1(ctx)
    atomics.O2(ctx)
    atomics.O3(ctx)
    from . import round6
    round6.M7(ctx)
    atomics.M5(ctx)
    atomics.R1(ctx)
    atomics.N5(ctx)
    atomics.M5b(ctx)
    atomics.M6(ctx)
