"""C11 rule A1r: front-end wiring of loom::sync::Arc."""
from .common import *

A = "sync::arc::Arc::<T>::"
RTA = "rt::arc::Arc::"


def arc_drop_decrements(ctx, rule="A1r"):
    """Dropping a loom Arc handle decrements the modelled count on every path of a live execution (also while panicking:
    a skipped decrement is a false `Arc leaked`)."""
    prog = ctx.prog
    n = 0
    # drop always decrements
    fk = "<sync::arc::Arc<T> as std::ops::Drop>::drop"
    root = prog.ident(fk)
    if root is None:
        ctx.missing(rule, fk)
    else:
        n += 1
        ea = EventAnalysis(prog, path_matcher({"dec": RTA + "ref_dec"}), stop=lambda i: prog.insts[i].key != fk,
                           assume=assume_scenario(prog, {"rt::thread::Set::is_active": True})).solve([root])
        if ea.holds_on_all_paths(root, "dec") and "dec" in ea.may.get(root, ()):
            ctx.ok(rule, fk, "ref_dec on every path of a live execution", [prog.fns[fk].loc()])
        else:
            ctx.bad(rule, fk, "dropping a handle must decrement the modelled count on every path", prog.fns[fk].loc(), detail="dec")
    return n


def A1r(ctx):
    """Front-end wiring of loom Arc: last-handle bookkeeping only after ref_dec()/get_mut() == true, drop always decrements, clone increments first, get_mut/try_unwrap guards, registry, strong-count balance."""
    prog = ctx.prog
    n = 0
    # unregister only when this was the last handle
    allowed = {"<sync::arc::Arc<T> as std::ops::Drop>::drop": RTA + "ref_dec", A + "try_unwrap": RTA + "get_mut"}
    # the function that removes a handle's entry from the registry (whatever it is called)
    unreg = set()
    for k, f2 in prog.fns.items():
        if not k.startswith("sync::arc::"):
            continue
        for (b, t, c) in prog.sites(prog.ident(k)):
            if is_std_collection_call(prog.callee_key(c), "remove") and mentions_field(arg_expr(f2.body, t, 0), EXEC, "arc_objs"):
                unreg.add(enclosing_fn(k))
    if len(unreg) != 1:
        ctx.bad("A1r", "sync::arc::Arc", "expected exactly one function removing entries from the Arc registry, found %s" % sorted(unreg), detail="unregister-fn")
    for s in call_sites(prog, unreg):
        fk = enclosing_fn(s["fn"])
        body = prog.fns[s["fn"]].body
        n += 1
        g = allowed.get(fk)
        if g is None:
            ctx.bad("A1r", fk, "the Arc registry entry is removed outside drop/try_unwrap", site_str(prog, s["fn"], s["bb"]), detail="unregister")
            continue
        if unreachable_if(body, s["bb"], assume_calls({g: False})) and not unreachable_if(body, s["bb"], assume_calls({g: True})):
            ctx.ok("A1r", fk + ":unregister", "only when %s() returned true" % g.split("::")[-1], [site_str(prog, s["fn"], s["bb"])])
        else:
            ctx.bad("A1r", fk, "unregister (this was the last handle) is not guarded by %s() == true" % g, site_str(prog, s["fn"], s["bb"]), detail="unregister-guard")
    n += arc_drop_decrements(ctx)
    # clone: increment before cloning the std Arc
    fk = "<sync::arc::Arc<T> as std::clone::Clone>::clone"
    root = prog.ident(fk)
    if root is None:
        ctx.missing("A1r", fk)
    else:
        n += 1

        def m(prog_, i, b, t, c):
            k = prog_.callee_key(c)
            if k == RTA + "ref_inc":
                return ["inc"]
            if k.startswith("<std::sync::Arc<") and k.endswith("Clone>::clone"):
                return ["std_clone"]
            return []
        ea = EventAnalysis(prog, m, stop=lambda i: prog.insts[i].key != fk).solve([root])
        mu = ea.must_of(root)
        if mu is not TOP and {"inc", "std_clone"} <= set(mu) and not ea.must_before(root, "inc", "std_clone"):
            ctx.ok("A1r", fk, "ref_inc precedes cloning the inner std Arcs", [prog.fns[fk].loc()])
        else:
            ctx.bad("A1r", fk, "clone must increment the modelled count before cloning the inner std Arc", prog.fns[fk].loc(), detail="clone")
    # get_mut: Some only under rt get_mut == true
    fk = A + "get_mut"
    fn = need_fn(ctx, "A1r", fk)
    if fn is not None:
        n += 1
        body = fn.body
        someb = noneb = None
        for b, blk in enumerate(body.blocks):
            for s in blk["stmts"]:
                if s["k"] == "=" and s["lhs"]["l"] == 0 and s["rv"]["k"] == "agg":
                    if s["rv"].get("variant") == "Some":
                        someb = b
                    if s["rv"].get("variant") == "None":
                        noneb = b
        ok = someb is not None and noneb is not None and unreachable_if(body, someb, assume_calls({RTA + "get_mut": False})) and \
            unreachable_if(body, noneb, assume_calls({RTA + "get_mut": True}))
        if ok:
            ctx.ok("A1r", fk, "Some(&mut T) iff the modelled count is one", [site_str(prog, fk, someb)])
        else:
            ctx.bad("A1r", fk, "Arc::get_mut must hand out the value exactly when rt get_mut() is true", fn.loc(), detail="get_mut")
    fk = A + "try_unwrap"
    fn = need_fn(ctx, "A1r", fk)
    if fn is not None:
        n += 1
        body = fn.body
        errb = [b for b, blk in enumerate(body.blocks) for s in blk["stmts"]
                if s["k"] == "=" and s["lhs"]["l"] == 0 and s["rv"]["k"] == "agg" and s["rv"].get("variant") == "Err"]
        okb = [b for b, blk in enumerate(body.blocks) for s in blk["stmts"]
               if s["k"] == "=" and s["lhs"]["l"] == 0 and s["rv"]["k"] == "agg" and s["rv"].get("variant") == "Ok"]
        inst = prog.ident(fk)
        decs = [b for (b, t, c) in prog.sites(inst) if prog.callee_key(c) == RTA + "ref_dec"]
        ok = errb and okb and all(unreachable_if(body, b, assume_calls({RTA + "get_mut": True})) for b in errb) and \
            all(unreachable_if(body, b, assume_calls({RTA + "get_mut": False})) for b in okb) and len(decs) == 1 and \
            unreachable_if(body, decs[0], assume_calls({RTA + "get_mut": False}))
        if ok:
            ctx.ok("A1r", fk, "Err(this) iff !get_mut(); on success exactly one ref_dec", [site_str(prog, fk, decs[0])])
        else:
            ctx.bad("A1r", fk, "try_unwrap must return Err(this) exactly when rt get_mut() is false and release exactly one count otherwise",
                    fn.loc(), detail="try_unwrap")
    # registry wiring
    for (fk, method) in ((A + "from_std", "insert"), (A + "from_raw", "index")):
        fn = need_fn(ctx, "A1r", fk)
        if fn is None:
            continue
        n += 1
        hit = []
        ck = fk
        # the registry access sits in a closure handed to rt::execution - whichever closure of the function (or of a helper
        # flattened into it) that is
        for k2 in [fk] + list(prog.closures_of(fk)):
            f2 = prog.fn(k2)
            if f2 is None:
                continue
            for (b, t, c) in prog.sites(prog.ident(k2)):
                if prog.callee_key(c).lower().endswith("::" + method) and t["args"] and mentions_field(arg_expr(f2.body, t, 0), EXEC, "arc_objs"):
                    hit.append(b)
                    ck = k2
        if hit:
            ctx.ok("A1r", fk, "arc_objs.%s" % method, [site_str(prog, ck, hit[0])])
        else:
            ctx.bad("A1r", fk, "%s must go through the execution's Arc registry (arc_objs.%s)" % (fk, method), fn.loc(), detail="registry")
    # increment / decrement balance
    arc_drop = "<sync::arc::Arc<T> as std::ops::Drop>::drop"
    for (fk, clones, drops) in ((A + "increment_strong_count", 1, 0), (A + "decrement_strong_count", 0, 1)):
        fn = need_fn(ctx, "A1r", fk)
        if fn is None:
            continue
        n += 1
        inst = prog.ident(fk)
        body = fn.body
        ncl = 0
        ndr = 0
        nraw = 0
        for (b, t, c) in prog.sites(inst):
            if body.blocks[b]["cleanup"]:
                continue
            k = prog.callee_key(c)
            if k == "<sync::arc::Arc<T> as std::clone::Clone>::clone":
                ncl += 1
            if k == "<std::mem::ManuallyDrop<T> as std::clone::Clone>::clone" and c.get("gargs", "").startswith("[sync::arc::Arc<"):
                ncl += 1     # ManuallyDrop<Arc<T>>::clone clones the handle and suppresses the drop of the copy
            if k == A + "from_raw":
                nraw += 1
            if k == "std::mem::drop" and c.get("glue", {}).get("own") is not None and prog.insts[c["glue"]["own"]].key == arc_drop:
                ndr += 1
        for b in range(body.n):
            t = body.term(b)
            if t["k"] == "drop" and not body.blocks[b]["cleanup"]:
                own = prog.insts[inst].drops.get(b, {}).get("own")
                if own is not None and prog.insts[own].key == arc_drop:
                    ndr += 1
        if (ncl, ndr, nraw) == (clones, drops, 1):
            ctx.ok("A1r", fk, "from_raw + %d clone, %d drop: net %+d" % (clones, drops, clones - drops), [fn.loc()])
        else:
            ctx.bad("A1r", fk, "%s must change the count by exactly %+d (from_raw=%d, clones=%d, handle drops=%d)" %
                    (fk, clones - drops, nraw, ncl, ndr), fn.loc(), detail="balance")
    ctx.floor("A1r", n, 10, "unregister x2, drop, clone, get_mut, try_unwrap, from_std, from_raw, inc/dec strong count")
