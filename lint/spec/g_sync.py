"""G-SYNC: inventory of happens-before edges (Thread.causality transfers).

Used by C02, C03, C04, C07, C08, C09, C11, C17 (DESIGN.md section 4)."""
from .common import *

SYNC = "rt::synchronize::Synchronize"
VV = "rt::vv::VersionVec"
REL = {"Release", "AcqRel", "SeqCst"}
ACQ = {"Acquire", "AcqRel", "SeqCst"}


_ORD_ROLE = {}


def _ord(prog, i, body, t, k):
    """Ordering argument as ('const', V) or ('param', role) with role = success/ordering (first Ordering parameter of the
    declaring function) or failure (second): positional, independent of the parameter's name."""
    r = ordering_ordinal(prog, prog.insts[i].key, body.expr_of_operand(t["args"][k]))
    if r[0] == "ord":
        fn = prog.fns[prog.insts[i].key]
        n = len(params_of_type(fn, ORD_TY))
        if fn.kind == "Closure":
            pf = prog.fns.get(enclosing_fn(prog.insts[i].key))
            n = len(params_of_type(pf, ORD_TY)) if pf else n
        if n >= 2:
            return ("param", "success" if r[1] == 0 else "failure")
        return ("param", "ordering")
    return r


def sync_matcher(prog, i, b, t, c):
    """Events: 'store:<Ordering|param:name>' / 'load:<...>' for Synchronize::sync_store/sync_load calls,
    'rel' / 'acq' when the constant ordering is at least Release / Acquire."""
    key = prog.callee_key(c)
    out = []
    body = prog.body_of(i)
    if key == SYNC + "::sync_store":
        o = _ord(prog, i, body, t, 2)
        out.append("store:%s:%s" % o)
        out.append("store:any")
        if o[0] == "const" and o[1] in REL:
            out.append("rel")
    elif key == SYNC + "::sync_load":
        o = _ord(prog, i, body, t, 2)
        out.append("load:%s:%s" % o)
        out.append("load:any")
        if o[0] == "const" and o[1] in ACQ:
            out.append("acq")
        if o[0] == "const" and o[1] == "SeqCst":
            out.append("acq_sc")
    elif key == "rt::yield_now":
        out.append("yield_now")
    elif is_std_collection_call(key, "push_back"):
        out.append("push_back")
    elif is_std_collection_call(key, "pop_front"):
        out.append("pop_front")
    elif key == "rt::lazy_static::Set::init_static":
        out.append("init_static")
    return out


def _closure0(prog, key):
    k = key + "::{closure#0}"
    return k if k in prog.fns else None


def _must_on_paths(ctx, rule, fn_key, ev, what, assume=None, before_ret=None, instance=None, cond_ret=False):
    """`ev` occurs on every normal path of fn_key (optionally: before every `_0 = <before_ret>` assignment of
    the closure that computes the result)."""
    prog = ctx.prog
    root = prog.ident(fn_key)
    if root is None:
        ctx.missing(rule, fn_key)
        return
    ea = EventAnalysis(prog, sync_matcher, assume=assume).solve([root])
    ctx.touch(fn_key, len(ea.sub))
    inst_name = instance or (fn_key + ":" + what)
    if before_ret is None:
        if ea.holds_on_all_paths(root, ev):
            sites = [prog.site_loc(i, b) for i in ea.sub for b in ea.sites_may(i, ev)
                     if ev in ea._direct(i, b, prog.body_of(i).term(b))] if True else []
            ctx.ok(rule, inst_name, "%s on every normal path" % what, sites[:3] or [fn_key])
        else:
            ctx.bad(rule, fn_key, "missing happens-before edge: %s is not performed on every normal path of %s" % (what, fn_key),
                    prog.fns[fn_key].loc(), detail=what)
        return
    # the value-computing closure
    ck = _closure0(prog, fn_key) or fn_key
    ci = [i for i in ea.sub if prog.insts[i].key == ck]
    if not ci:
        ctx.missing(rule, ck, "closure computing the result of %s not reachable" % fn_key)
        return
    body = prog.fns[ck].body
    blocks = blocks_assigning_ret(body, before_ret)
    # `_0 = <cond>` (e.g. `let last = cnt == 0; if last { acquire }; last`): a successful return iff <cond>; judged with the
    # edges contradicting <cond> pruned
    cond_blocks = []
    if cond_ret:
        cond_blocks = blocks_assigning_ret(body, lambda e: strip(e)[0] in ("binop", "call", "unop", "field", "discr"))
    if not blocks and not cond_blocks:
        ctx.missing(rule, ck, "no success-return assignment found in %s" % ck)
        return
    IN, OUT = ea.block_out(ci[0])
    bad = [b for b in blocks if IN.get(b) is not TOP and ev not in (IN.get(b) or ())]
    for cb in cond_blocks:
        for st in body.blocks[cb]["stmts"]:
            if st["k"] == "=" and st["lhs"]["l"] == 0 and not st["lhs"]["p"]:
                ce = body.expr_of_rvalue(st["rv"])
                pol = True
                while ce[0] == "unop" and ce[1] == "Not":
                    ce = ce[2]
                    pol = not pol
                want = canon(ce)
                extra = assume_expr(lambda x, want=want, pol=pol: (pol if canon(x) == want else None))
                ea2 = EventAnalysis(prog, sync_matcher, assume=assume_all(assume, extra)).solve([root])
                IN2, _ = ea2.block_out(ci[0])
                if IN2.get(cb) is not TOP and ev not in (IN2.get(cb) or ()):
                    bad.append(cb)
    blocks = blocks + cond_blocks
    if bad:
        ctx.bad(rule, fn_key, "missing happens-before edge: a successful return of %s is not preceded by %s" % (fn_key, what),
                site_str(prog, ck, bad[0]), detail=what)
    else:
        ctx.ok(rule, inst_name, "%s precedes every successful return" % what, [site_str(prog, ck, b) for b in blocks])


def Y1(ctx, rows=None):
    """Required edges, one instance per primitive side."""
    prog = ctx.prog
    true_ret = lambda e: is_const_bool(e, True)
    some_ret = lambda e: e[0] == "agg" and e[2] == "Some"
    table = {
        "mutex": [
            ("rt::mutex::Mutex::release_lock", "rel", "release store (>= Release)", dict(assume=assume_calls({"rt::thread::Set::is_active": True}))),
            ("rt::mutex::Mutex::post_acquire", "acq", "acquire load (>= Acquire)", dict(before_ret=true_ret, cond_ret=True)),
        ],
        "rwlock": [
            ("rt::rwlock::RwLock::release_read_lock", "rel", "release store (>= Release)", dict(assume=assume_calls({"rt::thread::Set::is_active": True}))),
            ("rt::rwlock::RwLock::release_write_lock", "rel", "release store (>= Release)", dict(assume=assume_calls({"rt::thread::Set::is_active": True}))),
            ("rt::rwlock::RwLock::post_acquire_read_lock", "acq", "acquire load (>= Acquire)", dict(before_ret=true_ret, cond_ret=True)),
            ("rt::rwlock::RwLock::post_acquire_write_lock", "acq", "acquire load (>= Acquire)", dict(before_ret=true_ret, cond_ret=True)),
        ],
        "notify": [
            ("rt::notify::Notify::notify", "rel", "release store (>= Release)", {}),
        ],
        "channel": [
            ("rt::mpsc::Channel::send", "rel", "release store (>= Release)", {}),
            ("rt::mpsc::Channel::send", "push_back", "queueing of the per-message Synchronize", {}),
            ("rt::mpsc::Channel::recv", "pop_front", "dequeue of the per-message Synchronize", {}),
            ("rt::mpsc::Channel::recv", "acq", "acquire load (>= Acquire)", {}),
        ],
        "arc": [
            ("rt::arc::Arc::ref_dec", "rel", "release store (>= Release)", {}),
            ("rt::arc::Arc::ref_dec", "acq", "acquire load (>= Acquire)", dict(before_ret=true_ret, cond_ret=True)),
            ("rt::arc::Arc::get_mut", "acq", "acquire load (>= Acquire)", {}),
            ("rt::arc::Arc::strong_count", "acq_sc", "SeqCst load", {}),
        ],
        "lazy": [
            ("lazy_static::Lazy::<T>::try_get", "acq", "acquire load (>= Acquire)", dict(before_ret=some_ret)),
        ],
    }
    n = 0
    for grp, rws in table.items():
        if rows is not None and grp not in rows:
            continue
        for (fn_key, ev, what, kw) in rws:
            n += 1
            _must_on_paths(ctx, "Y1", fn_key, ev, what, **kw)
    if rows is None or "notify" in rows:
        n += 1
        _notify_wait(ctx)
    if rows is None or "channel" in rows:
        n += 2
        _channel_order(ctx)
    if rows is None or "lazy" in rows:
        n += 1
        _lazy_init(ctx)
    if rows is None or "atomic" in rows:
        n += _atomic_rows(ctx)
    if rows is None or "spawn" in rows:
        n += 1
        _join_edge(ctx, "rt::execution::Execution::new_thread", "spawn: child causality joins the parent's")
    if rows is None or "unpark" in rows:
        n += 1
        # the edge belongs to the unpark operation, wherever its body lives (Thread::unpark or inlined into Set::unpark); it is
        # either a direct join or - std's semantics - deposited with the token and acquired by the park that consumes it
        from . import round6
        if not round6.Y1u(ctx):
            _join_edge(ctx, "rt::thread::Thread::unpark" if prog.fn("rt::thread::Thread::unpark") else "rt::thread::Set::unpark",
                       "unpark: target causality joins the unparker's")
    return n


def Y1c(ctx):
    """No acquire on the failure path: once a try/post-acquire has performed its acquire load it cannot report failure
    (a failed try_lock that synchronises with earlier unlocks adds a happens-before edge nobody promised)."""
    prog = ctx.prog
    rows = ["rt::mutex::Mutex::post_acquire", "rt::rwlock::RwLock::post_acquire_read_lock", "rt::rwlock::RwLock::post_acquire_write_lock"]
    for fk in rows:
        ck = fk + "::{closure#0}"
        fn = need_fn(ctx, "Y1c", ck)
        if fn is None:
            continue
        body = fn.body
        inst = prog.ident(ck)
        acq = [b for (b, t, c) in prog.sites(inst) if prog.callee_key(c) == SYNC + "::sync_load"]
        fails = blocks_assigning_ret(body, lambda e: is_const_bool(e, False))
        bad = [a for a in acq if any(f in body.reachable(a) for f in fails)]
        if acq and not bad:
            ctx.ok("Y1c", fk, "the acquire load is performed only on the successful path", [site_str(prog, ck, acq[0])])
        elif not acq:
            ctx.missing("Y1c", fk, "no acquire load")
        else:
            ctx.bad("Y1c", fk, "a failed acquisition still performs the acquire load: a failed try_lock/try_read/try_write synchronises with "
                    "earlier releases (extra happens-before edge, hides races)", site_str(prog, ck, bad[0]))


def O5(ctx):
    """An acquire fence synchronises with *every* store the thread has read: the loop over stores has no early exit."""
    prog = ctx.prog
    fk = "rt::atomic::fence_acq"
    fn = need_fn(ctx, "O5", fk)
    if fn is None:
        return
    inst = prog.ident(fk)
    acq = [b for (b, t, c) in prog.sites(inst) if prog.callee_key(c) == SYNC + "::sync_load"]
    if not acq:
        ctx.bad("O5", fk, "acquire fence performs no acquire load", fn.loc(), detail="none")
        return
    for b in acq:
        ok, why = loop_continues_after(prog, inst, b)
        if ok:
            ctx.ok("O5", fk, "every store that passes the filter is acquired (no early exit from the store loop)", [site_str(prog, fk, b)])
        else:
            ctx.bad("O5", fk, "the acquire fence stops after the first matching store (%s): release edges carried by other stores the "
                    "thread has read are lost (false data-race reports)" % why, site_str(prog, fk, b))
    # both loops: all atomic objects, all tracked stores of each
    keys = [prog.callee_key(c) for (b, t, c) in prog.sites(inst)]
    if "rt::object::Store::<T>::iter_mut" in keys and "rt::atomic::State::stores_mut" in keys:
        ctx.ok("O5", fk + ":domain", "iterates all atomic objects and State::stores_mut() of each", [fn.loc()])
    else:
        ctx.bad("O5", fk, "the acquire fence no longer visits all atomics / all tracked stores", fn.loc(), detail="domain")


def _notify_wait(ctx):
    """Notify::wait: every return is either the modelled spurious one (via yield_now) or preceded by an acquire load."""
    prog = ctx.prog
    fn_key = "rt::notify::Notify::wait"
    root = prog.ident(fn_key)
    if root is None:
        ctx.missing("Y1", fn_key)
        return

    def m(prog_, i, b, t, c):
        evs = list(sync_matcher(prog_, i, b, t, c))
        if "acq" in evs or "yield_now" in evs:
            evs.append("acq_or_spurious")
        return evs
    ea = EventAnalysis(prog, m).solve([root])
    ctx.touch(fn_key, len(ea.sub))
    if ea.holds_on_all_paths(root, "acq_or_spurious"):
        ctx.ok("Y1", fn_key + ":acquire", "acquire load on every non-spurious return", [fn_key])
    else:
        ctx.bad("Y1", fn_key, "missing happens-before edge: Notify::wait can return (not via the spurious yield) without an "
                "acquire load on the notify's Synchronize", prog.fns[fn_key].loc(), detail="acquire")


def _channel_order(ctx):
    prog = ctx.prog
    for (fn_key, a, b, what) in (("rt::mpsc::Channel::send", "rel", "push_back", "release store precedes queueing the message clock"),
                                 ("rt::mpsc::Channel::recv", "pop_front", "acq", "dequeue precedes the acquire load")):
        root = prog.ident(fn_key)
        if root is None:
            ctx.missing("Y1", fn_key)
            continue
        ea = EventAnalysis(prog, sync_matcher).solve([root])
        v = ea.must_before(root, a, b)
        if v:
            ctx.bad("Y1", fn_key, "mpsc ordering broken: %s does not hold on every path" % what,
                    prog.site_loc(v[0]["inst"], v[0]["bb"]), detail="order")
        else:
            ctx.ok("Y1", fn_key + ":order", what, [fn_key])


def _lazy_init(ctx):
    prog = ctx.prog
    fn_key = "lazy_static::Lazy::<T>::get"
    root = prog.ident(fn_key)
    if root is None:
        ctx.missing("Y1", fn_key)
        return
    ea = EventAnalysis(prog, sync_matcher).solve([root])
    ctx.touch(fn_key, len(ea.sub))
    # every init_static is followed by a release store in the same closure
    bad = []
    n = 0
    for i in ea.sub:
        for b in ea.sites_may(i, "init_static"):
            if "init_static" in ea._direct(i, b, prog.body_of(i).term(b)):
                n += 1
                if not ea._must_reach_from(i, b, "rel"):
                    bad.append((i, b))
    if n == 0:
        ctx.missing("Y1", fn_key, "init_static call not found under Lazy::get")
    elif bad:
        ctx.bad("Y1", fn_key, "lazy_static initialisation is not followed by a release store on the value's Synchronize",
                prog.site_loc(*bad[0]), detail="init-release")
    else:
        ctx.ok("Y1", fn_key + ":init-release", "init_static -> sync_store(>= Release)", [fn_key])


def _atomic_rows(ctx):
    """State::store / load / rmw hand the *caller's* ordering to sync_store / sync_load."""
    prog = ctx.prog
    n = 0
    rows = [
        ("rt::atomic::State::store", "store:param:ordering", "sync_store(ordering)"),
        ("rt::atomic::State::load", "load:param:ordering", "sync_load(ordering)"),
    ]
    for (fn_key, ev, what) in rows:
        n += 1
        root = prog.ident(fn_key)
        if root is None:
            ctx.missing("Y1", fn_key)
            continue
        ea = EventAnalysis(prog, sync_matcher).solve([root])
        ctx.touch(fn_key, 1)
        if ea.holds_on_all_paths(root, ev):
            ctx.ok("Y1", fn_key, what + " with the caller's ordering on every path", [fn_key])
        else:
            got = sorted(e for e in ea.may.get(root, ()) if e.startswith(ev.split(":")[0] + ":"))
            ctx.bad("Y1", fn_key, "atomic %s does not synchronise with the caller's ordering on every path (found %s)" %
                    (fn_key.split("::")[-1], got), prog.fns[fn_key].loc(), detail="ordering")
    # rmw: Ok arm -> sync_load(success) and store(.., success); Err arm -> sync_load(failure)
    fn_key = "rt::atomic::State::rmw"
    root = prog.ident(fn_key)
    n += 3
    if root is None:
        ctx.missing("Y1", fn_key)
        return n
    body = prog.body_of(root)
    ea = EventAnalysis(prog, sync_matcher).solve([root])
    # find the switch on discr of the closure result
    arms = {}
    for b in range(body.n):
        t = body.term(b)
        if t["k"] == "switch":
            e = body.expr_of_operand(t["op"])
            if e[0] == "discr" and e[3] and {n_ for _, n_ in e[3]} == {"Ok", "Err"}:
                for (val, tb) in t["targets"]:
                    arms[dict((v, n_) for v, n_ in e[3])[val]] = tb
                known = set(arms)
                for nm in ("Ok", "Err"):
                    if nm not in known:
                        arms[nm] = t["otherwise"]
    if set(arms) != {"Ok", "Err"}:
        ctx.missing("Y1", fn_key, "Ok/Err dispatch of the rmw closure result not found")
        return n
    for arm, want_load in (("Ok", "load:param:success"), ("Err", "load:param:failure")):
        reach = body.reachable(arms[arm])
        other = body.reachable(arms["Err" if arm == "Ok" else "Ok"])
        only = reach - other
        evs = set()
        for b in only:
            evs |= set(ea._site_may(root, b, body.term(b)))
        loads = {e for e in evs if e.startswith("load:") and e != "load:any"}
        if loads == {want_load}:
            ctx.ok("Y1", "%s:%s" % (fn_key, arm), "%s arm synchronises with %s only" % (arm, want_load.split(":")[-1]),
                   [site_str(prog, fn_key, arms[arm])])
        else:
            ctx.bad("Y1", fn_key, "rmw %s arm must sync_load with the `%s` ordering, found %s" %
                    (arm, want_load.split(":")[-1], sorted(loads)), site_str(prog, fn_key, arms[arm]), detail=arm)
        if arm == "Ok":
            # the store half uses `success`
            ok = False
            for b in only:
                t = body.term(b)
                if t["k"] == "call" and prog.callee_key(prog.insts[root].calls.get(b, {})) == "rt::atomic::State::store":
                    o = _ord(prog, root, body, t, 4)
                    ok = (o == ("param", "success"))
            if ok:
                ctx.ok("Y1", fn_key + ":Ok-store", "store half uses the success ordering", [fn_key])
            else:
                ctx.bad("Y1", fn_key, "rmw Ok arm must store with the `success` ordering", detail="Ok-store")
    return n


def _join_edge(ctx, fn_key, what):
    """fn contains `X.causality.join(&Y.causality)`."""
    prog = ctx.prog
    fn = need_fn(ctx, "Y1", fn_key)
    if fn is None:
        return
    body = fn.body
    inst = prog.ident(fn_key)
    for (b, t, c) in prog.sites(inst):
        if prog.callee_key(c) == VV + "::join":
            a0 = arg_expr(body, t, 0)
            a1 = arg_expr(body, t, 1)
            f0 = mentions_field(a0, T, "causality")
            f1 = mentions_field(a1, T, "causality")
            if f0 and f1 and canon(f0) != canon(f1):
                # when the whole unpark operation is one function, the self-unpark path needs no edge: the join must precede
                # every wake-up of *another* thread
                others = [b2 for (b2, t2, c2) in prog.sites(inst) if prog.callee_key(c2) == T + "::set_unparked"
                          and not mentions_call(arg_expr(body, t2, 0), "rt::thread::Set::active_mut")]
                dom = body.dominators()
                # ... or the only way round the join is the self-unpark (`id == active_id()`): joining a clock with itself is the
                # identity, so `if id != active { join }` is an unconditional edge
                def _other_thread(e):
                    if e[0] == "call" and (e[1].endswith("PartialEq::eq") or e[1].endswith("PartialEq::ne")) and len(e[2]) == 2 and \
                            any(mentions_call(x, "rt::thread::Set::active_id") is not None or mentions_field(x, "rt::thread::Set", "active") for x in e[2]) and \
                            any(strip(x)[0] == "param" for x in e[2]):
                        return e[1].endswith("::ne")
                    return None
                reached_, _ = PEval(body, assume_expr(_other_thread)).run(stop_blocks=[b])
                only_self = not any(body.term(rb)["k"] == "return" and rb != b for rb in reached_)
                if every_path_passes(body, [b]) or (others and all(b in dom[o] for o in others)) or only_self:
                    ctx.ok("Y1", fn_key, what + " (on every path that wakes another thread)", [site_str(prog, fn_key, b)])
                else:
                    ctx.bad("Y1", fn_key, "happens-before edge is conditional (%s): on some path of %s the clocks are not joined" % (what, fn_key),
                            site_str(prog, fn_key, b), detail="join-conditional")
                return
    ctx.bad("Y1", fn_key, "missing happens-before edge (%s): no `causality.join(&other.causality)` in %s" % (what, fn_key),
            fn.loc(), detail="join")


# ---- Y2: no other edges ----------------------------------------------------------------------

ALLOWED_CAUSALITY_JOIN = {
    # (the acquire half of Synchronize is recognised by what it joins - a Synchronize's happens_before - not by its name)
    "rt::thread::Thread::unpark", "rt::thread::Set::unpark", "rt::execution::Execution::new_thread",
    "rt::thread::Set::seq_cst_fence",
}
ALLOWED_CAUSALITY_MUT = {
    # (function, consumer of the &mut causality borrow)
    ("rt::thread::Set::active_causality_inc", VV + "::inc"),
    ("rt::execution::Execution::new_thread", "<rt::vv::VersionVec as std::ops::IndexMut<rt::thread::Id>>::index_mut"),
}


def Y2(ctx):
    """Thread.causality is modified only by the inventoried edges; Set::seq_cst stays effect-free."""
    prog = ctx.prog
    n = 0
    for w in prog.writers().get((T, "causality"), []):
        fk = enclosing_fn(w["fn"])
        if w["kind"] == "construct":
            if fk == "rt::thread::Thread::new":
                ctx.ok("Y2", fk, "initial clock", [site_str(prog, w["fn"], w["bb"])])
                n += 1
            else:
                ctx.bad("Y2", fk, "Thread constructed outside Thread::new", site_str(prog, w["fn"], w["bb"]))
            continue
        if w["kind"] == "assign" and is_reinit_write(prog, w, T, "causality", T + "::new"):
            ctx.ok("Y2", fk, "clock re-initialised between iterations (constructor value)", [site_str(prog, w["fn"], w["bb"])])
            n += 1
            continue
        if w["kind"] == "assign":
            ctx.bad("Y2", fk, "direct assignment into a thread's causality clock: an unlisted happens-before edge "
                    "(over-synchronisation hides races and weak outcomes)", site_str(prog, w["fn"], w["bb"]), detail="assign")
            continue
        cons = prog.borrow_consumer(w["fn"], w["bb"], w["idx"])
        ck = None
        if cons:
            inst = prog.ident(w["fn"])
            ck = prog.callee_key(prog.insts[inst].calls.get(cons[0], {})) if inst is not None else callee_path(cons[1])
            if cons[2] != 0:
                ck = None if ck is None else ck + "#arg%d" % cons[2]
        n += 1
        ctx.touch(w["fn"], 1)
        if ck == VV + "::join":
            src_ok = False
            if prog.fns[w["fn"]].j.get("impl_adt") == SYNC and cons:
                src_ok = mentions_field(arg_expr(prog.fns[w["fn"]].body, cons[1], 1), SYNC, "happens_before") is not None
            if fk == "rt::thread::Set::unpark" and cons:
                # the unpark edge written in place: only the unparker's own clock may be the source
                src_ok = mentions_field(arg_expr(prog.fns[w["fn"]].body, cons[1], 1), T, "causality") is not None
                allowed_here = src_ok
            elif fk == "rt::park" and cons:
                # the acquire half of the unpark edge: only the clock the unpark operation deposited may be the source
                from . import round6
                uc = round6.unpark_clock_field(prog)
                allowed_here = uc is not None and mentions_field(deep(prog, w["fn"], arg_expr(prog.fns[w["fn"]].body, cons[1], 1)), T, uc[0]) is not None
            else:
                allowed_here = fk in ALLOWED_CAUSALITY_JOIN or src_ok
            if allowed_here:
                ctx.ok("Y2", fk, "inventoried join into causality", [site_str(prog, w["fn"], w["bb"])])
            else:
                ctx.bad("Y2", fk, "an extra happens-before edge: %s joins a clock into a thread's causality outside the "
                        "inventoried synchronisation points" % fk, site_str(prog, w["fn"], w["bb"]), detail="join")
        elif (fk, ck) in ALLOWED_CAUSALITY_MUT:
            ctx.ok("Y2", fk, "own-component increment", [site_str(prog, w["fn"], w["bb"])])
        else:
            ctx.bad("Y2", fk, "Thread.causality is mutably borrowed by %s and handed to %s: not an inventoried edge" % (fk, ck),
                    site_str(prog, w["fn"], w["bb"]), detail="mut:%s" % (ck or "?"))
    ctx.floor("Y2", n, 7, "4 joins + 2 increments (+constructor)")
    # the release-fence view `released` is written only by release fences (and initialised empty)
    nrel = 0
    for w in prog.writers().get((T, "released"), []):
        fk = enclosing_fn(w["fn"])
        nrel += 1
        if (w["kind"] == "construct" and fk == "rt::thread::Thread::new") or (w["kind"] == "assign" and fk == "rt::atomic::fence_rel") or \
                is_reinit_write(prog, w, T, "released", T + "::new"):
            ctx.ok("Y2", fk + ":released", "release-fence view written by %s" % fk.split("::")[-1], [site_str(prog, w["fn"], w["bb"])])
        else:
            ctx.bad("Y2", fk, "the release-fence view `Thread.released` is modified by %s (%s): stores of this thread then publish causality no "
                    "release fence of the thread captured (over-synchronisation)" % (fk, w["kind"]), site_str(prog, w["fn"], w["bb"]), detail="released")
    ctx.floor("Y2-released", nrel, 2, "Thread::new, fence_rel")
    # spawn ticks both clocks (parent and child), so that the first access of either is ordered against the other
    nfn = prog.fn("rt::execution::Execution::new_thread")
    if nfn is not None:
        inst = prog.ident(nfn.key)
        recv = set()
        for (b, t, c) in prog.sites(inst):
            if "IndexMut" in prog.callee_key(c) and mentions_field(arg_expr(nfn.body, t, 0), T, "causality"):
                recv.add((canon(strip(arg_expr(nfn.body, t, 0))), canon(strip(arg_expr(nfn.body, t, 1)))))
        if len(recv) == 2 and len({r for r, _ in recv}) == 2 and len({i for _, i in recv}) == 2:
            ctx.ok("Y2", nfn.key + ":tick", "parent and child each advance their own clock component at spawn", [nfn.loc()])
        else:
            ctx.bad("Y2", nfn.key, "spawn must advance both the parent's and the child's own clock component (found %s): otherwise an access "
                    "right after spawn carries the version the other thread inherited and is treated as ordered" % sorted(recv), nfn.loc(), detail="tick")
    # seq_cst is a documented no-op
    fn = need_fn(ctx, "Y2", "rt::thread::Set::seq_cst")
    if fn is not None:
        body = fn.body
        calls = [b for b in range(body.n) if body.term(b)["k"] == "call"]
        writes = [s for blk in body.blocks for s in blk["stmts"] if s["k"] == "=" and s["lhs"]["p"]]
        if calls or writes:
            ctx.bad("Y2", "rt::thread::Set::seq_cst", "Set::seq_cst gained an effect: SeqCst accesses are documented to behave as "
                    "acquire/release only", fn.loc(), detail="seq_cst")
        else:
            ctx.ok("Y2", "rt::thread::Set::seq_cst", "effect-free", [fn.loc()])


# ---- Y3 / Y4: ordering tables ---------------------------------------------------------------------

def _table_matcher(prog, i, b, t, c):
    """Effects, classified by what is joined into what (independent of helper names):
    acq = thread.causality <- sync.happens_before; rel = sync.happens_before <- thread.causality;
    relfence = sync.happens_before <- thread.released."""
    key = prog.callee_key(c)
    if key == VV + "::join":
        body = prog.body_of(i)
        a0 = arg_expr(body, t, 0)
        a1 = arg_expr(body, t, 1)
        if mentions_field(a0, T, "causality") and mentions_field(a1, SYNC, "happens_before"):
            return ["acq"]
        if mentions_field(a0, SYNC, "happens_before") and mentions_field(a1, T, "causality"):
            return ["rel"]
        if mentions_field(a0, SYNC, "happens_before") and mentions_field(a1, T, "released"):
            return ["relfence"]
        return ["join?"]
    short = {"rt::thread::Set::seq_cst": "seq_cst", "rt::atomic::fence_acq": "fence_acq", "rt::atomic::fence_rel": "fence_rel",
             "rt::thread::Set::seq_cst_fence": "seq_cst_fence"}
    return [short[key]] if key in short else []


def Y3(ctx):
    """Ordering tables of Synchronize::sync_load / sync_store by partial evaluation per Ordering variant: acquire effect iff >= Acquire, release effect iff >= Release, release-fence view always, seq_cst hook iff SeqCst."""
    prog = ctx.prog
    want = {
        SYNC + "::sync_load": {"Relaxed": set(), "Release": set(), "Acquire": {"acq"}, "AcqRel": {"acq"},
                               "SeqCst": {"acq", "seq_cst"}},
        SYNC + "::sync_store": {"Relaxed": {"relfence"}, "Acquire": {"relfence"}, "Release": {"relfence", "rel"},
                                "AcqRel": {"relfence", "rel"}, "SeqCst": {"relfence", "rel", "seq_cst"}},
    }
    for fn_key, tab in want.items():
        root = prog.ident(fn_key)
        if root is None:
            ctx.missing("Y3", fn_key)
            continue
        ea = EventAnalysis(prog, _table_matcher, stop=lambda i: not prog.insts[i].key.startswith("rt::synchronize::")).solve([root])
        ctx.touch(fn_key, 5)
        got = dispatch_table(prog, root, param_name(prog.fns[fn_key], ORD_TY), ea, ORDERINGS)
        if got is None:
            ctx.missing("Y3", fn_key, "no dispatch on `order`")
            continue
        for name, exp in tab.items():
            evs, returns = got[name]
            if set(evs) == exp and returns:
                ctx.ok("Y3", "%s[%s]" % (fn_key.split("::")[-1], name), "-> {%s}" % ", ".join(sorted(exp)), [prog.fns[fn_key].loc()])
            else:
                more = set(evs) - exp
                less = exp - set(evs)
                ctx.bad("Y3", fn_key, "ordering table of %s is wrong for %s: performs {%s}, C11 requires {%s}%s" %
                        (fn_key.split("::")[-1], name, ", ".join(sorted(evs)), ", ".join(sorted(exp)),
                         "" if returns else " (and does not return)") +
                        (" - treats a weaker ordering as a stronger one" if more else " - drops a required synchronisation"),
                        prog.fns[fn_key].loc(), detail=name)


def Y4(ctx):
    """Fence table: Acquire->fence_acq, Release->fence_rel, AcqRel->both, SeqCst->both + global SC clock (joined both ways), Relaxed panics; fence_rel snapshots causality into `released`."""
    prog = ctx.prog
    fn_key = "rt::atomic::fence::{closure#0}"
    root = prog.ident(fn_key)
    if root is None:
        ctx.missing("Y4", fn_key)
        return
    ea = EventAnalysis(prog, _table_matcher).solve([root])
    ups = prog.fns[fn_key].j.get("upvars") or ["ordering"]
    got = dispatch_table(prog, root, ups[0], ea, ORDERINGS)
    if got is None:
        ctx.missing("Y4", fn_key, "no dispatch on the fence ordering")
        return
    ctx.touch(fn_key, 5)
    want = {"Acquire": {"fence_acq"}, "Release": {"fence_rel"}, "AcqRel": {"fence_acq", "fence_rel"},
            "SeqCst": {"fence_acq", "fence_rel", "seq_cst_fence"}}
    for name, exp in want.items():
        evs, returns = got[name]
        evs = {e for e in evs if e in ("fence_acq", "fence_rel", "seq_cst_fence")}
        if evs == exp and returns:
            ctx.ok("Y4", "fence[%s]" % name, "-> {%s}" % ", ".join(sorted(exp)), [prog.fns[fn_key].loc()])
        else:
            ctx.bad("Y4", "rt::atomic::fence", "fence(%s) performs {%s}, C11 requires {%s}" %
                    (name, ", ".join(sorted(evs)), ", ".join(sorted(exp))), prog.fns[fn_key].loc(), detail=name)
    evs, returns = got["Relaxed"]
    if returns:
        ctx.bad("Y4", "rt::atomic::fence", "fence(Relaxed) must panic (std does)", prog.fns[fn_key].loc(), detail="Relaxed")
    else:
        ctx.ok("Y4", "fence[Relaxed]", "diverges", [prog.fns[fn_key].loc()])
    # a SeqCst fence first acquires/releases, then joins the global SC clock (what the fence acquires must be published)
    fs = prog.ident("rt::atomic::fence_seqcst")
    if fs is not None and not prog.fns["rt::atomic::fence_seqcst"].j.get("stub"):
        ea2 = EventAnalysis(prog, _table_matcher).solve([fs])
        where = "rt::atomic::fence_seqcst"
    else:
        # the SeqCst arm written in place (or the helper flattened): the fence closure restricted to ordering == SeqCst
        fs = root
        ea2 = EventAnalysis(prog, _table_matcher, assume=assume_discr(ups[0], 4)).solve([fs])
        where = fn_key
    m2 = ea2.must_of(fs)
    if m2 is not TOP and {"fence_acq", "fence_rel", "seq_cst_fence"} <= set(m2) and not ea2.must_before(fs, "fence_acq", "seq_cst_fence"):
        ctx.ok("Y4", "fence_seqcst:order", "the acquire part precedes the join with the global SC clock", [prog.fns[where].loc()])
    else:
        ctx.bad("Y4", "rt::atomic::fence_seqcst", "a SeqCst fence must acquire before it joins the global SC clock: otherwise what the "
                "fence acquires never reaches later SC fences of other threads", prog.fns[where].loc(), detail="order")
    # ... and its release snapshot is taken after that join: a relaxed store after the fence must also publish what the fence
    # obtained from the SC fences that precede it in the SC order (RC11 / C++20: fences X hb A, B hb Y with A read-before B order
    # X before Y; `x=1; F1; c=z` | `z=1; F2; y=1` | `a=y(acq); b=x` must not yield (c,a,b) = (0,1,0))
    if m2 is not TOP and {"fence_rel", "seq_cst_fence"} <= set(m2):
        if ea2.must_before(fs, "seq_cst_fence", "fence_rel"):
            ctx.bad("Y4", "rt::atomic::fence_seqcst", "a SeqCst fence takes its release snapshot (`released = causality`) before it has joined the "
                    "global SC clock: stores after the fence do not publish what the fence obtained from earlier SC fences, and an "
                    "execution RC11 forbids is produced", prog.fns[where].loc(), detail="sc-before-rel")
        else:
            ctx.ok("Y4", "fence_seqcst:sc-before-rel", "the release snapshot follows the join with the global SC clock", [prog.fns[where].loc()])
    # an AcqRel / SeqCst fence acquires first and takes its release snapshot afterwards: what the very same fence acquires must be
    # part of what later relaxed stores publish
    for (nm, val) in (("AcqRel", 3), ("SeqCst", 4)):
        ea3 = EventAnalysis(prog, _table_matcher, assume=assume_discr(ups[0], val)).solve([root])
        m3 = ea3.must_of(root)
        if m3 is TOP or not {"fence_acq", "fence_rel"} <= set(m3):
            continue        # the table check above reports a missing half
        if ea3.must_before(root, "fence_acq", "fence_rel"):
            ctx.bad("Y4", "rt::atomic::fence", "fence(%s) takes its release snapshot (`released = causality`) before it has acquired: the "
                    "clocks the fence itself acquires are missing from what later relaxed stores publish" % nm,
                    prog.fns[fn_key].loc(), detail="acq-before-rel-" + nm)
        else:
            ctx.ok("Y4", "fence[%s]:acq-before-rel" % nm, "acquire half precedes the release snapshot", [prog.fns[fn_key].loc()])
    # seq_cst_fence joins in both directions
    fn = need_fn(ctx, "Y4", "rt::thread::Set::seq_cst_fence")
    if fn is not None:
        inst = prog.ident(fn.key)
        d1 = d2 = False
        for (b, t, c) in prog.sites(inst):
            if prog.callee_key(c) == VV + "::join":
                a0 = arg_expr(fn.body, t, 0)
                a1 = arg_expr(fn.body, t, 1)
                if mentions_field(a0, T, "causality") and mentions_field(a1, SET, "seq_cst_causality"):
                    d1 = True
                if mentions_field(a0, SET, "seq_cst_causality") and mentions_field(a1, T, "causality"):
                    d2 = True
        if d1 and d2:
            ctx.ok("Y4", "seq_cst_fence", "thread <- global and global <- thread", [fn.loc()])
        else:
            ctx.bad("Y4", "rt::thread::Set::seq_cst_fence", "SeqCst fences must join the global SC clock in both directions "
                    "(thread<-global %s, global<-thread %s)" % (d1, d2), fn.loc(), detail="direction")
    # fence_rel records the release view
    fn = need_fn(ctx, "Y4", "rt::atomic::fence_rel")
    if fn is not None:
        ws = [w for w in prog.writers().get((T, "released"), []) if w["fn"] == fn.key and w["kind"] == "assign"]
        ok = False
        for w in ws:
            e = fn.body.expr_of_rvalue(w["stmt"]["rv"])
            if mentions_field(e, T, "causality"):
                ok = True
        if ok:
            ctx.ok("Y4", "fence_rel", "released = causality", [fn.loc()])
        else:
            ctx.bad("Y4", "rt::atomic::fence_rel", "release fence must snapshot the thread's causality into `released`", fn.loc(), detail="released")


def O4(ctx):
    """Thread-local vs causality-closed predicate: `FirstSeen::is_seen_by_current` (closed under the active thread's
    causality) may be used only for coherence / candidate selection; an acquire fence must select stores by the
    active thread's own reads."""
    prog = ctx.prog
    target = "rt::atomic::FirstSeen::is_seen_by_current"
    if need_fn(ctx, "O4", target) is None:
        return
    allowed = {"rt::atomic::State::store", "rt::atomic::State::apply_load_coherence", "rt::atomic::State::match_load_to_stores"}
    n = 0
    for s in call_sites(prog, target):
        fk = enclosing_fn(s["fn"])
        n += 1
        ctx.touch(s["fn"], 1)
        if fk in allowed:
            ctx.ok("O4", fk, "causality-closed predicate used for coherence", [site_str(prog, s["fn"], s["bb"])])
        elif fk == "rt::atomic::fence_acq":
            ctx.bad("O4", fk, "fence(Acquire) selects stores with the causality-closed predicate is_seen_by_current: it "
                    "synchronises with a store that only *another* thread read (over-synchronisation; C11 requires the "
                    "load to be sequenced before the fence in the same thread)", site_str(prog, s["fn"], s["bb"]))
        else:
            ctx.bad("O4", fk, "is_seen_by_current used outside coherence / candidate selection",
                    site_str(prog, s["fn"], s["bb"]))
    ctx.floor("O4", n, 3, "store, apply_load_coherence, match_load_to_stores")
    # fence_acq must select by a thread-local predicate on the store's FirstSeen record and synchronise with Acquire.
    # Decided on the guard of the synchronisation site, whether the predicate is a helper or written in place.
    fn = need_fn(ctx, "O4", "rt::atomic::fence_acq")
    if fn is not None:
        inst = prog.ident(fn.key)
        body = fn.body
        syncs = [(b, t) for (b, t, c) in prog.sites(inst) if prog.callee_key(c).startswith("rt::synchronize::Synchronize::")
                 or (prog.callee_key(c) == VV + "::join" and mentions_field(arg_expr(body, t, 0), T, "causality"))]
        if not syncs:
            ctx.missing("O4", "rt::atomic::fence_acq", "no synchronisation site in the acquire fence")
        for (b, t) in syncs:
            atoms = [(e, pol) for (e, pol, v, sb) in guard_atoms(body, b) if mentions_field(e, "rt::atomic::Store", "first_seen") is not None]
            if not atoms:
                ctx.bad("O4", "rt::atomic::fence_acq", "acquire fence no longer restricts itself to stores the thread has read",
                        site_str(prog, fn.key, b), detail="unfiltered")
                continue
            closed = []
            for (e, pol) in atoms:
                if mentions_field(e, T, "causality") is not None:
                    closed.append("reads Thread.causality")
                for ce in calls_in(e):
                    k = ce[1]
                    if k in (target, "rt::vv::VersionVec::versions"):
                        closed.append(k)
                    root = prog.ident(k) if k.startswith("rt::atomic::FirstSeen::") else None
                    if root is None:
                        continue
                    for i2 in prog.reach([root]):
                        if prog.insts[i2].key in ("rt::vv::VersionVec::versions", target):
                            closed.append(prog.insts[i2].key)
                        b2 = prog.body_of(i2)
                        for blk in b2.blocks:
                            for st in blk["stmts"]:
                                if st["k"] == "=" and st["rv"].get("place") and mentions_field(b2.expr_of_place(st["rv"]["place"]), T, "causality"):
                                    closed.append("%s reads Thread.causality" % prog.insts[i2].key)
            if closed:
                ctx.bad("O4", "rt::atomic::fence_acq", "the store filter of the acquire fence consults the thread's causality clock (%s): "
                        "not thread-local, it also selects stores read by other threads" % sorted(set(closed))[0], site_str(prog, fn.key, b),
                        detail="closed-predicate")
            else:
                ctx.ok("O4", "rt::atomic::fence_acq", "selects stores by a thread-local test of Store.first_seen", [site_str(prog, fn.key, b)])


def run_all(ctx, which):
    table = dict(Y2=Y2, Y3=Y3, Y4=Y4, O4=O4, O5=O5, Y1c=Y1c)
    for w in which:
        if w == "Y1":
            Y1(ctx)
        elif w.startswith("Y1:"):
            Y1(ctx, rows=set(w[3:].split(",")))
        else:
            table[w](ctx)
