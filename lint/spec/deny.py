"""Deny-list rules with positive controls (P1, Z2)."""
import os

from .. import facts
from .common import *

CONTROL_DIR = os.path.join(os.path.dirname(os.path.dirname(os.path.abspath(__file__))), "controls", "fixture")


def control_program():
    return facts.load("default", repo=CONTROL_DIR, crate="verif_control")


P1_DENY = {
    "std::panic::catch_unwind": "swallows a panic of the model",
    "std::panic::resume_unwind": "re-raises without the original payload/unwinding discipline",
    "std::process::abort": "aborts the test process instead of unwinding to the caller of model()",
    "std::process::exit": "ends the test process",
}

Z2_ITER = ("iter", "iter_mut", "values", "values_mut", "keys", "drain", "into_iter", "retain", "into_keys", "into_values")
Z2_TIME = {"std::time::Instant::now", "std::time::SystemTime::now"}


def is_hash_iteration(key):
    """Order-sensitive traversal of a randomly seeded std container."""
    if key.startswith("std::collections::HashMap::<") or key.startswith("std::collections::HashSet::<"):
        return key.rsplit("::", 1)[-1] in Z2_ITER
    if "std::collections::HashMap<" in key or "std::collections::HashSet<" in key or "std::collections::hash_map::" in key \
            or "std::collections::hash_set::" in key:
        return key.endswith("IntoIterator>::into_iter")
    return False


def find_denied_calls(prog, pred):
    out = []
    seen = set()
    for inst in prog.insts:
        body = prog.fns[inst.key].body
        for b, c in inst.calls.items():
            k = prog.callee_key(c)
            if pred(k) and (inst.key, b) not in seen:
                seen.add((inst.key, b))
                out.append((inst.key, b, k))
    return out


def hashmap_drops(prog):
    """Places where a HashMap/HashSet owning values with *user-defined* destructors (dyn / generic values) is destroyed.
    Maps whose values only have loom-internal, order-insensitive destructors are not reported."""
    out = []
    seen = set()
    for inst in prog.insts:
        for b, g in inst.drops.items():
            ty = g.get("ty", "")
            if ty.startswith("std::collections::HashMap<") or ty.startswith("std::collections::HashSet<"):
                if g["opaque"] and (inst.key, b) not in seen:
                    seen.add((inst.key, b))
                    out.append((inst.key, b, ty))
        for b, c in inst.calls.items():
            g = c.get("glue")
            if g and c.get("path") == "std::mem::drop":
                ty = g.get("ty", "")
                if (ty.startswith("std::collections::HashMap<") or ty.startswith("std::collections::HashSet<")) and \
                        g["opaque"] and (inst.key, b) not in seen:
                    seen.add((inst.key, b))
                    out.append((inst.key, b, ty))
    return out


def check_controls(ctx, rule, pred, expected_fns, kind="call"):
    """The matcher must find each expected construct in the control fixture."""
    cp = control_program()
    if kind == "call":
        hits = {enclosing_fn(k) for (k, b, callee) in find_denied_calls(cp, pred)}
    else:
        hits = {enclosing_fn(k) for (k, b, ty) in hashmap_drops(cp)}
    missing = [f for f in expected_fns if f not in hits]
    if missing:
        ctx.bad(rule, "control", "positive control failed: the matcher of rule %s no longer recognises %s in lint/controls/fixture "
                "(the deny-list would pass vacuously)" % (rule, missing), detail="control")
        return False
    ctx.ok(rule, "control", "matcher recognises %d control constructs" % len(expected_fns),
           ["lint/controls/fixture/src/lib.rs: %s" % ", ".join(sorted(expected_fns))])
    return True
