"""Rules about the atomic front-ends and rt::atomic (O1-O3 for C02, M1-M3 for C03, N1-N4 for C12)."""
import re

from .common import *
from .g_dpor import ATOMIC_OPS_BOOL, ATOMIC_OPS_INT, ATOMIC_OPS_PTR, INT_TYPES

L1 = "sync::atomic::atomic::Atomic::<T>::"
RT = "rt::atomic::Atomic::<T>::"
ST = "rt::atomic::State::"


def _calls(prog, fk, callee):
    inst = prog.ident(fk)
    out = []
    if inst is None:
        return out
    body = prog.fns[fk].body
    for (b, t, c) in prog.sites(inst):
        if prog.callee_key(c) == callee:
            out.append((b, t))
    # also inside the closures of fk (one level)
    for ck in prog.closures_of(fk):
        ci = prog.ident(ck)
        for (b, t, c) in prog.sites(ci):
            if prog.callee_key(c) == callee:
                out.append((("c", ck, b), t))
    return out


def _passes(ctx, rule, fk, callee, pairs):
    """pairs: [(arg index at callee, caller's parameter name)] - the Ordering reaches the callee unmodified."""
    prog = ctx.prog
    fn = prog.fn(fk)
    if fn is None:
        return None
    cs = _calls(prog, fk, callee)
    if not cs:
        ctx.bad(rule, fk, "%s no longer forwards to %s" % (fk, callee), fn.loc(), detail="forward")
        return False
    ok = True
    # the Ordering arguments are found by type, in declaration order (a callee that gained or lost an unrelated parameter keeps
    # its Ordering parameters in the same relative order)
    cfn = prog.fn(callee)
    if cfn is not None:
        ords = [l - 1 for l in range(1, cfn.body.arg_count + 1) if cfn.body.locals[l]["ty"].endswith("atomic::Ordering")]
        if len(ords) == len(pairs):
            pairs = [(ords[j], pn) for j, (ai_, pn) in enumerate(sorted(pairs))]
    for (b, t) in cs:
        body = prog.fns[b[1]].body if isinstance(b, tuple) else fn.body
        for (ai, pname) in pairs:
            if ai >= len(t["args"]):
                ok = False
                ctx.bad(rule, fk, "%s no longer hands an ordering to %s (argument %d)" % (fk, callee.split("::")[-1], ai), fn.loc(), detail="forward")
                continue
            got = ordering_ordinal(prog, b[1] if isinstance(b, tuple) else fk, body.expr_of_operand(t["args"][ai]))
            want = ("ord", ORD_POS[pname])
            if got != want:
                ok = False
                ctx.bad(rule, fk, "the Ordering handed to %s (argument %d) is %s, not the caller's %s ordering parameter: the user's ordering "
                        "is changed on the way to the runtime" % (callee.split("::")[-1], ai, got, pname),
                        site_str(prog, b[1] if isinstance(b, tuple) else fk, b[2] if isinstance(b, tuple) else b), detail=pname)
    ctx.touch(fk, len(cs))
    return ok


# which Ordering-typed parameter (in declaration order) each role name denotes
ORD_POS = {"order": 0, "ordering": 0, "success": 0, "failure": 1, "set_order": 0, "fetch_order": 1}

LAYER1 = [
    # (method, callee, [(arg, param)])
    ("load", RT + "load", [(2, "order")]),
    ("store", RT + "store", [(3, "order")]),
    ("rmw", L1 + "try_rmw", [(1, "order"), (2, "order")]),
    ("try_rmw", RT + "rmw", [(2, "success"), (3, "failure")]),
    ("swap", L1 + "rmw", [(2, "order")]),
    ("compare_exchange", L1 + "try_rmw", [(1, "success"), (2, "failure")]),
    ("compare_and_swap", L1 + "compare_exchange", [(3, "order")]),
    ("fetch_update", L1 + "load", [(1, "fetch_order")]),
    ("fetch_update", L1 + "compare_exchange", [(3, "set_order"), (4, "fetch_order")]),
]
LAYER3 = [
    (RT + "load", ST + "load", [(4, "ordering")]),
    (RT + "load", ST + "match_load_to_stores", [(3, "ordering")]),
    (RT + "store", ST + "store", [(4, "ordering")]),
    (RT + "rmw", ST + "rmw", [(4, "success"), (5, "failure")]),
]


def _front_rows():
    rows = []
    simple = {"load": ("load", [(1, "order")]), "store": ("store", [(2, "order")]), "swap": ("swap", [(2, "order")]),
              "compare_and_swap": ("compare_and_swap", [(3, "order")]),
              "compare_exchange": ("compare_exchange", [(3, "success"), (4, "failure")]),
              "fetch_update": ("fetch_update", [(1, "set_order"), (2, "fetch_order")])}
    for ty in INT_TYPES:
        base = "sync::atomic::int::%s::" % ty
        for op in ATOMIC_OPS_INT:
            if op in simple:
                rows.append((base + op, L1 + simple[op][0], simple[op][1]))
            elif op == "compare_exchange_weak":
                rows.append((base + op, base + "compare_exchange", [(3, "success"), (4, "failure")]))
            else:
                rows.append((base + op, L1 + "rmw", [(2, "order")]))
    base = "sync::atomic::bool::AtomicBool::"
    for op in ATOMIC_OPS_BOOL:
        if op in simple:
            rows.append((base + op, L1 + simple[op][0], simple[op][1]))
        elif op == "compare_exchange_weak":
            rows.append((base + op, base + "compare_exchange", [(3, "success"), (4, "failure")]))
        else:
            rows.append((base + op, L1 + "rmw", [(2, "order")]))
    base = "sync::atomic::ptr::AtomicPtr::<T>::"
    for op in ATOMIC_OPS_PTR:
        if op in simple:
            rows.append((base + op, L1 + simple[op][0], simple[op][1]))
        elif op == "compare_exchange_weak":
            rows.append((base + op, base + "compare_exchange", [(3, "success"), (4, "failure")]))
    return rows


ORD_SINKS = {RT + "load": [2], RT + "store": [3], RT + "rmw": [2, 3]}
ORD_ROLE = {"ordering": "order"}


def _ord_sinks(prog, fk, depth=0, memo=None):
    """Where the Ordering parameters of front-end function fk end up: list of (runtime sink, argument index, source) with source
    = ('ord', k) for fk's k-th Ordering parameter, followed through any number of forwarding layers inside sync::atomic
    (so adding or removing an intermediate helper does not matter), ('const', X) / ('expr', ..) for anything else."""
    memo = {} if memo is None else memo
    if fk in memo:
        return memo[fk]
    memo[fk] = []
    out = []
    bodies = [fk] + list(prog.closures_of(fk))
    for bk in bodies:
        inst = prog.ident(bk)
        if inst is None:
            continue
        body = prog.fns[bk].body
        for (b, t, c) in prog.sites(inst):
            ck = prog.callee_key(c)
            if ck in ORD_SINKS:
                for ai in ORD_SINKS[ck]:
                    out.append((ck, ai, ordering_ordinal(prog, bk, body.expr_of_operand(t["args"][ai])), (bk, b)))
            elif ck.startswith("sync::atomic::") and ck in prog.fns and prog.fns[ck].kind != "Closure" and depth < 6:
                cps = params_of_type(prog.fns[ck], ORD_TY)
                if not cps:
                    continue
                for (sink, ai, src, site) in _ord_sinks(prog, ck, depth + 1, memo):
                    if src[0] == "ord" and src[1] < len(cps) and cps[src[1]] - 1 < len(t["args"]):
                        src2 = ordering_ordinal(prog, bk, body.expr_of_operand(t["args"][cps[src[1]] - 1]))
                        out.append((sink, ai, src2, (bk, b)))
                    else:
                        out.append((sink, ai, src, site))
    memo[fk] = out
    return out


def _want_sinks(op):
    if op == "load":
        return {(RT + "load", 2, 0)}
    if op == "store":
        return {(RT + "store", 3, 0)}
    if op in ("compare_exchange", "compare_exchange_weak", "try_rmw"):
        return {(RT + "rmw", 2, 0), (RT + "rmw", 3, 1)}
    if op == "compare_and_swap":
        return {(RT + "rmw", 2, 0), (RT + "rmw", 3, "derived")}
    if op == "fetch_update":
        return {(RT + "load", 2, 1), (RT + "rmw", 2, 0), (RT + "rmw", 3, 1)}
    return {(RT + "rmw", 2, 0), (RT + "rmw", 3, 0)}       # swap, fetch_*, with_mut-free RMWs


def O1(ctx):
    """Ordering pass-through, end to end: for every public atomic operation (all integer types, AtomicBool, AtomicPtr, and
    the shared generic layer) each Ordering argument of the runtime entry points rt::atomic::Atomic::{load,store,rmw} is the
    caller's corresponding Ordering parameter, whatever forwarding layers lie between; plus the hops inside rt::atomic."""
    prog = ctx.prog
    n = 0
    rows = []
    for op in ("load", "store", "rmw", "swap", "compare_exchange", "compare_and_swap", "fetch_update", "try_rmw"):
        if op == "try_rmw" and prog.fn(L1 + op) is None:
            continue
        rows.append((L1 + op, op))
    for (fk, callee, pairs) in _front_rows():
        rows.append((fk, fk.split("::")[-1]))
    memo = {}
    for (fk, op) in rows:
        fn = prog.fn(fk)
        if fn is None:
            if "AtomicU64" in fk or "AtomicI64" in fk:
                continue
            ctx.missing("O1", fk)
            continue
        n += 1
        got = _ord_sinks(prog, fk, 0, memo)
        want = _want_sinks(op)
        ctx.touch(fk, len(got))
        if not got:
            ctx.bad("O1", fk, "%s no longer reaches the runtime atomic (rt::atomic::Atomic::load/store/rmw)" % fk, fn.loc(), detail="forward")
            continue
        seen = set()
        ok = True
        for (sink, ai, src, st) in got:
            k = src[1] if src[0] == "ord" else ("derived" if (op == "compare_and_swap" and ai == 3) else "%s:%s" % (src[0], src[1]))
            seen.add((sink, ai, k))
            if (sink, ai, k) not in want:
                ok = False
                # reported at the function that contains the offending expression (one finding, not one per front-end)
                where = enclosing_fn(st[0])
                wfn = prog.fns[where]
                pn = param_name(wfn, ORD_TY, 1 if (ai == 3 and len(params_of_type(wfn, ORD_TY)) > 1) else 0) or "order"
                ctx.bad("O1", where, "the Ordering handed to %s (argument %d) is %s, not the caller's ordering parameter: the user's ordering "
                        "is changed on the way to the runtime" % (sink.split("::")[-1], ai, k), site_str(prog, st[0], st[1]),
                        detail=ORD_ROLE.get(pn, pn))
        for w in sorted(want - seen, key=str):
            if any((w[0], w[1]) == (g[0], g[1]) for g in seen):
                continue            # already reported as a wrong source above
            ok = False
            ctx.bad("O1", fk, "%s no longer hands an ordering to %s (argument %d)" % (fk, w[0].split("::")[-1], w[1]), fn.loc(), detail="forward")
        if ok:
            ctx.ok("O1", fk, "orderings reach the runtime unmodified: %s" % sorted((s_.split("::")[-1], a, k) for (s_, a, k) in seen),
                   [site_str(prog, got[0][3][0], got[0][3][1])])
    for (fk, callee, pairs) in LAYER3:
        if need_fn(ctx, "O1", fk) is None:
            continue
        r = _passes(ctx, "O1", fk, callee, pairs)
        n += 1
        if r:
            ctx.ok("O1", "%s->%s" % (fk, callee.split("::")[-1]), "ordering forwarded unmodified", [prog.fns[fk].loc()])
    ctx.floor("O1", n, 150, "7 generic-layer + 4 runtime rows + 10x15 int + 11 bool + 7 ptr front-end methods")


def O2(ctx):
    """compare_and_swap derives the failure ordering as std documents it."""
    prog = ctx.prog
    fk = L1 + "compare_and_swap"
    fn = need_fn(ctx, "O2", fk)
    if fn is None:
        return
    body = fn.body
    cs = _calls(prog, fk, L1 + "compare_exchange")
    if not cs:
        ctx.missing("O2", fk, "no compare_exchange call")
        return
    b, t = cs[0]
    l = operand_local(t["args"][4])
    want = {"Relaxed": "Relaxed", "Release": "Relaxed", "Acquire": "Acquire", "AcqRel": "Acquire", "SeqCst": "SeqCst"}
    # follow copies back to the multiply-defined local
    e = body.expr_of_operand(t["args"][4])
    if e[0] != "phi":
        ctx.bad("O2", fk, "failure ordering of compare_and_swap is not a function of `order` (found %s)" % canon(e), fn.loc(), detail="shape")
        return
    l = e[1]
    for (val, name) in ORDERINGS:
        reached, _ = PEval(body, assume_discr(param_name(fn, ORD_TY), val)).run()
        got = set()
        for d in body.defs().get(l, []):
            if d[0] == "stmt" and d[1] in reached:
                de = body.expr_of_rvalue(d[3]["rv"])
                got.add(de[2] if de[0] == "agg" else canon(de))
        if got == {want[name]}:
            ctx.ok("O2", "compare_and_swap[%s]" % name, "failure = %s" % want[name], [site_str(prog, fk, b)])
        else:
            ctx.bad("O2", fk, "compare_and_swap(%s) uses failure ordering %s, std documents %s" % (name, sorted(got), want[name]),
                    site_str(prog, fk, b), detail=name)


def O3(ctx):
    """Loads / RMWs at a new decision seed the read-from branch with all candidates and use the branch's choice."""
    prog = ctx.prog
    rows = [(RT + "load::{closure#0}", ST + "match_load_to_stores", ST + "load"),
            (RT + "rmw::{closure#0}", ST + "match_rmw_to_stores", ST + "rmw")]
    for (ck, matcher, consumer) in rows:
        fn = need_fn(ctx, "O3", ck)
        if fn is None:
            continue
        body = fn.body
        inst = prog.ident(ck)
        sites = {prog.callee_key(c): (b, t) for (b, t, c) in prog.sites(inst)}
        pl = sites.get("rt::path::Path::push_load")
        bl = sites.get("rt::path::Path::branch_load")
        cons = sites.get(consumer)
        mt = sites.get(matcher)
        anchor = enclosing_fn(ck)
        if not (pl and bl and cons and mt):
            ctx.bad("O3", anchor, "read-from branching lost a step (push_load=%s branch_load=%s %s=%s %s=%s)" %
                    (bool(pl), bool(bl), matcher.split("::")[-1], bool(mt), consumer.split("::")[-1], bool(cons)), fn.loc(), detail="shape")
            continue
        ctx.touch(ck, 4)
        g1 = unreachable_if(body, pl[0], assume_calls({"rt::path::Path::is_traversed": False})) and \
            not unreachable_if(body, pl[0], assume_calls({"rt::path::Path::is_traversed": True}))
        seed = arg_expr(body, pl[1], 1)
        # the slice handed to push_load is exactly seed[..n] with n the matcher's result
        uses_n = False
        for x in subexprs(seed):
            if x[0] == "agg" and x[1] == "std::ops::RangeTo" and x[3]:
                end = strip(x[3][0])
                while end[0] == "field":
                    end = strip(end[1])         # `(buf, n) = matcher()`: a component of the matcher's result
                uses_n = end[0] == "call" and end[1] == matcher
        # the seed buffer handed to the matcher is the one sliced for push_load
        idx = strip(arg_expr(body, cons[1], 2))
        uses_branch = idx[0] == "call" and idx[1] == "rt::path::Path::branch_load"
        if g1 and uses_n and uses_branch:
            ctx.ok("O3", anchor, "push_load(&seed[..n]) iff is_traversed(), n = %s(), index = branch_load()" % matcher.split("::")[-1],
                   [site_str(prog, ck, pl[0]), site_str(prog, ck, cons[0])])
        else:
            ctx.bad("O3", anchor, "read-from branching broken: seeded only at a new decision=%s, seeded with all n candidates=%s, "
                    "consumes branch_load()=%s" % (g1, uses_n, uses_branch), site_str(prog, ck, pl[0]), detail="wiring")


# ---------------------------------------------------------------------------------------- C03

def M1(ctx):
    """Coherence bookkeeping steps of State::load/rmw/store present on every path and in order."""
    prog = ctx.prog
    ev = {"track_load": ST + "track_load", "coherence": ST + "apply_load_coherence", "touch": first_seen_recorders(prog),
          "sync_load": "rt::synchronize::Synchronize::sync_load", "sync_store": "rt::synchronize::Synchronize::sync_store",
          "user_f": "std::ops::FnOnce::call_once", "store": ST + "store"}
    for fk, steps in ((ST + "load", ["track_load", "coherence", "touch", "sync_load"]),
                      (ST + "rmw", ["track_load", "coherence", "touch", "user_f"])):
        root = prog.ident(fk)
        if root is None:
            ctx.missing("M1", fk)
            continue
        ea = EventAnalysis(prog, path_matcher(ev), stop=lambda i: prog.insts[i].key != fk).solve([root])
        m = ea.must_of(root)
        miss = [s for s in steps if m is not TOP and s not in m]
        bad = [(a, b) for a, b in zip(steps, steps[1:]) if ea.must_before(root, a, b)]
        ctx.touch(fk, len(steps))
        if miss or bad:
            ctx.bad("M1", fk, "coherence bookkeeping of %s incomplete/out of order: missing %s, misordered %s" % (fk.split("::")[-1], miss, bad),
                    prog.fns[fk].loc())
        else:
            ctx.ok("M1", fk, " -> ".join(steps), [prog.fns[fk].loc()])
        # apply_load_coherence is applied to the store being read
        fn = prog.fns[fk]
        for (b, t, c) in prog.sites(root):
            if prog.callee_key(c) == ST + "apply_load_coherence":
                a = strip(arg_expr(fn.body, t, 2))
                if a[0] == "param" and a[1] == 3:
                    ctx.ok("M1", fk + ":coherence-index", "coherence applied to the store being read", [site_str(prog, fk, b)])
                else:
                    ctx.bad("M1", fk, "apply_load_coherence is not applied to the store being read (%s)" % canon(a), site_str(prog, fk, b), detail="index")
    # State::store
    fk = ST + "store"
    fn = need_fn(ctx, "M1", fk)
    if fn is None:
        return
    body = fn.body
    inst = prog.ident(fk)
    joins = []
    for (b, t, c) in prog.sites(inst):
        if prog.callee_key(c) == "rt::vv::VersionVec::join":
            a1 = arg_expr(body, t, 1)
            if mentions_field(a1, "rt::atomic::Store", "modification_order"):
                guarded = unreachable_if(body, b, assume_calls({"rt::atomic::FirstSeen::is_seen_by_current": False})) and \
                    not unreachable_if(body, b, assume_calls({"rt::atomic::FirstSeen::is_seen_by_current": True}))
                joins.append((b, guarded))
    if joins and all(g for _, g in joins):
        ctx.ok("M1", fk + ":rw-coherence", "joins modification_order of every store seen by the current causality", [site_str(prog, fk, joins[0][0])])
    else:
        ctx.bad("M1", fk, "READ-WRITE coherence step missing in State::store (join of seen stores' modification order)", fn.loc(), detail="rw")
    # the new Store record
    ok_ctor = False
    for w in prog.writers().get(("rt::atomic::Store", "modification_order"), []):
        if w["fn"] == fk and w["kind"] == "construct":
            e = body.expr_of_operand(w["op"])
            srcs = set()
            for x in subexprs(e):
                if x[0] == "phi":
                    for d in body.defs().get(x[1], []):
                        if d[0] == "stmt" and d[3]["k"] == "=":
                            srcs.add(canon(body.expr_of_rvalue(d[3]["rv"])))
            if any("causality" in s for s in srcs) or mentions_field(e, T, "causality"):
                ok_ctor = True
    if ok_ctor:
        ctx.ok("M1", fk + ":ww-coherence", "modification_order initialised from the storing thread's causality", [fn.loc()])
    else:
        ctx.bad("M1", fk, "WRITE-WRITE coherence: the new store's modification_order is not initialised from the thread's causality", fn.loc(), detail="ww")
    ea = EventAnalysis(prog, path_matcher(ev), stop=lambda i: prog.insts[i].key != fk).solve([inst])
    m = ea.must_of(inst)
    if m is not TOP and {"sync_store", "touch"} <= set(m):
        ctx.ok("M1", fk + ":sync", "sync_store and first_seen.touch on every path", [fn.loc()])
    else:
        ctx.bad("M1", fk, "State::store must sync_store and touch first_seen on every path", fn.loc(), detail="sync")
    # cnt advances by one per store
    cw = [w for w in prog.writers().get(("rt::atomic::State", "cnt"), []) if w["kind"] == "assign"]
    if len(cw) == 1 and cw[0]["fn"] == fk and "Add" in canon(body.expr_of_rvalue(cw[0]["stmt"]["rv"])):
        ctx.ok("M1", fk + ":cnt", "cnt += 1 only in State::store", [site_str(prog, fk, cw[0]["bb"])])
    else:
        ctx.bad("M1", "rt::atomic::State.cnt", "store counter must be advanced exactly by State::store", detail="cnt")


def M2(ctx):
    """RMWs read only mo-maximal stores, inherit the read store's sync (release sequence), store exactly once on Ok and return the previous value."""
    prog = ctx.prog
    # RMW candidates come from match_rmw_to_stores
    ck = RT + "rmw::{closure#0}"
    fn = need_fn(ctx, "M2", ck)
    if fn is not None:
        inst = prog.ident(ck)
        keys = {prog.callee_key(c) for (b, t, c) in prog.sites(inst)}
        if ST + "match_rmw_to_stores" in keys and ST + "match_load_to_stores" not in keys:
            ctx.ok("M2", RT + "rmw", "RMW reads only mo-maximal stores (match_rmw_to_stores)", [fn.loc()])
        else:
            ctx.bad("M2", RT + "rmw", "an RMW must choose its read among the mo-maximal stores (match_rmw_to_stores), not among all "
                    "load candidates: otherwise updates are lost", fn.loc(), detail="candidates")
    ck = RT + "load::{closure#0}"
    fn = need_fn(ctx, "M2", ck)
    if fn is not None:
        inst = prog.ident(ck)
        keys = {prog.callee_key(c) for (b, t, c) in prog.sites(inst)}
        if ST + "match_load_to_stores" in keys:
            ctx.ok("M2", RT + "load", "loads use match_load_to_stores", [fn.loc()])
        else:
            ctx.bad("M2", RT + "load", "loads must draw candidates from match_load_to_stores", fn.loc(), detail="candidates")
    # release-sequence inheritance
    fk = ST + "rmw"
    fn = need_fn(ctx, "M2", fk)
    if fn is None:
        return
    inst = prog.ident(fk)
    st = [(b, t) for (b, t, c) in prog.sites(inst) if prog.callee_key(c) == ST + "store"]
    if len(st) == 1:
        b, t = st[0]
        a = arg_expr(fn.body, t, 2)
        f = mentions_field(a, "rt::atomic::Store", "sync")
        idx_ok = f is not None and (fn.body.local_name(3) or "index") in canon(f)
        val = strip(arg_expr(fn.body, t, 3))
        val_ok = "Ok" in canon(val)
        if idx_ok and val_ok:
            ctx.ok("M2", fk + ":release-sequence", "store(sync of the store read, next value from the closure's Ok)", [site_str(prog, fk, b)])
        else:
            ctx.bad("M2", fk, "the RMW's store must inherit the `sync` of the store it read (release sequence) and write the closure's Ok value "
                    "(sync=%s value=%s)" % (canon(a)[:60], canon(val)[:60]), site_str(prog, fk, b), detail="release-sequence")
    else:
        ctx.bad("M2", fk, "State::rmw must perform exactly one store (found %d)" % len(st), fn.loc(), detail="one-store")
    # return value: Ok(prev) where prev is the value of the store read
    okret = False
    for b, blk in enumerate(fn.body.blocks):
        for s in blk["stmts"]:
            if s["k"] == "=" and s["lhs"]["l"] == 0 and s["rv"]["k"] == "agg" and s["rv"].get("variant") == "Ok":
                e = fn.body.expr_of_rvalue(s["rv"])
                if mentions_field(e, "rt::atomic::Store", "value") and (fn.body.local_name(3) or "index") in canon(e):
                    okret = True
    if okret:
        ctx.ok("M2", fk + ":returns-prev", "Ok(previous value of the store read)", [fn.loc()])
    else:
        ctx.bad("M2", fk, "State::rmw must return Ok(prev) with prev = stores[index].value", fn.loc(), detail="prev")


def M4(ctx):
    """FirstSeen is write-once per thread: touch() records a version only if the thread has none yet."""
    prog = ctx.prog
    rec = sorted(first_seen_recorders(prog))
    if len(rec) != 1:
        ctx.bad("M4", "rt::atomic::FirstSeen", "expected exactly one method recording first observations, found %s" % rec, detail="recorders")
        return
    fk = rec[0]
    fn = need_fn(ctx, "M4", fk)
    if fn is None:
        return
    body = fn.body
    writes = []
    for b, blk in enumerate(body.blocks):
        if blk["cleanup"]:
            continue
        for s in blk["stmts"]:
            # a store into the per-thread array, directly (`self.0[i] = v`) or through a reference to the slot (`*slot = v`)
            if s["k"] == "=" and s["lhs"]["p"] and mentions_field(body.expr_of_place(s["lhs"]), "rt::atomic::FirstSeen", "0") is not None:
                writes.append(b)
    ok = bool(writes)
    for b in writes:
        g = [(e, pol) for (e, pol, v, sb) in guard_atoms(body, b)]
        if not any(e[0] == "binop" and e[1] == "Eq" and mentions_field(e[2], "rt::atomic::FirstSeen", "0") and pol is True and
                   ("65535" in canon(e[3]) or "MAX" in canon(e[3]) or "max_value" in canon(e[3])) for (e, pol) in g):
            ok = False
    if ok:
        ctx.ok("M4", fk, "records the version only while the slot still holds the `unseen` marker (first observation wins)", [site_str(prog, fk, writes[0])])
    else:
        ctx.bad("M4", "rt::atomic::FirstSeen::touch", "FirstSeen::touch overwrites an already recorded first-seen version: a re-read moves the observation forward and "
                "coherence edges of threads that synchronised with the earlier state are lost", fn.loc())


def _is_mo_lt(prog, e, depth=0):
    """e is `mo_a < mo_b` on two modification_order clocks: a direct PartialOrd::lt call, or a local helper that returns exactly that."""
    e = strip(e)
    if e[0] != "call":
        return False
    if e[1].endswith("PartialOrd::lt"):
        return True
    if depth < 2 and e[1] in prog.fns:
        r = strip(prog.fns[e[1]].body.expr_of_local(0))
        return r[0] == "call" and r[1].endswith("PartialOrd::lt") and all(strip(a)[0] == "param" for a in r[2])
    return False


def M5(ctx):
    """Candidate selection orders stores only by the partial order of their modification_order clocks: every pruning decision in
    match_load_to_stores / match_rmw_to_stores is under `mo_i < mo_j` (VersionVec's PartialOrd), never under another ordering."""
    prog = ctx.prog
    for fk in (ST + "match_load_to_stores", ST + "match_rmw_to_stores"):
        fn = need_fn(ctx, "M5", fk)
        if fn is None:
            continue
        body = fn.body
        inst = prog.ident(fk)
        # the candidate is recorded by `dst[n] = i`; a pruning path is one that skips it for an (i, j) pair: find switches whose
        # operand compares modification orders
        cmps = []
        for b in range(body.n):
            t = body.term(b)
            if t["k"] == "switch":
                e = body.expr_of_operand(t["op"])
                if e[0] == "call" and "modification_order" in canon(e) and not e[1].endswith("PartialEq::ne") and not e[1].endswith("PartialEq::eq"):
                    cmps.append((b, e))
        good = [b for (b, e) in cmps if _is_mo_lt(prog, e)]
        other = [(b, e) for (b, e) in cmps if not _is_mo_lt(prog, e)]
        if good and not other:
            ctx.ok("M5", fk, "stores are ordered by `modification_order` under VersionVec's partial order only", [site_str(prog, fk, good[0])])
        else:
            ctx.bad("M5", fk, "candidate stores are ordered by something other than the partial order of their modification_order clocks "
                    "(%s): racing stores get a fixed order and allowed outcomes disappear" % [canon(e)[:60] for b, e in other][:2],
                    site_str(prog, fk, (other or cmps or [(0, None)])[0][0]))


def N5(ctx):
    """The infallible read-modify-write front-end (`Atomic::rmw`, behind swap and every fetch_*) always stores: the closure it
    hands to the fallible path returns `Ok(..)` on every path, whatever the new value is (an RMW that leaves the value unchanged
    is still a store in modification order and still releases)."""
    prog = ctx.prog
    fk = "sync::atomic::atomic::Atomic::<T>::rmw"
    fn = need_fn(ctx, "N5", fk)
    if fn is None:
        return
    seen = 0
    bad = None
    for ck in prog.closures_of(fk):
        cb = prog.fns[ck].body
        for d in cb.defs().get(0, []):
            if d[0] == "stmt" and d[3]["k"] == "=" and d[3]["rv"]["k"] == "agg" and "Result" in str(d[3]["rv"].get("adt")):
                seen += 1
                if d[3]["rv"].get("variant") != "Ok":
                    bad = site_str(prog, ck, d[1])
    ctx.touch(fk, seen)
    if bad:
        ctx.bad("N5", fk, "the infallible RMW front-end reports failure (`Err`) to the runtime on some path: that RMW performs no store, "
                "drops its release half and breaks the release sequence, although swap / fetch_* always store", bad, detail="always-stores")
    elif seen:
        ctx.ok("N5", fk, "the closure handed to try_rmw returns Ok(..) on every path", [fn.loc()])
    else:
        ctx.missing("N5", fk, "no Result-returning closure found in the infallible RMW front-end")


def R1(ctx, scopes=("rt::atomic::State::", "<rt::vv::VersionVec as ", "rt::vv::VersionVec::")):
    """Whole-container scans: a counting loop in the store-history / vector-clock code covers every element.  Each `a..b` range
    built there starts at 0 and ends at the container's `len()` or, for a constant, at the length of the array the function
    indexes.  (Loops written with iterators have no range and nothing to get wrong here.)"""
    prog = ctx.prog
    n = 0
    import re as _re
    for fk in sorted(prog.fns):
        if not any(fk.startswith(sc) for sc in scopes) or prog.fn(fk) is None:
            continue
        body = prog.fns[fk].body
        # lengths of the arrays this function indexes (from the evaluated field types `[T; N]`)
        arr = set()
        for blk in body.blocks:
            for st in blk["stmts"]:
                for pl in _places_of(st):
                    for i, pr in enumerate(pl["p"]):
                        if isinstance(pr, dict) and "idx" in pr and i > 0 and isinstance(pl["p"][i - 1], dict):
                            m = _re.match(r"^\[.*; (\d+)\]$", str(pl["p"][i - 1].get("ty", "")))
                            if m:
                                arr.add(int(m.group(1)))
        for b, blk in enumerate(body.blocks):
            if blk["cleanup"]:
                continue
            for st in blk["stmts"]:
                if not (st["k"] == "=" and st["rv"]["k"] == "agg" and st["rv"].get("adt") in ("std::ops::Range", "std::ops::RangeInclusive")):
                    continue
                ops = st["rv"]["ops"]
                if len(ops) < 2:
                    continue
                n += 1
                ctx.touch(fk, 1)
                s_ = strip(body.expr_of_operand(ops[0]))
                e_ = strip(body.expr_of_operand(ops[1]))
                why = None
                if not (s_[0] == "const" and s_[1].get("int") == 0):
                    why = "starts at `%s` instead of 0" % canon(s_)[:60]
                elif e_[0] == "const" and "int" in e_[1] and arr and any(e_[1]["int"] < a for a in arr):
                    why = "ends at %d although the array it indexes has %d elements" % (e_[1]["int"], max(arr))
                elif e_[0] in ("binop", "field") and any(x[0] == "binop" and x[1] in ("Sub", "SubWithOverflow", "Div", "Shr") for x in subexprs(e_)):
                    why = "ends at `%s`, short of the container's length" % canon(e_)[:60]
                if why:
                    ctx.bad("R1", fk, "a scan over the %s does not cover every element: its range %s; the elements left out are never "
                            "compared / joined" % ("vector clock" if "vv::" in fk else "store history", why), site_str(prog, fk, b), detail="partial-scan")
                else:
                    ctx.ok("R1", fk + ":bb%d" % b, "0..len", [site_str(prog, fk, b)])
    return n


def _places_of(st):
    out = []

    def walk(x):
        if isinstance(x, dict):
            if "l" in x and "p" in x and isinstance(x["p"], list):
                out.append(x)
            for v in x.values():
                walk(v)
        elif isinstance(x, list):
            for v in x:
                walk(v)
    walk(st)
    return out


def M5b(ctx):
    """An RMW may read *every* store that is maximal in modification order (racing stores are unordered, each can be the one the
    RMW follows): the number of candidates is counted per store, not fixed."""
    prog = ctx.prog
    fk = ST + "match_rmw_to_stores"
    fn = need_fn(ctx, "M5b", fk)
    if fn is None:
        return
    body = fn.body
    srcs = deep_sources(body, body.expr_of_local(0))
    counted = any(x[0] == "binop" and x[1] in ("Add", "AddWithOverflow") for x in srcs) or \
        any(x[0] == "field" and strip(x[1])[0] == "binop" and strip(x[1])[1] in ("Add", "AddWithOverflow") for x in srcs)
    consts = sorted({x[1].get("int") for x in srcs if x[0] == "const" and "int" in x[1]})
    nexts = [b for (b, t, c) in prog.sites(prog.ident(fk)) if callee_path(t) == "std::iter::Iterator::next"]
    if counted and len(nexts) >= 2:
        ctx.ok("M5b", fk, "one candidate per store without a modification-order-later store (count accumulated in the loop)", [fn.loc()])
    else:
        ctx.bad("M5b", fk, "match_rmw_to_stores no longer offers every maximal store (returned count from %s, %d loop(s)): with racing "
                "stores an RMW can only follow one of them and outcomes are lost" % (consts or "?", len(nexts)), fn.loc(), detail="single-candidate")


def M6(ctx):
    """Closed list of pruning reasons in match_load_to_stores: a candidate store i is dropped because of a modification-order-later
    store j only if (a) j has been seen by the current causality, (b) i was seen before the thread's last yield, or (c) the load and
    both stores are SeqCst.  With none of the three holding, the inner loop just continues with the next j."""
    prog = ctx.prog
    fk = ST + "match_load_to_stores"
    fn = need_fn(ctx, "M6", fk)
    if fn is None:
        return
    body = fn.body
    inst = prog.ident(fk)
    nexts = [b for (b, t, c) in prog.sites(inst) if callee_path(t) == "std::iter::Iterator::next"]
    dom = body.dominators()
    if len(nexts) != 2:
        ctx.missing("M6", fk, "expected the two nested candidate loops (found %d iterator steps)" % len(nexts))
        return
    outer, inner = sorted(nexts, key=lambda n: len(dom[n]))
    lts = []
    for b in range(body.n):
        t = body.term(b)
        if t["k"] == "switch" and _is_mo_lt(prog, body.expr_of_operand(t["op"])):
            lts.append((b, t))
    if len(lts) != 1:
        ctx.missing("M6", fk, "the `mo_i < mo_j` test was not found exactly once")
        return
    b, t = lts[0]
    tgt = list(switch_targets_for(t, True))[0]
    def which(e):
        """'i' / 'j': does a Store field expression index with the outer or the inner loop variable?"""
        for x in subexprs(e):
            if x[0] == "call" and x[1] == "std::iter::Iterator::next" and len(x) > 3:
                return "i" if x[3] == outer else ("j" if x[3] == inner else None)
        return None

    def sc_atom(e):
        """Which of the three SeqCst facts a boolean expression states: 'load', 'i', 'j' (store of the outer / inner loop) -
        whether a store records it as a flag (`store.seq_cst`) or as the ordering itself (`is_seq_cst(store.ordering)`)."""
        if is_field(e, "rt::atomic::Store", "seq_cst"):
            return which(e)
        if e[0] == "call" and e[1] == "rt::atomic::is_seq_cst" and e[2]:
            a0 = e[2][0]
            if any(x[0] == "field" and x[3] == "rt::atomic::Store" for x in subexprs(a0)):
                return which(a0)
            return "load"
        return None

    def sc_assume(load_sc, i_sc, j_sc, others=None):
        val = {"load": load_sc, "i": i_sc, "j": j_sc}

        def a(body_, b_, t_, e):
            pol = True
            while e[0] == "unop" and e[1] == "Not":
                e = e[2]
                pol = not pol
            w = sc_atom(e)
            if w is not None and val.get(w) is not None:
                return switch_targets_for(t_, val[w] == pol)
            vt = variant_test(e)
            if vt and vt[1] == "SeqCst":
                subj = vt[0]
                w = which(subj) if any(x[0] == "field" and x[3] == "rt::atomic::Store" for x in subexprs(subj)) else "load"
                if val.get(w) is not None:
                    return switch_targets_for(t_, ((val[w] == vt[2]) == pol))
            if e[0] == "discr" and e[2] == ORD_TY:
                # `matches!(x, SeqCst)` written in place (the predicate is flattened): x is the load's ordering or a store's
                subj = e[1]
                w = which(subj) if any(x[0] == "field" and x[3] == "rt::atomic::Store" for x in subexprs(subj)) else "load"
                if val.get(w) is not None:
                    names = dict((n_, v_) for (v_, n_) in (e[3] or []))
                    sc = names.get("SeqCst", 4)
                    hit = [tb for (v_, tb) in t_["targets"] if v_ == sc]
                    rest = [tb for (v_, tb) in t_["targets"] if v_ != sc] + [t_["otherwise"]]
                    if val[w]:
                        return set(hit) if hit else {t_["otherwise"]}
                    return set(rest) - set(hit) if hit else set(rest)
            return None
        comb = assume_all(a, assume_scenario(prog, others if others is not None else
                                             {"rt::atomic::FirstSeen::is_seen_by_current": False,
                                              "rt::atomic::FirstSeen::is_seen_before_yield": False}))

        def value_of(body_, b_, e):
            w = sc_atom(e)
            return val.get(w) if w is not None else None
        comb.value_of = value_of
        return comb
    # reason (c) is the conjunction load-is-SeqCst && store_i.seq_cst && store_j.seq_cst: with (a), (b) false, every one of the
    # seven assignments falsifying the conjunction must leave the candidate alone
    reached = set()
    for load_sc in (False, True):
        for i_sc in (False, True):
            for j_sc in (False, True):
                if load_sc and i_sc and j_sc:
                    continue
                r_, _ = PEval(body, sc_assume(load_sc, i_sc, j_sc)).run(start=tgt, stop_blocks={outer, inner})
                if outer in r_:
                    reached.add(outer)
                if inner in r_:
                    reached.add(inner)
    # each single reason alone must be able to prune (the three documented reasons are all present)
    reasons = {}
    for nm, table, sc in (("seen-by-current", {"rt::atomic::FirstSeen::is_seen_by_current": True}, None),
                          ("seen-before-yield", {"rt::atomic::FirstSeen::is_seen_by_current": False, "rt::atomic::FirstSeen::is_seen_before_yield": True}, None),
                          ("seq-cst", {"rt::atomic::FirstSeen::is_seen_by_current": False, "rt::atomic::FirstSeen::is_seen_before_yield": False}, True)):
        a = sc_assume(sc, sc, sc, others=table)
        r2, _ = PEval(body, a).run(start=tgt, stop_blocks={outer, inner})
        reasons[nm] = outer in r2
    if outer not in reached and inner in reached and all(reasons.values()):
        ctx.ok("M6", fk, "a candidate is pruned only for: newer store already seen / seen before the last yield / SeqCst load of SeqCst stores",
               [site_str(prog, fk, b)])
    else:
        ctx.bad("M6", fk, "candidate selection prunes a store for a reason outside the documented three (prunes with none holding: %s; "
                "documented reasons still effective: %s): allowed stale reads are no longer offered / forbidden ones are" %
                (outer in reached, reasons), site_str(prog, fk, b))


M3_ALLOWED = {
    ("rt::atomic::Store", "modification_order"): {ST + "store", ST + "apply_load_coherence", "<rt::atomic::Store as std::default::Default>::default"},
    ("rt::atomic::Store", "sync"): {ST + "store", ST + "load", ST + "rmw", "rt::atomic::fence_acq", "<rt::atomic::Store as std::default::Default>::default"},
    ("rt::atomic::Store", "first_seen"): {ST + "store", ST + "load", ST + "rmw", "<rt::atomic::Store as std::default::Default>::default"},
    ("rt::atomic::Store", "happens_before"): {ST + "store", "<rt::atomic::Store as std::default::Default>::default"},
    ("rt::atomic::Store", "value"): {ST + "store", "<rt::atomic::Store as std::default::Default>::default",
                                     "<rt::atomic::Atomic<T>::with_mut::Reset<T> as std::ops::Drop>::drop"},
    ("rt::atomic::State", "cnt"): {ST + "store", ST + "new"},
}


def M3(ctx):
    """Who-may-write on Store.{modification_order,sync,first_seen,happens_before,value} and State.cnt."""
    prog = ctx.prog
    n = 0
    for (adt, field), allowed in M3_ALLOWED.items():
        for w in prog.writers().get((adt, field), []):
            if w["kind"] == "borrow_mut" and not w["exact"]:
                continue
            fk = enclosing_fn(w["fn"])
            n += 1
            if fk in allowed:
                ctx.ok("M3", "%s.%s<-%s" % (adt.split("::")[-1], field, fk.split("::")[-1]), w["kind"], [site_str(prog, w["fn"], w["bb"])])
            else:
                ctx.bad("M3", fk, "%s.%s is modified by %s, outside the coherence bookkeeping %s" %
                        (adt, field, fk, sorted(x.split("::")[-1] for x in allowed)), site_str(prog, w["fn"], w["bb"]), detail=field)
    ctx.floor("M3", n, 14, "writers of Store.{modification_order,sync,first_seen,happens_before,value} and State.cnt")


# ---------------------------------------------------------------------------------------- C12

def N1(ctx):
    """The u64 carrier is lossless: every Numeric impl type fits in 8 bytes and converts by a single `as` cast
    (int<->int, ptr<->int) or, for bool, {false->0,true->1} / != 0."""
    prog = ctx.prog
    n = 0
    for im in prog.impls:
        if im.get("trait") != "rt::num::Numeric":
            continue
        ty = im["self_ty"]
        n += 1
        size = im.get("size")
        if size is None and ty.startswith("*mut"):
            size = 8
        if size is None or size > 8:
            ctx.bad("N1", "Numeric for " + ty, "type of size %s does not fit the u64 carrier" % size, "%s:%s" % (im["file"], im["line"]), detail="size")
            continue
        into = "<%s as rt::num::Numeric>::into_u64" % ty
        frm = "<%s as rt::num::Numeric>::from_u64" % ty
        fi, ff = prog.fn(into), prog.fn(frm)
        if fi is None or ff is None:
            ctx.missing("N1", into if fi is None else frm)
            continue
        ei = fi.body.expr_of_local(0)
        ef = ff.body.expr_of_local(0)
        ctx.touch(into)
        ctx.touch(frm)
        if ty == "bool":
            # into: phi of consts 1/0 selected by self; from: src != 0
            ok_from = ef[0] == "binop" and ef[1] == "Ne" and canon(ef[3]) == "0" and strip(ef[2])[0] == "param" and strip(ef[2])[1] == 1
            consts = {}
            for d in fi.body.defs().get(0, []):
                if d[0] == "stmt":
                    de = fi.body.expr_of_rvalue(d[3]["rv"])
                    g = [(canon(ge), pol) for (ge, pol, v, sb) in guard_atoms(fi.body, d[1])]
                    if de[0] == "const":
                        consts[de[1].get("int")] = g
            sn = fi.body.local_name(1) or "_1"
            ok_into = consts.get(1) == [(sn, True)] and consts.get(0) == [(sn, False)]
            # the same encoding spelled with the language's own bool -> integer conversion (`self as u64`, `u64::from(self)`)
            sei = strip(ei)
            if (sei[0] == "cast" and strip(sei[2])[0] == "param" and strip(sei[2])[1] == 1 and sei[4] == "u64") or \
                    (sei[0] == "call" and sei[1] in ("std::convert::From::from", "std::convert::Into::into") and len(sei[2]) == 1 and
                     strip(sei[2][0])[0] == "param" and strip(sei[2][0])[1] == 1):
                ok_into = True
            if ok_from and ok_into:
                ctx.ok("N1", "Numeric for bool", "false<->0, true<->1, decode by != 0", [fi.loc(), ff.loc()])
            else:
                ctx.bad("N1", "Numeric for bool", "bool encoding must be {false:0,true:1} and decoding `!= 0` (into=%s from=%s)" %
                        (consts, canon(ef)), fi.loc(), detail="bool")
            continue
        if ty == "u64":
            # `self as u64` on u64 is the identity: no cast appears in MIR
            if ei[0] == "param" and ei[1] == 1 and ef[0] == "param" and ef[1] == 1:
                ctx.ok("N1", "Numeric for u64", "identity", [fi.loc(), ff.loc()])
            else:
                ctx.bad("N1", "Numeric for u64", "u64 must be carried unchanged (into=%s, from=%s)" % (canon(ei), canon(ef)), fi.loc(), detail="cast")
            continue
        single_i = ei[0] == "cast" and strip(ei[2])[0] == "param" and strip(ei[2])[1] == 1 and ei[4] == "u64"
        single_f = ef[0] == "cast" and strip(ef[2])[0] == "param" and strip(ef[2])[1] == 1 and ef[3] == "u64"
        kinds_ok = (ei[1] in ("IntToInt", "PointerExposeProvenance")) and (ef[1] in ("IntToInt", "PointerWithExposedProvenance"))
        if single_i and single_f and kinds_ok:
            ctx.ok("N1", "Numeric for " + ty, "size %d <= 8, `self as u64` / `src as T`" % size, [fi.loc(), ff.loc()])
        else:
            ctx.bad("N1", "Numeric for " + ty, "conversion must be a single `as` cast both ways (into=%s, from=%s)" % (canon(ei), canon(ef)),
                    fi.loc(), detail="cast")
    ctx.floor("N1", n, 12, "10 integer types, *mut T, bool")


INT_PRIM = {"AtomicU8": "u8", "AtomicU16": "u16", "AtomicU32": "u32", "AtomicUsize": "usize", "AtomicI8": "i8", "AtomicI16": "i16",
            "AtomicI32": "i32", "AtomicIsize": "isize", "AtomicU64": "u64", "AtomicI64": "i64"}


def _closure_ret(prog, ck):
    fn = prog.fn(ck)
    if fn is None:
        return None, None
    return fn, strip(fn.body.expr_of_local(0))


def N2(ctx):
    """Operator table of the fetch_* closures, on the decoded T."""
    prog = ctx.prog
    n = 0
    for ty, prim in INT_PRIM.items():
        base = "sync::atomic::int::%s::" % ty
        if prog.fn(base + "fetch_add") is None:
            if prim in ("u64", "i64"):
                continue
            ctx.missing("N2", base + "fetch_add")
            continue
        want = {
            "fetch_add": ("call", "core::num::<impl %s>::wrapping_add" % prim),
            "fetch_sub": ("call", "core::num::<impl %s>::wrapping_sub" % prim),
            "fetch_and": ("binop", "BitAnd"), "fetch_or": ("binop", "BitOr"), "fetch_xor": ("binop", "BitXor"),
            "fetch_nand": ("nand", None),
            "fetch_max": ("callany", ("std::cmp::Ord::max", "<%s as std::cmp::Ord>::max" % prim, "core::cmp::impls::<impl std::cmp::Ord for %s>::max" % prim)),
            "fetch_min": ("callany", ("std::cmp::Ord::min", "<%s as std::cmp::Ord>::min" % prim, "core::cmp::impls::<impl std::cmp::Ord for %s>::min" % prim)),
        }
        for op, (kind, what) in want.items():
            ck = base + op + "::{closure#0}"
            fn, e = _closure_ret(prog, ck)
            if fn is None:
                ctx.missing("N2", ck)
                continue
            n += 1
            ctx.touch(ck)
            # the closure's parameter has the primitive type itself (signed compare for max/min)
            pty = fn.body.locals[2]["ty"] if len(fn.body.locals) > 2 else "?"
            VV_ = [fn.body.local_name(2) or "_2", (fn.j.get("upvars") or ["?"])[0]]      # [stored value, operand] by position
            ok = pty == prim
            args = None
            if kind == "call" and e[0] == "call" and e[1] == what:
                args = [canon(a) for a in e[2]]
            elif kind == "callany" and e[0] == "call" and (e[1] in what or e[1].endswith("::" + op.split("_")[1])):
                # resolved callee of the identity instance
                inst = prog.ident(ck)
                res = [prog.callee_key(c) for (b, t, c) in prog.sites(inst)]
                args = [canon(a) for a in e[2]] if any("Ord" in r and r.endswith(op.split("_")[1]) for r in res) else None
            elif kind == "binop" and e[0] == "binop" and e[1] == what:
                args = [canon(e[2]), canon(e[3])]
            elif kind == "nand" and e[0] == "unop" and e[1] == "Not" and e[2][0] == "binop" and e[2][1] == "BitAnd":
                args = [canon(e[2][2]), canon(e[2][3])]
            good = ok and args is not None and (args == VV_ or (op in ("fetch_and", "fetch_or", "fetch_xor", "fetch_nand", "fetch_add",
                                                                      "fetch_max", "fetch_min") and sorted(args) == sorted(VV_)))
            if good:
                ctx.ok("N2", base + op, "%s on %s" % (canon(e), prim), [fn.loc()])
            else:
                ctx.bad("N2", base + op, "%s of %s computes `%s` on %s (expected %s of (v, val) on %s%s)" %
                        (op, ty, canon(e), pty, what if kind != "nand" else "!(v & val)", prim,
                         "; operand order matters for sub" if op == "fetch_sub" else ""), fn.loc())
    base = "sync::atomic::bool::AtomicBool::"
    for op, what in (("fetch_and", "BitAnd"), ("fetch_or", "BitOr"), ("fetch_xor", "BitXor"), ("fetch_nand", None)):
        ck = base + op + "::{closure#0}"
        fn, e = _closure_ret(prog, ck)
        if fn is None:
            ctx.missing("N2", ck)
            continue
        n += 1
        args = None
        if what and e[0] == "binop" and e[1] == what:
            args = sorted([canon(e[2]), canon(e[3])])
        if what is None and e[0] == "unop" and e[1] == "Not" and e[2][0] == "binop" and e[2][1] == "BitAnd":
            args = sorted([canon(e[2][2]), canon(e[2][3])])
        if args == sorted([fn.body.local_name(2) or "_2", (fn.j.get("upvars") or ["?"])[0]]):
            ctx.ok("N2", base + op, canon(e), [fn.loc()])
        else:
            ctx.bad("N2", base + op, "%s of AtomicBool computes `%s`" % (op, canon(e)), fn.loc())
    # swap: |_| val
    ck = L1 + "swap::{closure#0}"
    fn, e = _closure_ret(prog, ck)
    if fn is not None:
        n += 1
        pf = prog.fns.get(L1 + "swap")
        if pf is not None and e[0] == "upvar" and e[2] == pf.body.local_name(2):
            ctx.ok("N2", L1 + "swap", "|_| val", [fn.loc()])
        else:
            ctx.bad("N2", L1 + "swap", "swap must store `val` (computes %s)" % canon(e), fn.loc())
    else:
        ctx.missing("N2", ck)
    ctx.floor("N2", n, 69, ">= 8 types x 8 ops + 4 bool + swap")


def N3(ctx):
    """compare_exchange / compare_and_swap / compare_exchange_weak / fetch_update shapes."""
    prog = ctx.prog
    # compare_exchange closure: Ok(new) iff actual == current else Err(actual)
    ck = L1 + "compare_exchange::{closure#0}"
    fn = need_fn(ctx, "N3", ck)
    if fn is not None:
        body = fn.body
        okb = errb = None
        for b, blk in enumerate(body.blocks):
            for s in blk["stmts"]:
                if s["k"] == "=" and s["lhs"]["l"] == 0 and s["rv"]["k"] == "agg":
                    e = body.expr_of_rvalue(s["rv"])
                    pf = prog.fns[L1 + "compare_exchange"]
                    cur_n, new_n, act_n = pf.body.local_name(2), pf.body.local_name(3), body.local_name(2)
                    if e[2] == "Ok" and canon(e[3][0]) == new_n:
                        okb = b
                    if e[2] == "Err" and canon(e[3][0]) == act_n:
                        errb = b
        eq = {"std::cmp::PartialEq::eq": False}
        good = okb is not None and errb is not None and unreachable_if(body, okb, assume_calls({"std::cmp::PartialEq::eq": False})) and \
            unreachable_if(body, errb, assume_calls({"std::cmp::PartialEq::eq": True}))
        cmpargs = None
        inst = prog.ident(ck)
        for (b, t, c) in prog.sites(inst):
            if callee_path(t).endswith("PartialEq::eq"):
                cmpargs = sorted([canon(arg_expr(body, t, 0)), canon(arg_expr(body, t, 1))])
        pf = prog.fns[L1 + "compare_exchange"]
        if good and cmpargs == sorted([body.local_name(2) or "", pf.body.local_name(2) or ""]):
            ctx.ok("N3", L1 + "compare_exchange", "Ok(new) iff actual == current, else Err(actual)", [fn.loc()])
        else:
            ctx.bad("N3", L1 + "compare_exchange", "compare_exchange closure must be `if actual == current { Ok(new) } else { Err(actual) }`", fn.loc())
    # compare_and_swap returns the previous value in both arms (checked via expression of _0: both Ok.0 and Err.0 of the CAS result)
    fk = L1 + "compare_and_swap"
    fn = need_fn(ctx, "N3", fk)
    if fn is not None:
        arms = set()
        for src in value_sources(fn.body, fn.body.expr_of_local(0)):
            arms.add(canon(strip(src)).split(" as ")[-1])
        if arms == {"Ok.0", "Err.0"}:
            ctx.ok("N3", fk, "returns the previous value on success and on failure", [fn.loc()])
        else:
            ctx.bad("N3", fk, "compare_and_swap must return the previous value in both arms (found %s)" % sorted(arms), fn.loc())
    # compare_exchange_weak == compare_exchange (argument order preserved)
    n = 0
    for base in ["sync::atomic::int::%s::" % t for t in INT_TYPES] + ["sync::atomic::bool::AtomicBool::", "sync::atomic::ptr::AtomicPtr::<T>::"]:
        for m, callee in (("compare_exchange_weak", base + "compare_exchange"), ("compare_exchange", L1 + "compare_exchange"),
                          ("compare_and_swap", L1 + "compare_and_swap")):
            fk = base + m
            fn = prog.fn(fk)
            if fn is None:
                continue
            cs = _calls(prog, fk, callee)
            n += 1
            if cs and [canon(strip(fn.body.expr_of_operand(a))) for a in cs[0][1]["args"][1:3]] == [fn.body.local_name(2), fn.body.local_name(3)]:
                ctx.ok("N3", fk, "forwards (current, new) in order", [fn.loc()])
            else:
                ctx.bad("N3", fk, "%s must forward (current, new) unchanged to %s" % (fk, callee), fn.loc())
    ctx.floor("N3", n, 30, "3 methods x >= 10 types")
    # fetch_update loop shape
    fk = L1 + "fetch_update"
    fn = need_fn(ctx, "N3", fk)
    if fn is not None:
        body = fn.body
        inst = prog.ident(fk)
        loads = _calls(prog, fk, L1 + "load")
        cas = _calls(prog, fk, L1 + "compare_exchange")
        okret = errret = False
        for b, blk in enumerate(body.blocks):
            for s in blk["stmts"]:
                if s["k"] == "=" and s["lhs"]["l"] == 0 and s["rv"]["k"] == "agg":
                    e = body.expr_of_rvalue(s["rv"])
                    if e[2] == "Ok" and "compare_exchange" in canon(e) and "Ok.0" in canon(e):
                        okret = True
                    if e[2] == "Err" and "prev" in canon(e):
                        errret = True
        cas_args_ok = False
        if cas:
            a = [canon(strip(body.expr_of_operand(x))) for x in cas[0][1]["args"][1:3]]
            cas_args_ok = "prev" in a[0] and ("Some" in a[1] or "next" in a[1])
            in_loop = any(cas[0][0] in body.reachable(s) for s in body.succs(cas[0][0]))
            cas_args_ok = cas_args_ok and in_loop
        # Err(prev) is returned exactly when the user function itself yields None: the guard of the Err return (and of the CAS) is
        # the discriminant of the *call result* of f, not of something derived from it (a filtered / compared value)
        direct = True
        for b, blk in enumerate(body.blocks):
            if blk["cleanup"]:
                continue
            is_err = any(s_["k"] == "=" and s_["lhs"]["l"] == 0 and s_["rv"]["k"] == "agg" and s_["rv"].get("variant") == "Err" for s_ in blk["stmts"])
            is_cas = body.term(b)["k"] == "call" and callee_path(body.term(b)) == L1 + "compare_exchange"
            if not (is_err or is_cas):
                continue
            ds = [(ge, v) for (ge, pol, v, sb) in guard_atoms(body, b) if ge[0] == "discr" and ge[2] == "std::option::Option"]
            if not ds or not all(strip(ge[1])[0] == "call" and strip(ge[1])[1].startswith("std::ops::Fn") for (ge, v) in ds):
                direct = False
            others = [canon(ge)[:60] for (ge, pol, v, sb) in guard_atoms(body, b) if ge[0] != "discr" and sb is not None and
                      not (ge[0] == "call" and "compare_exchange" in ge[1])]
            if others:
                direct = False
        if len(loads) == 1 and len(cas) == 1 and okret and errret and cas_args_ok and not direct:
            ctx.bad("N3", fk, "fetch_update decides between the CAS and `Err(prev)` by something other than whether the user function "
                    "returned Some/None (std: `Some(v)` is always attempted, also when v equals the current value)", fn.loc(), detail="none-only")
        elif len(loads) == 1 and len(cas) == 1 and okret and errret and cas_args_ok:
            ctx.ok("N3", fk, "load; loop { f(prev) -> CAS(prev, next) }; Ok(prev) on success, Err(prev) when f yields None", [fn.loc()])
        else:
            ctx.bad("N3", fk, "fetch_update lost its shape (loads=%d cas=%d Ok=%s Err=%s args=%s)" % (len(loads), len(cas), okret, errret, cas_args_ok), fn.loc())


def N4(ctx):
    """Decode-before / encode-after discipline of rt::Atomic; most-recent-store index for unsync_load/with_mut; with_mut writes back."""
    prog = ctx.prog
    # rmw: decode before / encode after the user closure
    ck = RT + "rmw::{closure#0}::{closure#0}"
    fn = need_fn(ctx, "N4", ck)
    if fn is not None:
        inst_ids = prog.by_def.get(ck, [])
        body = fn.body
        seq = []
        for (b, t, c) in prog.sites(prog.ident(ck)):
            seq.append((callee_path(t), [canon(body.expr_of_operand(a)) for a in t["args"]]))
        names = [s[0] for s in seq]
        has_from = any(nm.endswith("Numeric::from_u64") for nm in names)
        maps_into = any(nm.endswith("Result::<T, E>::map") and "into_u64" in " ".join(a) for nm, a in seq)
        user = [i for i, nm in enumerate(names) if nm.endswith("FnOnce::call_once")]
        order_ok = has_from and maps_into and user and \
            names.index([n_ for n_ in names if n_.endswith("from_u64")][0]) < user[0] < [i for i, (nm, a) in enumerate(seq) if nm.endswith("::map")][0]
        if order_ok:
            ctx.ok("N4", RT + "rmw", "f(T::from_u64(num)).map(T::into_u64)", [fn.loc()])
        else:
            ctx.bad("N4", RT + "rmw", "the user closure must see T::from_u64(stored) and its Ok value be re-encoded with T::into_u64 (%s)" % names, fn.loc())
    for (ck, what) in ((RT + "load::{closure#0}", ST + "load"),):
        fn = need_fn(ctx, "N4", ck)
        if fn is None:
            continue
        e = strip(fn.body.expr_of_local(0))
        if e[0] == "call" and e[1].endswith("Numeric::from_u64") and mentions_call(e, what):
            ctx.ok("N4", RT + "load", "T::from_u64(state.load(..))", [fn.loc()])
        else:
            ctx.bad("N4", RT + "load", "load must decode the selected store's value with T::from_u64 (returns %s)" % canon(e)[:100], fn.loc())
    # unsync_load / with_mut read the most recent store: index(cnt - 1)
    for ck in (RT + "unsync_load::{closure#0}", RT + "with_mut::{closure#0}"):
        fn = need_fn(ctx, "N4", ck)
        if fn is None:
            continue
        e = deep(prog, ck, strip(fn.body.expr_of_local(0)))
        txt = canon(e)
        if e[0] == "call" and e[1].endswith("Numeric::from_u64") and "rt::atomic::index(" in txt and re.search(r"\.cnt Sub(WithOverflow)? 1\)", txt) and ".value" in txt:
            ctx.ok("N4", enclosing_fn(ck), "T::from_u64(stores[index(cnt - 1)].value)", [fn.loc()])
        else:
            ctx.bad("N4", enclosing_fn(ck), "must read the most recent store stores[index(cnt-1)].value (returns %s)" % txt[:120], fn.loc())
    # with_mut writes back on exit
    dk = "<rt::atomic::Atomic<T>::with_mut::Reset<T> as std::ops::Drop>::drop::{closure#0}"
    fn = need_fn(ctx, "N4", dk)
    if fn is not None:
        ws = [w for w in prog.writers().get(("rt::atomic::Store", "value"), []) if w["fn"] == dk and w["kind"] == "assign"]
        ok = False
        uncond = False
        for w in ws:
            if every_path_passes(fn.body, [w["bb"]]):
                uncond = True
        for w in ws:
            if w["idx"] == "term":
                t = w["stmt"]
                lhs = canon(deep(prog, dk, fn.body.expr_of_place(t["dest"])))
                if callee_path(t).endswith("Numeric::into_u64") and "rt::atomic::index(" in lhs and re.search(r"\.cnt Sub(WithOverflow)? 1\)", lhs):
                    ok = True
            else:
                e = deep(prog, dk, fn.body.expr_of_rvalue(w["stmt"]["rv"]))
                lhs = canon(deep(prog, dk, fn.body.expr_of_place(w["stmt"]["lhs"])))
                if "into_u64" in canon(e) and "rt::atomic::index(" in lhs and re.search(r"\.cnt Sub(WithOverflow)? 1\)", lhs):
                    ok = True
        if ok and not uncond:
            ctx.bad("N4", RT + "with_mut", "the write-back of with_mut's value is conditional (e.g. skipped while panicking): a mutation made by a "
                    "closure that unwinds is lost, unlike std's get_mut", fn.loc(), detail="write-back-conditional")
        elif ok:
            ctx.ok("N4", RT + "with_mut", "value written back as T::into_u64 into stores[index(cnt-1)] on exit", [fn.loc()])
        else:
            ctx.bad("N4", RT + "with_mut", "with_mut must write the (possibly mutated) value back into the most recent store on exit", fn.loc())
    # new: encodes the initial value
    ck = RT + "new::{closure#0}"
    fn = need_fn(ctx, "N4", ck)
    if fn is not None:
        inst = prog.ident(ck)
        ok = False
        for (b, t, c) in prog.sites(inst):
            if prog.callee_key(c) == ST + "new":
                a = strip(deep(prog, ck, arg_expr(fn.body, t, 1)))
                ok = a[0] == "call" and a[1].endswith("Numeric::into_u64") and canon(a[2][0]) == prog.fns[RT + "new"].body.local_name(1)
        if ok:
            ctx.ok("N4", RT + "new", "State::new(value.into_u64())", [fn.loc()])
        else:
            ctx.bad("N4", RT + "new", "the initial value must be encoded with into_u64", fn.loc())
    # store encodes val
    ck = RT + "store::{closure#0}"
    fn = need_fn(ctx, "N4", ck)
    if fn is not None:
        inst = prog.ident(ck)
        ok = False
        for (b, t, c) in prog.sites(inst):
            if prog.callee_key(c) == ST + "store":
                a = strip(deep(prog, ck, arg_expr(fn.body, t, 3)))
                ok = a[0] == "call" and a[1].endswith("Numeric::into_u64") and canon(a[2][0]) == prog.fns[RT + "store"].body.local_name(3)
        if ok:
            ctx.ok("N4", RT + "store", "state.store(.., val.into_u64(), ..)", [fn.loc()])
        else:
            ctx.bad("N4", RT + "store", "the stored value must be val.into_u64()", fn.loc())
