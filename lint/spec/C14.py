"""C14 - exploration terminates and never repeats (premises of the lexicographic-measure argument)."""
from . import pathrules
from .common import *

EXPLANATION = ("Termination / no-repeat follows from a lexicographic measure over the branch stack IF these premises hold; the check decides the "
               "premises on the MIR of the current tree: explore() re-arms only Skip alternatives (X1); the exploration state of a branch is "
               "written only by branch creation, step() and explore(), with the documented values (X2); every successful step() strictly "
               "advances the deepest non-exhausted branch, discards everything deeper, visits branches from the deepest, and reports "
               "exhaustion only after the loop (X3); no loop of the walks over the branch stack can go round without moving its cursor (X5); the explored alternative is retired before the next one is promoted (X6); step() resets the per-iteration fields and exhaustion propagates to Builder::check (X4). "
               "The argument itself (DESIGN.md C14) is manual; determinism of user code and iteration counts are not decided."
               " G0/G1 cross-check the arm/branch steps against the reference tree.")
RULE_TEXT = "rule instances = writers of branch state, arms of step(), reset fields; non-trivial when matched to concrete MIR sites"
LEVEL_NOTE = "premises decided statically; the termination argument built on them is a manual paragraph (assumption)"


def run(ctx):
    from . import guardvocab
    guardvocab.G0(ctx, effects={'branch', 'explore'})
    guardvocab.G1(ctx, effects={'branch', 'explore'})
    guardvocab.G2(ctx, scopes=('rt::path::', 'rt::execution::Execution::step'))
    guardvocab.G3(ctx, scopes=('rt::path::', 'rt::execution::Execution::step'))
    ctx.assume("lexicographic-measure argument of DESIGN.md section 5 (C14) from premises X1-X4 and B3")
    pathrules.X1(ctx)
    pathrules.X2(ctx)
    pathrules.X3(ctx)
    pathrules.X4(ctx)
    pathrules.X5(ctx)
    pathrules.X6(ctx)
    pathrules.B3(ctx)
    # a resumed exploration continues from the recorded cursors
    from . import modelrules
    modelrules.Z1(ctx)
