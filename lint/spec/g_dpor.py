"""G-DPOR: visibility (branch points) and dependence tables of the partial-order reduction.

Used by C01, C09, C11 (DESIGN.md section 4)."""
from .common import *
from ..program import is_noise

SCHEDULE = EXEC + "::schedule"
STORE = "rt::object::Store"

KINDS = {
    # module -> (Action enum or None)
    "rt::atomic": "rt::atomic::Action",
    "rt::arc": "rt::arc::Action",
    "rt::mpsc": "rt::mpsc::Action",
    "rt::mutex": None,
    "rt::rwlock": None,
    "rt::condvar": None,
    "rt::notify": None,
}


def enum_variants(prog, adt):
    a = prog.adts.get(adt)
    if not a:
        return []
    return [(v.get("discr", i), v["name"]) for i, v in enumerate(a["variants"])]


def _action_enum(prog, fn_key):
    """(enum adt, param local) if the function takes an action parameter of a local enum type."""
    fn = prog.fns[fn_key]
    b = fn.body
    for l in range(2, b.arg_count + 1):
        ty = b.locals[l]["ty"]
        if ty in prog.adts and prog.adts[ty]["kind"] == "enum" and ty.endswith("::Action"):
            return ty, l
    return None, None


def _slots_in(prog, fn_key, callee_pred, state_adt, variants):
    """For each action variant: set of State fields passed (by reference) to calls selected by callee_pred."""
    inst = prog.ident(fn_key)
    body = prog.fns[fn_key].body
    out = {}
    _, al = _action_enum(prog, fn_key)
    todo = variants or [(None, "*")]
    for (val, name) in todo:
        if val is None or al is None:
            reached = body.reachable()
        else:
            reached, _ = PEval(body, assume_enum_value(body.local_name(al) or "action", val, name)).run()
        slots = set()
        for b in reached:
            t = body.term(b)
            if t["k"] != "call":
                continue
            key = prog.callee_key(prog.insts[inst].calls.get(b, {}))
            if callee_pred(key):
                e = arg_expr(body, t, 0)
                exprs = [e]
                # the receiver may be chosen first and used afterwards (`let a = if c { &self.x } else { &self.y }; a.as_ref()`):
                # its definitions on the paths reached under this action
                for x in subexprs(e):
                    if x[0] == "phi":
                        for d in body.defs().get(x[1], []):
                            if d[1] in reached and d[0] == "stmt" and d[3]["k"] == "=":
                                exprs.append(body.expr_of_rvalue(d[3]["rv"]))
                for e2 in exprs:
                    for x in subexprs(e2):
                        if x[0] == "field" and x[3] == state_adt:
                            slots.add(x[2])
        out[name] = slots
    return out


def dependence_table(ctx, mod):
    """Returns dict(actions, reads, writes, dep) or None."""
    prog = ctx.prog
    state = mod + "::State"
    lda = state + "::last_dependent_access"
    sla = state + "::set_last_access"
    if prog.fn(lda) is None or prog.fn(sla) is None:
        return None
    ctx.touch(lda)
    ctx.touch(sla)
    # the action enum is read off the signatures (an object kind may gain or lose an action parameter)
    act = _action_enum(prog, lda)[0] or _action_enum(prog, sla)[0]
    variants = enum_variants(prog, act) if act else None
    if act and not variants:
        return None
    reads = _slots_in(prog, lda, lambda k: k == "std::option::Option::<T>::as_ref", state, variants)
    writes = _slots_in(prog, sla, lambda k: k == "rt::access::Access::set_or_create", state, variants)
    actions = sorted(reads)
    dep = {a: {b for b in actions if writes[b] & reads[a]} for a in actions}
    return dict(actions=actions, reads=reads, writes=writes, dep=dep, state=state)


def T1(ctx, mods=None):
    """Symmetry of the dependence relation: the race is only looked up from the later operation."""
    prog = ctx.prog
    n = 0
    for mod in (mods or KINDS):
        t = dependence_table(ctx, mod)
        if t is None:
            ctx.missing("T1", mod + "::State", "dependence functions not found")
            continue
        for a in t["actions"]:
            for b in sorted(t["dep"][a]):
                n += 1
                if a in t["dep"][b]:
                    ctx.ok("T1", "%s:%s~%s" % (t["state"], a, b), "dependent both ways",
                           [prog.fns[t["state"] + "::last_dependent_access"].loc()])
                else:
                    ctx.bad("T1", t["state"], "dependence is one-sided: a pending %s looks up the last %s (slot %s), but a pending %s "
                            "never looks up %s accesses (it reads %s): when the %s runs second the race is not seen and the other "
                            "order is never explored" % (a, b, sorted(t["reads"][a] & t["writes"][b]), b, a, sorted(t["reads"][b]), b),
                            prog.fns[t["state"] + "::last_dependent_access"].loc(), detail="%s-%s" % (a, b))
    return n


def T2(ctx, mods=None):
    """Overwrite soundness: an action may overwrite an access slot only if it is ordered after (dependent with)
    every action kind that can be stored in it; otherwise an earlier concurrent access is forgotten."""
    prog = ctx.prog
    n = 0
    for mod in (mods or KINDS):
        t = dependence_table(ctx, mod)
        if t is None:
            ctx.missing("T2", mod + "::State", "dependence functions not found")
            continue
        writers = {}
        for a in t["actions"]:
            for s in t["writes"][a]:
                writers.setdefault(s, set()).add(a)
        for a in t["actions"]:
            lost = set()
            for s in sorted(t["writes"][a]):
                n += 1
                for b in writers[s]:
                    if b not in t["dep"][a]:
                        lost.add((s, b))
            if lost:
                ctx.bad("T2", t["state"], "action %s overwrites slot(s) %s that may hold an access of kind %s it is not dependent with: "
                        "the overwritten access is concurrent and later conflicting operations race only against the newest one" %
                        (a, sorted({s for s, _ in lost}), sorted({b for _, b in lost})),
                        prog.fns[t["state"] + "::set_last_access"].loc(), detail=a)
            else:
                ctx.ok("T2", "%s:%s" % (t["state"], a), "overwrites only slots of dependent kinds %s" % sorted(t["writes"][a]),
                       [prog.fns[t["state"] + "::set_last_access"].loc()])
    return n


def T6(ctx, mods=None):
    """Recency selection: where a pending action is dependent with several kinds of earlier access (several slots), the one
    returned must be the most recent in *execution order* - chosen through a marker that set_last_access maintains (or the
    accesses' path positions) - not through a happens-before comparison (concurrent accesses are unordered, and exactly
    those are the races DPOR must see)."""
    prog = ctx.prog
    n = 0
    for mod in (mods or KINDS):
        t = dependence_table(ctx, mod)
        if t is None:
            continue
        lda = t["state"] + "::last_dependent_access"
        sla = t["state"] + "::set_last_access"
        body = prog.fns[lda].body
        inst = prog.ident(lda)
        act, al = _action_enum(prog, lda)
        variants = dict((name, val) for (val, name) in (enum_variants(prog, act) if act else []))
        for a in t["actions"]:
            if len(t["reads"][a]) < 2:
                continue
            n += 1
            if a in variants and al is not None:
                reached, _ = PEval(body, assume_enum_value(body.local_name(al) or "action", variants[a], a)).run()
            else:
                reached = body.reachable()
            markers, causal = set(), []
            for b in sorted(reached):
                tm = body.term(b)
                if tm["k"] == "call":
                    k = prog.callee_key(prog.insts[inst].calls.get(b, {}))
                    if k in ("rt::access::Access::happens_before",) or (k.startswith("rt::vv::VersionVec::") and k.split("::")[-1] in ("partial_cmp", "le", "lt", "ge", "gt")) \
                            or k.endswith("PartialOrd::partial_cmp") or k.endswith("PartialOrd::le") or k.endswith("PartialOrd::lt"):
                        causal.append(b)
                if tm["k"] == "call" and callee_path(tm) == "std::option::Option::<T>::as_ref":
                    for (e, pol, v, sb) in guard_atoms(body, b):
                        for x in subexprs(e):
                            if x[0] == "field" and x[3] == t["state"] and x[2] not in t["reads"][a]:
                                markers.add(x[2])
                            if x[0] == "field" and x[3] == "rt::access::Access" and x[2] == "path_id":
                                markers.add("path_id")
            maintained = {m for m in markers if m == "path_id" or any(w["fn"] == sla for w in prog.writers().get((t["state"], m), []))}
            if causal:
                ctx.bad("T6", t["state"], "a pending %s chooses between its dependent slots %s by a happens-before comparison: accesses that are "
                        "concurrent (the races to explore) are unordered, so the most recent conflicting access can be dropped" %
                        (a, sorted(t["reads"][a])), site_str(prog, lda, causal[0]), detail="%s-causal" % a)
            elif maintained:
                ctx.ok("T6", "%s:%s" % (t["state"], a), "most recent of %s selected via %s maintained by set_last_access" %
                       (sorted(t["reads"][a]), sorted(maintained)), [prog.fns[lda].loc()])
            else:
                ctx.bad("T6", t["state"], "a pending %s is dependent with slots %s but nothing maintained by set_last_access selects the most "
                        "recent of them" % (a, sorted(t["reads"][a])), prog.fns[lda].loc(), detail="%s-unselected" % a)
    return n


def T7(ctx, mods=None):
    """The dependence lookup depends on nothing but the pending action and the access records: every test inside
    last_dependent_access reads the action, an access slot, or a marker that set_last_access maintains - never other object
    state (a reference count, a lock holder, ..), which would make two operations independent in some states only."""
    prog = ctx.prog
    n = 0
    for mod in (mods or KINDS):
        t = dependence_table(ctx, mod)
        if t is None:
            continue
        lda = t["state"] + "::last_dependent_access"
        sla = t["state"] + "::set_last_access"
        body = prog.fns[lda].body
        slots = set()
        for a in t["actions"]:
            slots |= t["reads"][a] | t["writes"][a]
        maintained = {f for (a_, f), ws in prog.writers().items() if a_ == t["state"] and any(w["fn"] == sla for w in ws)}
        n += 1
        alien = []
        for b in sorted(body.reachable()):
            tm = body.term(b)
            if tm["k"] != "switch" or body.blocks[b]["cleanup"]:
                continue
            e = body.expr_of_operand(tm["op"])
            for x in subexprs(e):
                if x[0] == "field" and x[3] == t["state"] and x[2] not in slots and x[2] not in maintained:
                    alien.append((b, x[2]))
        if alien:
            ctx.bad("T7", t["state"], "last_dependent_access consults `%s`, which is neither an access record nor maintained by set_last_access: "
                    "whether two operations are dependent then varies with the object's state, and races in the other states are never "
                    "reversed" % alien[0][1], site_str(prog, lda, alien[0][0]), detail=alien[0][1])
        else:
            ctx.ok("T7", t["state"], "tests only the action, the access slots %s and markers %s" % (sorted(slots), sorted(maintained - slots)),
                   [prog.fns[lda].loc()])
    return n


DPOR_VV_WRITERS = {
    # function -> what it may do with Thread.dpor_vv
    "rt::thread::Thread::new": "construct",
    "rt::execution::Execution::new_thread": "the child starts from the parent's clock",
    SCHEDULE: "join with the last dependent access of the executed operation; tick the own component",
}


def T8(ctx):
    """Thread.dpor_vv (the clock races are judged against) is written only where the reduction's theory says: at spawn and in
    Execution::schedule.  Any other join orders operations for DPOR that no executed dependent access ordered: races involving
    them are never reversed."""
    prog = ctx.prog
    n = 0
    for w in prog.writers().get((T, "dpor_vv"), []):
        fk = enclosing_fn(w["fn"])
        if w["kind"] == "borrow_mut" and not w["exact"]:
            continue
        n += 1
        if fk in DPOR_VV_WRITERS or is_reinit_write(prog, w, T, "dpor_vv", T + "::new"):
            ctx.ok("T8", fk, DPOR_VV_WRITERS.get(fk, "re-initialised between iterations"), [site_str(prog, w["fn"], w["bb"])])
        else:
            ctx.bad("T8", fk, "Thread.dpor_vv is modified by %s (%s): the thread's later operations are treated as ordered after "
                    "operations no dependent access ordered them with, so DPOR records no backtrack point for those races" % (fk, w["kind"]),
                    site_str(prog, w["fn"], w["bb"]), detail="dpor_vv")
    ctx.floor("T8", n, 4, "Thread::new, new_thread join, schedule join + tick")


# required conflicts (hand-written commutation tables from the semantics of each primitive)
REQUIRED = {
    "rt::atomic": [("Load", "Store"), ("Load", "Rmw"), ("Store", "Store"), ("Store", "Rmw"), ("Rmw", "Rmw")],
    "rt::arc": [("RefInc", "Inspect"), ("RefDec", "Inspect"), ("RefDec", "RefDec")],
    "rt::mpsc": [("MsgSend", "MsgSend"), ("MsgRecv", "MsgRecv")],
    "rt::mutex": [("*", "*")], "rt::rwlock": [("*", "*")], "rt::condvar": [("*", "*")], "rt::notify": [("*", "*")],
}


def T3(ctx, mods=None):
    """Required conflicts: every non-commuting pair of the hand-written commutation table of the primitive is dependent; the action try_recv branches with is dependent with sends."""
    prog = ctx.prog
    for mod in (mods or KINDS):
        t = dependence_table(ctx, mod)
        if t is None:
            ctx.missing("T3", mod + "::State", "dependence functions not found")
            continue
        req = REQUIRED[mod]
        if mod == "rt::rwlock" and "Read" in t["dep"]:
            req = [("Read", "Write"), ("Write", "Write")]       # shared acquisitions commute, everything involving a writer does not
        for (a, b) in req:
            if a not in t["dep"] or b not in t["dep"]:
                ctx.missing("T3", t["state"], "action %s/%s not found" % (a, b))
                continue
            if b in t["dep"][a] or a in t["dep"][b]:
                ctx.ok("T3", "%s:%s#%s" % (t["state"], a, b), "non-commuting pair is dependent",
                       [prog.fns[t["state"] + "::last_dependent_access"].loc()])
            else:
                ctx.bad("T3", t["state"], "%s and %s do not commute but are not dependent: only one order is explored" % (a, b),
                        prog.fns[t["state"] + "::last_dependent_access"].loc(), detail="%s-%s" % (a, b))
    if mods is None or "rt::mpsc" in mods:
        _try_recv_dependence(ctx)


def _try_recv_dependence(ctx):
    """A non-blocking receive does not commute with a send: the action under which `Receiver::try_recv` decides
    must be dependent with MsgSend."""
    prog = ctx.prog
    fn_key = "sync::mpsc::Receiver::<T>::try_recv"
    root = prog.ident(fn_key)
    if root is None:
        ctx.missing("T3", fn_key)
        return
    t = dependence_table(ctx, "rt::mpsc")
    if t is None:
        return
    # which channel actions does try_recv branch with?
    acts = set()
    reach = prog.reach([root])
    for i in reach:
        body = prog.body_of(i)
        for (b, term, c) in prog.sites(i):
            k = prog.callee_key(c)
            if k in ("rt::object::Ref::<T>::branch_action", "rt::object::Ref::<T>::branch_disable") and \
                    prog.insts[i].key.startswith("rt::mpsc::"):
                e = strip(arg_expr(body, term, 1))
                txt = canon(e)
                for a in t["actions"]:
                    if a in txt:
                        acts.add(a)
    ctx.touch(fn_key, len(reach))
    if not acts:
        ctx.bad("T3", fn_key, "try_recv performs no channel action at a branch point", prog.fns[fn_key].loc(), detail="no-action")
        return
    if any("MsgSend" in t["dep"].get(a, ()) for a in acts):
        ctx.ok("T3", fn_key, "try_recv's action %s is dependent with MsgSend" % sorted(acts), [prog.fns[fn_key].loc()])
    else:
        ctx.bad("T3", fn_key, "try_recv decides with action %s whose dependent set %s does not contain MsgSend: a send racing with a "
                "non-blocking receive is explored in one order only" % (sorted(acts), {a: sorted(t["dep"][a]) for a in acts}),
                prog.fns[fn_key].loc(), detail="send")


def T4(ctx):
    """Execution::schedule wiring of DPOR."""
    prog = ctx.prog
    fn_key = SCHEDULE
    fn = need_fn(ctx, "T4", fn_key)
    if fn is None:
        return
    body = fn.body
    inst = prog.ident(fn_key)
    ev = {
        "lda": STORE + "::last_dependent_access", "hb": "rt::access::Access::happens_before",
        "backtrack": "rt::path::Path::backtrack", "pos": "rt::path::Path::pos",
        "branch_thread": "rt::path::Path::branch_thread", "set_active": "rt::thread::Set::set_active",
        "set_last_access": STORE + "::set_last_access", "join": "rt::vv::VersionVec::join",
    }
    ea = EventAnalysis(prog, path_matcher(ev), stop=lambda i: prog.insts[i].key != fn_key and
                       not prog.insts[i].key.startswith(fn_key + "::")).solve([inst])
    ctx.touch(fn_key, body.n)
    m = ea.must_of(inst)
    for e in ("pos", "branch_thread", "set_active"):
        if m is not TOP and e not in m:
            ctx.bad("T4", fn_key, "schedule() does not call %s on every path" % ev[e], fn.loc(), detail=e)
        else:
            ctx.ok("T4", "schedule:" + e, "on every path", [fn.loc()])
    # backtrack guarded by !happens_before, fed by access.path_id() and the pending thread's id
    bts = [b for (b, t, c) in prog.sites(inst) if prog.callee_key(c) == ev["backtrack"]]
    if not bts:
        ctx.bad("T4", fn_key, "schedule() never records a backtrack point", fn.loc(), detail="backtrack")
    for b in bts:
        t = body.term(b)
        un = unreachable_if(body, b, assume_calls({"rt::access::Access::happens_before": True}))
        re = not unreachable_if(body, b, assume_calls({"rt::access::Access::happens_before": False}))
        a1 = canon(arg_expr(body, t, 1))
        # nothing else may decide whether the race is recorded: the guards of the backtrack call test only the pending operation,
        # the dependent access and its happens-before relation
        extra = []
        for (ge, pol, v, sb) in guard_atoms(body, b):
            txt = canon(ge)
            if any(k in txt for k in ("operation", "last_dependent_access", "happens_before", "Iterator::next")):
                continue
            extra.append(txt[:80])
        if extra:
            ctx.bad("T4", fn_key, "recording a backtrack point additionally depends on `%s`: races detected while that does not hold are "
                    "never reversed" % extra[0], site_str(prog, fn_key, b), detail="backtrack-extra-guard")
        if un and re and "path_id" in a1 and mentions_call(arg_expr(body, t, 1), "rt::access::Access::path_id"):
            ctx.ok("T4", "schedule:backtrack", "backtrack(access.path_id(), thread) iff !access.happens_before(thread.dpor_vv)",
                   [site_str(prog, fn_key, b)])
        else:
            ctx.bad("T4", fn_key, "backtrack point is not recorded exactly when the last dependent access does not happen-before the "
                    "pending operation (guarded=%s reachable=%s point=%s)" % (un, re, a1[:80]), site_str(prog, fn_key, b), detail="backtrack-guard")
        # happens_before compares against the *pending thread's* dpor clock
    for (b, t, c) in prog.sites(inst):
        if prog.callee_key(c) == ev["hb"]:
            vvf = mentions_field(arg_expr(body, t, 1), T, "dpor_vv")
            # ... of the thread whose pending operation is being examined: the access compared was looked up for `X.operation`,
            # the clock must be `X.dpor_vv` for the same X (not the running thread's, which has usually seen the access itself)
            same = True
            lda = mentions_call(arg_expr(body, t, 0), ev["lda"])
            if vvf is not None and lda is not None and len(lda[2]) > 1:
                opf = mentions_field(lda[2][1], T, "operation")
                if opf is not None and canon(strip(opf[1])) != canon(strip(vvf[1])):
                    same = False
            if vvf is not None and not same:
                ctx.bad("T4", fn_key, "the last dependent access of one thread's pending operation is compared with another thread's "
                        "dpor clock (%s): races of the threads that are suspended at an operation are judged absent" % canon(strip(vvf[1]))[:80],
                        site_str(prog, fn_key, b), detail="hb-arg-thread")
            elif vvf is not None:
                ctx.ok("T4", "schedule:hb-arg", "compared with thread.dpor_vv", [site_str(prog, fn_key, b)])
            else:
                ctx.bad("T4", fn_key, "happens_before is not evaluated against the pending thread's dpor_vv", site_str(prog, fn_key, b), detail="hb-arg")
    # after the choice: join, increment, set_last_access(path_id = pos() read before branch_thread)
    sla = [b for (b, t, c) in prog.sites(inst) if prog.callee_key(c) == ev["set_last_access"]]
    if not sla:
        ctx.bad("T4", fn_key, "schedule() never records the executed operation as last access", fn.loc(), detail="set_last_access")
    for b in sla:
        t = body.term(b)
        IN, OUT = ea.block_out(inst)
        pid = arg_expr(body, t, 2)
        ok_pos = mentions_call(pid, "rt::path::Path::pos") is not None
        ok_order = IN.get(b) is not TOP and "branch_thread" in (IN.get(b) or ()) and "set_active" in (IN.get(b) or ())
        vv = arg_expr(body, t, 3)
        ok_vv = mentions_field(vv, T, "dpor_vv") is not None
        if ok_pos and ok_order and ok_vv:
            ctx.ok("T4", "schedule:set_last_access", "after branch_thread/set_active, with path_id = pos() of this branch and the active dpor_vv",
                   [site_str(prog, fn_key, b)])
        else:
            ctx.bad("T4", fn_key, "set_last_access wiring broken (path_id from pos(): %s, after branch_thread+set_active: %s, dpor_vv: %s)" %
                    (ok_pos, ok_order, ok_vv), site_str(prog, fn_key, b), detail="sla-wiring")
    # pos() must be read before branch_thread (which advances it)
    v = ea.must_before(inst, "pos", "branch_thread")
    if v:
        ctx.bad("T4", fn_key, "path position is read after branch_thread advanced it", site_str(prog, fn_key, v[0]["bb"]), detail="pos-order")
    else:
        ctx.ok("T4", "schedule:pos<branch_thread", "ordered", [fn.loc()])
    joins = [b for (b, t, c) in prog.sites(inst) if prog.callee_key(c) == ev["join"] and
             mentions_field(arg_expr(body, t, 0), T, "dpor_vv") and
             mentions_call(arg_expr(body, t, 1), "rt::access::Access::version")]
    if joins:
        ctx.ok("T4", "schedule:dpor-join", "active.dpor_vv.join(access.version())", [site_str(prog, fn_key, joins[0])])
    else:
        ctx.bad("T4", fn_key, "the executed operation's dpor clock is not joined with its last dependent access", fn.loc(), detail="dpor-join")
    incs = [b for (b, t, c) in prog.sites(inst) if "IndexMut" in prog.callee_key(c) and
            mentions_field(arg_expr(body, t, 0), T, "dpor_vv")]
    if incs:
        ctx.ok("T4", "schedule:dpor-inc", "dpor_vv[active] += 1", [site_str(prog, fn_key, incs[0])])
    else:
        ctx.bad("T4", fn_key, "the active thread's own dpor component is not advanced", fn.loc(), detail="dpor-inc")


def dispatch_exhaustive(ctx, rule, disp_fn, method, required_mods=None):
    """A7: object::Store::<disp_fn> has an arm calling `<State>::<method>` for every object kind that defines it,
    and each arm's Entry variant carries that State type."""
    prog = ctx.prog
    fn = need_fn(ctx, rule, STORE + "::" + disp_fn)
    if fn is None:
        return 0
    inst = prog.ident(fn.key)
    have = {}
    for (b, t, c) in prog.sites(inst):
        k = prog.callee_key(c)
        if k.endswith("::State::" + method):
            e = arg_expr(fn.body, t, 0)
            var = None
            entry_variants = {v["name"] for v in prog.adts.get("rt::object::Entry", {"variants": []})["variants"]}
            for x in subexprs(e):
                if x[0] == "as" and x[2] in entry_variants:
                    var = x[2]
            have[k] = (var, b)
    defined = sorted(k for k in prog.fns if k.endswith("::State::" + method) and k.startswith("rt::"))
    entry = prog.adts.get("rt::object::Entry", {"variants": []})
    vty = {v["name"]: (v["fields"][0]["ty"] if v["fields"] else None) for v in entry["variants"]}
    n = 0
    for k in defined:
        n += 1
        if k not in have:
            ctx.bad(rule, k, "Store::%s has no arm for %s: operations on this object kind are invisible to %s" %
                    (disp_fn, k.rsplit("::", 2)[0], "DPOR" if "access" in method else "the leak scan"), fn.loc())
            continue
        var, b = have[k]
        st = k[: -len("::" + method)]
        if var is None or vty.get(var) != st:
            ctx.bad(rule, k, "arm of Store::%s for variant %s calls %s (variant payload is %s)" % (disp_fn, var, k, vty.get(var)),
                    site_str(prog, fn.key, b), detail="mismatch")
        else:
            ctx.ok(rule, "%s:%s" % (disp_fn, var), "dispatches to %s" % k, [site_str(prog, fn.key, b)])
    return n


def T5(ctx):
    """Dispatch exhaustiveness: object::Store::{last_dependent_access,set_last_access} have an arm for every object kind defining them, on the matching Entry variant."""
    n = dispatch_exhaustive(ctx, "T5", "last_dependent_access", "last_dependent_access")
    n += dispatch_exhaustive(ctx, "T5", "set_last_access", "set_last_access")
    ctx.floor("T5", n, 14, "7 + 7 object kinds")


# ---- V1 / V2 visibility ---------------------------------------------------------------------------

INT_TYPES = ["AtomicU8", "AtomicU16", "AtomicU32", "AtomicUsize", "AtomicI8", "AtomicI16", "AtomicI32", "AtomicIsize",
             "AtomicU64", "AtomicI64"]
ATOMIC_OPS_INT = ["load", "store", "swap", "compare_and_swap", "compare_exchange", "compare_exchange_weak", "fetch_add",
                  "fetch_sub", "fetch_and", "fetch_nand", "fetch_or", "fetch_xor", "fetch_max", "fetch_min", "fetch_update"]
ATOMIC_OPS_BOOL = ["load", "store", "swap", "compare_and_swap", "compare_exchange", "compare_exchange_weak", "fetch_and",
                   "fetch_nand", "fetch_or", "fetch_xor", "fetch_update"]
ATOMIC_OPS_PTR = ["load", "store", "swap", "compare_and_swap", "compare_exchange", "compare_exchange_weak", "fetch_update"]


def visible_ops():
    rt_ops = [
        "rt::atomic::Atomic::<T>::load", "rt::atomic::Atomic::<T>::store", "rt::atomic::Atomic::<T>::rmw",
        "rt::mutex::Mutex::acquire_lock", "rt::mutex::Mutex::try_acquire_lock",
        "rt::rwlock::RwLock::acquire_read_lock", "rt::rwlock::RwLock::acquire_write_lock",
        "rt::rwlock::RwLock::try_acquire_read_lock", "rt::rwlock::RwLock::try_acquire_write_lock",
        "rt::condvar::Condvar::wait", "rt::condvar::Condvar::notify_one", "rt::condvar::Condvar::notify_all",
        "rt::notify::Notify::notify", "rt::notify::Notify::wait",
        "rt::mpsc::Channel::send", "rt::mpsc::Channel::recv",
        "rt::arc::Arc::ref_inc", "rt::arc::Arc::ref_dec", "rt::arc::Arc::get_mut", "rt::arc::Arc::strong_count",
        "rt::yield_now", "rt::thread_done",
    ]
    api = [
        "sync::mutex::Mutex::<T>::lock", "sync::mutex::Mutex::<T>::try_lock",
        "sync::rwlock::RwLock::<T>::read", "sync::rwlock::RwLock::<T>::write",
        "sync::rwlock::RwLock::<T>::try_read", "sync::rwlock::RwLock::<T>::try_write",
        "sync::condvar::Condvar::wait", "sync::condvar::Condvar::notify_one", "sync::condvar::Condvar::notify_all",
        "sync::notify::Notify::notify", "sync::notify::Notify::wait",
        "sync::mpsc::Sender::<T>::send", "sync::mpsc::Receiver::<T>::recv", "sync::mpsc::Receiver::<T>::try_recv",
        "<sync::arc::Arc<T> as std::clone::Clone>::clone", "<sync::arc::Arc<T> as std::ops::Drop>::drop",
        "sync::arc::Arc::<T>::get_mut", "sync::arc::Arc::<T>::strong_count", "sync::arc::Arc::<T>::try_unwrap",
        "thread::JoinHandle::<T>::join", "hint::spin_loop", "sync::atomic::spin_loop_hint",
    ]
    for ty in INT_TYPES:
        for op in ATOMIC_OPS_INT:
            api.append("sync::atomic::int::%s::%s" % (ty, op))
    for op in ATOMIC_OPS_BOOL:
        api.append("sync::atomic::bool::AtomicBool::%s" % op)
    for op in ATOMIC_OPS_PTR:
        api.append("sync::atomic::ptr::AtomicPtr::<T>::%s" % op)
    return rt_ops, api


NOT_BRANCH = {
    "rt::mutex::Mutex::release_lock": "release: enabledness of others changes, result independent of interleaving with own thread",
    "rt::rwlock::RwLock::release_read_lock": "release",
    "rt::rwlock::RwLock::release_write_lock": "release",
    "thread::Thread::unpark": "unpark only adds a token / wakes; commutes with everything but the target's park, which branches",
    "rt::cell::Cell::start_read": "UnsafeCell accesses are checked for races, not scheduled",
    "rt::cell::Cell::start_write": "UnsafeCell accesses are checked for races, not scheduled",
    "rt::atomic::Atomic::<T>::unsync_load": "unsynchronised read, race-checked",
    "rt::atomic::Atomic::<T>::with_mut": "exclusive access, race-checked",
    "rt::alloc::alloc": "allocation tracking",
    "rt::alloc::dealloc": "allocation tracking",
    "rt::alloc::Allocation::new": "allocation tracking",
    "rt::atomic::fence": "fences only move clocks of the calling thread",
}


def V1(ctx, subset=None):
    """Every modelled operation whose result or blocking depends on cross-thread object state passes through a branch
    point (Execution::schedule) on every normal path; documented non-branching operations do not gain one."""
    prog = ctx.prog
    rt_ops, api = visible_ops()
    todo = rt_ops + api
    if subset:
        todo = [k for k in todo if any(k.startswith(s) for s in subset)]
    roots = []
    for k in todo:
        i = prog.ident(k)
        if i is None:
            if k.endswith("AtomicU64::load") or "AtomicU64" in k or "AtomicI64" in k:
                continue
            ctx.missing("V1", k)
        else:
            roots.append(i)
    nb_roots = [prog.ident(k) for k in NOT_BRANCH if prog.ident(k) is not None]
    # "every path" = every path of a live execution: the early returns of destructors under `!threads.is_active()` (deadlocked
    # execution being torn down, C06/P2) are exempt
    live = assume_scenario(prog, {"rt::thread::Set::is_active": True})
    ea = EventAnalysis(prog, path_matcher({"schedule": SCHEDULE}), assume=live).solve(roots + nb_roots)
    n = 0
    for k in todo:
        i = prog.ident(k)
        if i is None:
            continue
        n += 1
        ctx.touch(k, 1)
        if ea.holds_on_all_paths(i, "schedule"):
            ctx.ok("V1", k, "branch point on every path", [prog.fns[k].loc()])
        else:
            # locate an offending return path for the report
            IN, OUT = ea.block_out(i)
            body = prog.body_of(i)
            rb = [b for b in body.return_blocks() if OUT.get(b) is not TOP and "schedule" not in (OUT.get(b) or ())]
            ctx.bad("V1", k, "%s can return without passing a branch point (Execution::schedule): its result is computed from "
                    "cross-thread state at a point the scheduler cannot interleave, so outcomes are lost" % k,
                    site_str(prog, k, rb[0] if rb else None))
    if not subset:
        for k, why in NOT_BRANCH.items():
            i = prog.ident(k)
            if i is None:
                ctx.missing("V1", k, "documented non-branching operation not found")
                continue
            n += 1
            if "schedule" in ea.may.get(i, ()):
                ctx.bad("V1", k, "%s gained a hidden branch point (documented as non-branching: %s); iteration structure changes" % (k, why),
                        prog.fns[k].loc(), detail="hidden-branch")
            else:
                ctx.ok("V1", k + ":no-branch", why, [prog.fns[k].loc()])
        ctx.floor("V1", n, 24 + len(NOT_BRANCH), "22 rt operations + API front-ends + non-branching list")
    return n


PRE_READ_OK = {
    # accessor fn -> set of operations that may call it before their branch point (blocking condition only)
    "rt::mutex::Mutex::is_locked": {"rt::mutex::Mutex::acquire_lock"},
    "rt::rwlock::RwLock::is_write_locked": {"rt::rwlock::RwLock::acquire_read_lock", "rt::rwlock::RwLock::acquire_write_lock"},
    "rt::rwlock::RwLock::is_read_locked": {"rt::rwlock::RwLock::acquire_write_lock"},
    "rt::mpsc::Channel::is_empty": {"rt::mpsc::Channel::recv"},
    "rt::notify::Notify::wait::{closure#0}": {"rt::notify::Notify::wait"},
}


BRANCH_COND_ARG = {"rt::object::Ref::<T>::branch_acquire": 1, "rt::object::Ref::<T>::branch_disable": 2}


def _feeds_only_blocking_condition(prog, ea, root):
    """Every pre-branch state read of the operation `root` is a bool predicate whose result flows only into the blocking
    condition of the operation's own branching call (whether the predicate is a named helper, or an `rt::execution` closure
    written in place): between the read and the branching call nothing but such predicates (and tracing) is called."""
    body = prog.body_of(root)
    key = prog.insts[root].key
    branch = [(b, t, BRANCH_COND_ARG[prog.callee_key(c)]) for (b, t, c) in prog.sites(root) if prog.callee_key(c) in BRANCH_COND_ARG]
    if len(branch) != 1:
        return False
    bb, bt, ai = branch[0]
    IN, OUT = ea.block_out(root)
    pre = [b for b in ea.sites_may(root, "state_access") if b != bb and (IN.get(b) is None or "schedule" not in IN.get(b))]
    if not pre:
        return False
    feeding, _ = feeding_calls(body, bt["args"][ai])
    dom = body.dominators()
    for b in pre:
        t = body.term(b)
        if t["k"] != "call" or body.locals[t["dest"]["l"]]["ty"] != "bool" or t["dest"]["p"]:
            return False
        if callee_path(t) not in feeding or bb not in body.reachable(b):
            return False
    # nothing else happens before the branching call
    region = set()
    for b in pre:
        region |= {x for x in body.reachable(b) if bb in body.reachable(x) and x != bb}
    for x in region:
        t = body.term(x)
        if t["k"] == "call" and x not in pre and not is_noise(t) and not t.get("exp"):
            return False
    return True


def V2(ctx, subset=None):
    """The object state an operation returns or mutates is read after its branch point; pre-branch reads are allowed
    only for the blocking condition of the listed operations."""
    prog = ctx.prog
    rt_ops, api = visible_ops()
    ops = [k for k in rt_ops if k not in ("rt::yield_now", "rt::thread_done")]
    ops += ["sync::mpsc::Receiver::<T>::try_recv", "sync::mpsc::Receiver::<T>::recv", "sync::mpsc::Sender::<T>::send"]
    if subset:
        ops = [k for k in ops if any(k.startswith(s) for s in subset)]

    def m(prog_, i, b, t, c):
        k = prog_.callee_key(c)
        if k == SCHEDULE:
            return ["schedule"]
        # any call that is handed the execution's object store (Ref::get/get_mut, helper accessors)
        body = prog_.body_of(i)
        for a in t["args"]:
            if mentions_field(body.expr_of_operand(a), EXEC, "objects"):
                if prog_.insts[i].key.startswith("rt::object::"):
                    return []      # set_action's own sanity check of the reference
                return ["state_access"]
        return []
    n = 0
    for k in ops:
        root = prog.ident(k)
        if root is None:
            ctx.missing("V2", k)
            continue
        n += 1
        ea = EventAnalysis(prog, m, stop=lambda i: prog.insts[i].key == SCHEDULE).solve([root])
        ctx.touch(k, len(ea.sub))
        viol = ea.must_before(root, "schedule", "state_access")
        real = []
        for v in viol:
            chain = [prog.insts[x].key for x in v["trail"]]
            excused = False
            for acc, okops in PRE_READ_OK.items():
                if acc in chain or any(c_.startswith(acc + "::") for c_ in chain):
                    # excused only if the *innermost* listed operation on the chain is allowed to pre-read
                    inner = [c_ for c_ in chain if c_ in okops]
                    if inner:
                        excused = True
            if not excused and k == "rt::notify::Notify::wait":
                # the spurious-wake-up decision of Notify::wait: the closure that asks the path for the decision reads `notified`
                # to choose between the two branching calls - wherever that closure lives after helpers were split off / merged
                for c_ in chain:
                    f_ = prog.fns.get(c_)
                    if f_ is not None and f_.kind == "Closure" and enclosing_fn(c_) == k and \
                            any(prog.callee_key(cc) == "rt::path::Path::branch_spurious" for (_b, _t, cc) in prog.sites(prog.ident(c_))):
                        excused = True
            if not excused and len(chain) >= 1 and _feeds_only_blocking_condition(prog, ea, root):
                excused = True
            if not excused:
                real.append((v, chain))
        if real:
            v, chain = real[0]
            ctx.bad("V2", k, "%s reads object state before its branch point (via %s): the value it acts on predates the scheduling "
                    "decision and racing operations of other threads are not reflected" % (k, " -> ".join(chain[-3:])),
                    prog.site_loc(v["inst"], v["bb"]))
        else:
            ctx.ok("V2", k, "object state read only after the branch point (blocking pre-reads excepted)", [prog.fns[k].loc()])
    return n


OP_ACTION = {
    # operation -> (branching call, expected action variant) : written from the semantics of each operation
    "rt::atomic::Atomic::<T>::load": "Load", "rt::atomic::Atomic::<T>::store": "Store", "rt::atomic::Atomic::<T>::rmw": "Rmw",
    "rt::arc::Arc::ref_inc": "RefInc", "rt::arc::Arc::ref_dec": "RefDec", "rt::arc::Arc::get_mut": "RefDec",
    "rt::arc::Arc::strong_count": "Inspect",
    "rt::mpsc::Channel::send": "MsgSend", "rt::mpsc::Channel::recv": "MsgRecv",
    "rt::rwlock::RwLock::acquire_read_lock": "Read", "rt::rwlock::RwLock::try_acquire_read_lock": "Read",
    "rt::rwlock::RwLock::acquire_write_lock": "Write", "rt::rwlock::RwLock::try_acquire_write_lock": "Write",
}


def V3(ctx, subset=None):
    """Each operation registers itself at its branch point under the action kind of its semantics (the dependence tables are
    indexed by it): e.g. Arc::get_mut answers "am I the only handle", so it must conflict with drops like a RefDec."""
    prog = ctx.prog
    n = 0
    for fk, want in OP_ACTION.items():
        if subset and not any(fk.startswith(s) for s in subset):
            continue
        fn = need_fn(ctx, "V3", fk)
        if fn is None:
            continue
        inst = prog.ident(fk)
        acts = []
        for (b, t, c) in prog.sites(inst):
            k = prog.callee_key(c)
            if k in ("rt::object::Ref::<T>::branch_action", "rt::object::Ref::<T>::branch_disable", "rt::atomic::Atomic::<T>::branch", "rt::arc::Arc::branch"):
                e = strip(arg_expr(fn.body, t, 1))
                if e[0] == "agg":
                    acts.append((b, e[2]))
                elif e[0] == "const" and "variant" in e[1]:
                    acts.append((b, e[1]["variant"]))
                else:
                    acts.append((b, canon(e)))
        n += 1
        if len(acts) == 1 and acts[0][1] == want:
            ctx.ok("V3", fk, "branches as %s" % want, [site_str(prog, fk, acts[0][0])])
        else:
            ctx.bad("V3", fk, "%s registers its branch point as %s, its semantics require `%s` (dependence with the operations it races "
                    "with is looked up under this kind)" % (fk, [a for _, a in acts], want), fn.loc())
    if not subset:
        ctx.floor("V3", n, 13, "operations with a typed action")
    return n


def run_all(ctx, which):
    for w in which:
        if w == "V3":
            V3(ctx)
            continue
        if w == "T1":
            ctx.floor("T1", T1(ctx), 8, "dependent pairs over 7 kinds")
        elif w == "T2":
            ctx.floor("T2", T2(ctx), 10, "slot writes over 7 kinds")
        elif w == "T3":
            T3(ctx)
        elif w == "T4":
            T4(ctx)
        elif w == "T5":
            T5(ctx)
        elif w == "T6":
            ctx.floor("T6", T6(ctx), 1, "Arc Inspect (inc / dec slots)")
        elif w == "T7":
            ctx.floor("T7", T7(ctx), 7, "7 object kinds")
        elif w == "T8":
            T8(ctx)
        elif w == "V1":
            V1(ctx)
        elif w == "V2":
            ctx.floor("V2", V2(ctx), 20, "operations with a branch point")
