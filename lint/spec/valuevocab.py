"""G4 - value provenance (EXPERIMENTAL, NOT ARMED: no check calls G4; see DESIGN.md section 13).  Measured with
selftest/netdiff.py on the 216 applicable behaviour-preserving edits it raised 27 false alarms (12.5 %) after two rounds of
refinement - loop <-> iterator conversions, hoisting and tuple returns change which sub-expressions are visible - so it is kept
as a developer tool only.

G4 - value provenance.  G0-G3 ask *whether* a runtime step or a state write happens; G4 asks *from what* the values involved
are computed.  For every call of one crate-local function by another, per argument position, for every assignment to a field
of a loom type, and for every returned value, the *vocabulary* of the value expression is recorded on the reference tree
(lint/reference.json, "value_vocab"): the loom-local `Adt.field`s it reads (through local helpers, captured variables and
values assembled on several paths), the enum constants, integer constants and arithmetic operators it is built from, the
parameters of the enclosing function it uses and the std operations applied.  A site whose value mentions something the
reference value of that site never mentioned is reported: the shape of "the wrong thread's clock", "the newest instead of the
matching element", "len - 1 instead of len", "Acquire instead of the caller's ordering".  Spelling does not matter: local helpers are
expanded to what they read (naming a helper and writing its body in place give the same vocabulary), comparison direction and
reference / copy / unwrap adaptors are dropped."""
from .common import *
from .guardvocab import _known_adt
from .common import _map_expr

# std adaptors that do not change which value flows (dropped from the vocabulary, their arguments are kept)
TRANSPARENT = {
    "unwrap", "expect", "clone", "as_ref", "as_mut", "deref", "deref_mut", "into", "from", "borrow", "borrow_mut", "to_owned",
    "as_deref", "as_deref_mut", "copied", "cloned", "iter", "iter_mut", "into_iter", "next", "as_slice", "as_mut_slice",
    "unwrap_or_else", "ok", "as_ptr", "as_mut_ptr", "new", "Some", "Ok", "branch", "from_residual", "from_output", "index",
    "index_mut", "get", "get_mut", "get_unchecked", "get_unchecked_mut", "enumerate", "by_ref", "default", "to_string", "collect",
    "eq", "ne", "lt", "le", "gt", "ge", "partial_cmp", "cmp", "unwrap_unchecked", "try_from", "try_into", "unwrap_or_default", "rev",
    "into_inner", "caller", "as_str", "fmt", "to_vec", "map", "and_then", "filter", "is_some", "is_none", "write", "read", "replace", "take",
}
CMP = {"Lt", "Le", "Gt", "Ge", "Eq", "Ne", "Cmp"}
# std operations that do change which value flows (everything else external - iterator adaptors, conversions, formatting - is spelling)
KEEP_EXT = {
    "wrapping_add", "wrapping_sub", "wrapping_mul", "wrapping_neg", "checked_add", "checked_sub", "checked_mul", "saturating_add",
    "saturating_sub", "overflowing_add", "overflowing_sub", "max", "min", "len", "capacity", "first", "last", "front", "back",
    "pop_front", "pop_back", "pop", "first_mut", "last_mut", "front_mut", "back_mut", "swap_remove", "not", "neg", "abs", "rem_euclid",
    "elapsed", "now", "count", "nth", "skip", "take_while", "skip_while", "step_by", "sum", "max_by_key", "min_by_key", "max_by", "min_by",
}


def _short(path):
    """`core::option::Option::<T>::map` -> `Option::map` (generic arguments dropped)."""
    import re
    p = re.sub(r"<[^<>]*>", "", path)
    for _ in range(4):
        p = re.sub(r"<[^<>]*>", "", p)
    segs = [s for s in p.split("::") if s and not s.startswith("{")]
    return "::".join(segs[-2:]) if len(segs) >= 2 else p


def _defs_tokens(prog, key, local, depth, seen, in_callee):
    """Vocabulary of a local assembled from one or several definitions; with several, the conditions that choose between them
    belong to the value (`if c { 1 } else { 0 }` and `c as u64` are the same value)."""
    body = prog.fns[key].body
    out = set()
    ds = [d for d in body.defs().get(local, []) if not body.blocks[d[1]]["cleanup"]]
    for d in ds:
        if d[0] == "stmt" and d[3]["k"] == "=":
            out |= vtokens(prog, key, body.expr_of_rvalue(d[3]["rv"]), depth + 1, seen, in_callee)
        elif d[0] == "call":
            out |= vtokens(prog, key, ("call", callee_path(d[2]), [body.expr_of_operand(a) for a in d[2]["args"]], d[1]),
                           depth + 1, seen, in_callee)
        if len(ds) > 1 and depth < 4:
            for sb in body.control_deps(d[1]):
                out |= vtokens(prog, key, body.expr_of_operand(body.term(sb)["op"]), depth + 2, seen, in_callee)
    return out


def _ret_tokens(prog, key, depth, seen):
    """Vocabulary of the value a local function returns (its arguments are accounted for at the call site)."""
    if key in seen or depth > 4:
        return set()
    f = prog.fns.get(key)
    if f is None or f.j.get("stub"):
        return set()
    return _defs_tokens(prog, key, 0, depth, seen | {key}, True)


def _mark_cparams(e):
    """The closure's own parameters (elements handed in by the caller of the closure) are not the enclosing function's."""
    def f(x):
        if x[0] == "param":
            return ("cparam", x[1], x[2])
        return x
    return _map_expr(e, f)


def vtokens(prog, fn_key, e, depth=0, seen=frozenset(), in_callee=False, raw=False):
    out = set()
    if not isinstance(e, tuple):
        return out
    body = prog.fns[fn_key].body if fn_key in prog.fns else None
    is_closure = fn_key in prog.fns and prog.fns[fn_key].kind == "Closure"
    if not raw:
        if is_closure:
            e = _mark_cparams(e)
        e = deep(prog, fn_key, e)

    def walk(x, under_call):
        if not isinstance(x, tuple):
            return
        k = x[0]
        if k == "field" and x[3] and _known_adt(prog, x[3]):
            out.add("%s.%s" % (x[3], x[2]))
        elif k == "const":
            c = x[1]
            if "variant" in c and not under_call:
                out.add("=" + str(c["variant"]).split("::")[-1])
            elif "int" in c and not in_callee and not under_call:
                try:
                    n = int(c["int"])
                except (TypeError, ValueError):
                    n = None
                if n is not None and 0 < abs(n) < 16:
                    out.add("#%d" % n)
        elif k == "agg" and x[2] and isinstance(x[1], str) and "{closure" not in x[1] and x[2] not in ("Some", "Ok", "None", "Err"):
            if x[1] in prog.adts and prog.adts[x[1]].get("kind") == "enum" and _known_adt(prog, x[1]) and not under_call:
                out.add("=" + str(x[2]).split("::")[-1])
        elif k == "binop":
            op = x[1]
            if op not in CMP and not in_callee:
                out.add("op:" + op.replace("WithOverflow", "").replace("Unchecked", ""))
        elif k == "param" and not in_callee:
            out.add("param:%d" % x[1])
        elif k == "phi" and body is not None and depth < 5:
            out.update(_defs_tokens(prog, fn_key, x[1], depth, seen, in_callee))
        elif k == "call":
            path = x[1]
            last = _short(path).split("::")[-1]
            if last == "next" and "Iterator" in path:
                return          # an element of an iteration: `for x in c { f(x) }` and `c.iter().for_each(|x| f(x))` alike
            if path in prog.fns and prog.fns[path].kind != "Closure":
                out.update(_ret_tokens(prog, path, depth, seen))
            elif last in KEEP_EXT and not in_callee:
                out.add("ext:" + last)
            if depth < 5:
                for a in x[2]:
                    a_ = strip(a) if isinstance(a, tuple) else a
                    if isinstance(a_, tuple) and a_[0] == "agg" and isinstance(a_[1], str) and "{closure#" in a_[1] and a_[1] in prog.fns:
                        out.update(_ret_tokens(prog, a_[1], depth + 1, seen))
            for a in x[2]:
                a_ = strip(a) if isinstance(a, tuple) else a
                if isinstance(a_, tuple) and a_[0] == "agg" and isinstance(a_[1], str) and "{closure#" in a_[1]:
                    continue        # what a closure captures is how it is written
                walk(a, True)
            return
        for y in x[1:]:
            if isinstance(y, tuple):
                walk(y, under_call)
            elif isinstance(y, list):
                for z in y:
                    if isinstance(z, tuple):
                        walk(z, under_call)
    walk(e, False)
    return out


def _same_signature(prog, k):
    """A private function whose parameter list changed is called differently: its call sites are judged by the other rules."""
    from .. import normalize
    ref = (normalize.reference().get("fns") or {}).get(k)
    if ref is None:
        return False
    b = prog.fns[k].body
    cur = [b.locals[l]["ty"] for l in range(1, b.arg_count + 1)]
    return cur == [p_[1] for p_ in ref.get("params", [])]


def value_tables(prog):
    """{site key: sorted vocabulary}; keys: `<fn>-><callee>#<arg>` (arguments of crate-local calls), `<fn>=><Adt.field>`
    (assigned values), `<fn>=>ret` (returned values)."""
    out = {}
    for inst in prog.insts:
        f = prog.fns[inst.key]
        if f.j.get("stub"):
            continue
        body = f.body
        fk = enclosing_fn(inst.key)
        for b, c in inst.calls.items():
            k = prog.callee_key(c)
            if k not in prog.fns or prog.fns[k].kind == "Closure" or prog.fns[k].j.get("stub"):
                continue
            if body.blocks[b]["cleanup"]:
                continue
            t = body.term(b)
            if t["k"] != "call" or is_noise(t):
                continue
            if not _same_signature(prog, k) or fk.endswith("::fmt"):
                continue
            for i, a in enumerate(t["args"]):
                ae = body.expr_of_operand(a)
                sa = strip(ae)
                if sa[0] == "agg" and isinstance(sa[1], str) and "{closure" in sa[1]:
                    continue
                key = "%s->%s#%d" % (fk, k, i)
                out.setdefault(key, set()).update(vtokens(prog, inst.key, ae))
    seen_fn = set()
    for key, f in prog.fns.items():
        if f.j.get("stub") or key in seen_fn:
            continue
        seen_fn.add(key)
        body = f.body
        fk = enclosing_fn(key)
        for b, blk in enumerate(body.blocks):
            if blk["cleanup"]:
                continue
            for st in blk["stmts"]:
                if st["k"] != "=" or is_noise(st) or not st["lhs"]["p"]:
                    continue
                le = body.expr_of_place(st["lhs"])
                if le[0] == "field" and le[3] and _known_adt(prog, le[3]):
                    out.setdefault("%s=>%s.%s" % (fk, le[3], le[2]), set()).update(vtokens(prog, key, body.expr_of_rvalue(st["rv"])))
        if f.kind != "Closure" and body.locals[0]["ty"] not in ("()", "!") and not key.endswith("::fmt"):
            out.setdefault("%s=>ret" % key, set()).update(_ret_tokens(prog, key, 0, frozenset()) |
                                                          {t for t in _own_ret_tokens(prog, key)})
    return {k: sorted(v) for k, v in out.items()}


def _own_ret_tokens(prog, key):
    """Integer constants, operators and parameters of the function's own return expression (not expanded from callees)."""
    return _defs_tokens(prog, key, 0, 0, frozenset(), False)


def G4(ctx, scopes=None):
    """Value provenance: the arguments handed to crate-local functions, the values assigned to fields of loom types and the
    values returned are computed from the loom-local state, constants, operators and parameters they were computed from on the
    reference tree."""
    prog = ctx.prog
    from .. import normalize
    ref = normalize.reference().get("value_vocab")
    if not ref:
        ctx.missing("G4", "reference", "lint/reference.json has no value vocabulary")
        return 0
    note = ("G4 compares the vocabulary (state fields read, constants, operators, parameters) of argument / assigned / returned "
            "values with lint/reference.json (reference tree); it reports a value that is now computed from something else, not a "
            "changed spelling")
    if note not in ctx.notes:
        ctx.notes.append(note)
    cur = getattr(prog, "_value_tables", None)
    if cur is None:
        cur = prog._value_tables = value_tables(prog)
    n = 0
    for key, toks in sorted(cur.items()):
        if key not in ref:
            continue
        fk = key.split("->")[0].split("=>")[0]
        if scopes is not None and not any(fk.startswith(s_) for s_ in scopes):
            continue
        n += 1
        allowed = set(ref[key])
        new = [t for t in toks if t not in allowed]
        if new:
            what = key[len(fk):]
            ctx.bad("G4", fk, "in %s the value %s is now computed from `%s`, which it was not on the reference tree" %
                    (fk, _describe(what), new[0]), prog.fns[fk].loc() if fk in prog.fns else None, detail="%s:%s" % (what.lstrip("-=>"), new[0]))
    ctx.ok("G4", "value-vocabulary", "%d value sites use only their reference vocabulary" % n, [])
    return n


def _describe(what):
    if what.startswith("->"):
        callee, i = what[2:].rsplit("#", 1)
        return "passed as argument %s to %s" % (i, callee.split("::")[-1])
    if what == "=>ret":
        return "returned"
    return "assigned to `%s`" % what[2:]
