"""C04 rules R1 (every unsynchronised-access API passes through its tracker) and R2 (conflict matrix of the trackers)."""
from .common import *

AST = "rt::atomic::State"
CST = "rt::cell::State"
VVP = "rt::vv::VersionVec"

R1_ROWS = [
    # (entry point, tracker(s) that must be passed on every normal path)
    ("cell::unsafe_cell::UnsafeCell::<T>::with", ["rt::cell::State::track_read"]),
    ("cell::unsafe_cell::UnsafeCell::<T>::get", ["rt::cell::State::track_read"]),
    ("cell::unsafe_cell::UnsafeCell::<T>::with_mut", ["rt::cell::State::track_write"]),
    ("cell::unsafe_cell::UnsafeCell::<T>::get_mut", ["rt::cell::State::track_write"]),
    ("rt::cell::Cell::start_read", ["rt::cell::State::track_read"]),
    ("rt::cell::Cell::start_write", ["rt::cell::State::track_write"]),
    ("rt::atomic::Atomic::<T>::new", ["rt::atomic::State::track_unsync_mut"]),
    ("rt::atomic::Atomic::<T>::load", ["rt::atomic::State::track_load"]),
    ("rt::atomic::Atomic::<T>::store", ["rt::atomic::State::track_store"]),
    ("rt::atomic::Atomic::<T>::rmw", ["rt::atomic::State::track_load"]),
    ("rt::atomic::Atomic::<T>::unsync_load", ["rt::atomic::State::track_unsync_load"]),
    ("rt::atomic::Atomic::<T>::with_mut", ["rt::atomic::State::track_unsync_mut"]),
    ("sync::atomic::int::AtomicUsize::into_inner", ["rt::atomic::State::track_unsync_load"]),
    ("sync::atomic::bool::AtomicBool::into_inner", ["rt::atomic::State::track_unsync_load"]),
    ("sync::atomic::ptr::AtomicPtr::<T>::into_inner", ["rt::atomic::State::track_unsync_load"]),
]


def R1(ctx):
    """Every unsynchronised-access API (UnsafeCell with/with_mut/get/get_mut, atomic new/load/store/rmw/unsync_load/with_mut/
    into_inner) passes through its race tracker on every normal path; guards re-track on drop unless panicking; the store half
    of an RMW is tracked on the Ok arm."""
    prog = ctx.prog
    n = 0
    for (fk, trackers) in R1_ROWS:
        root = prog.ident(fk)
        if root is None:
            ctx.missing("R1", fk)
            continue
        n += 1
        ea = EventAnalysis(prog, path_matcher({t: t for t in trackers})).solve([root])
        ctx.touch(fk, len(ea.sub))
        miss = [t for t in trackers if not (ea.holds_on_all_paths(root, t) and t in ea.may.get(root, ()))]
        if miss:
            ctx.bad("R1", fk, "%s can complete without passing %s: the access is invisible to the race detector" % (fk, miss), prog.fns[fk].loc())
        else:
            ctx.ok("R1", fk, "passes %s on every path" % ", ".join(t.split("::")[-1] for t in trackers), [prog.fns[fk].loc()])
    # guards re-track on drop (unless panicking): Reading, Writing, with_mut::Reset
    for (dk, tracker) in (("<rt::cell::Reading as std::ops::Drop>::drop", "rt::cell::State::track_read"),
                          ("<rt::cell::Writing as std::ops::Drop>::drop", "rt::cell::State::track_write"),
                          ("<rt::atomic::Atomic<T>::with_mut::Reset<T> as std::ops::Drop>::drop", "rt::atomic::State::track_unsync_mut")):
        root = prog.ident(dk)
        if root is None:
            ctx.missing("R1", dk)
            continue
        n += 1
        ea = EventAnalysis(prog, path_matcher({"t": tracker}), assume=assume_scenario(prog, {"std::thread::panicking": False})).solve([root])
        if ea.holds_on_all_paths(root, "t") and "t" in ea.may.get(root, ()):
            ctx.ok("R1", dk, "re-tracks the access at the end of its scope (when not panicking)", [prog.fns[dk].loc()])
        else:
            ctx.bad("R1", dk, "the end of the access scope is not re-tracked: an access of another thread that started inside the scope "
                    "is not ordered against its end", prog.fns[dk].loc())
    # RMW: store half tracked exactly on the Ok arm
    fk = "rt::atomic::State::rmw"
    fn = prog.fn(fk)
    if fn is not None:
        n += 1
        inst = prog.ident(fk)
        ts = [b for (b, t, c) in prog.sites(inst) if prog.callee_key(c) == "rt::atomic::State::track_store"]
        stores = [b for (b, t, c) in prog.sites(inst) if prog.callee_key(c) == "rt::atomic::State::store"]
        dom = fn.body.dominators()
        ok = len(ts) == 1 and stores and all(ts[0] in dom[s] for s in stores)
        # not on the Err arm
        for b in range(fn.body.n):
            t = fn.body.term(b)
            if t["k"] == "switch":
                e = fn.body.expr_of_operand(t["op"])
                if e[0] == "discr" and e[3] and {x for _, x in e[3]} == {"Ok", "Err"}:
                    edges = switch_edges_by_variant(prog, t, e)
                    if ts and ts[0] in fn.body.reachable(edges["Err"]) and ts[0] not in fn.body.reachable(edges["Ok"]):
                        ok = False
                    if ts and ts[0] in fn.body.reachable(edges["Err"]) and edges["Err"] != edges["Ok"] and \
                            ts[0] in (fn.body.reachable(edges["Err"]) - fn.body.reachable(edges["Ok"])):
                        ok = False
        if ok:
            ctx.ok("R1", fk + ":store-half", "track_store before the store on the Ok arm", [site_str(prog, fk, ts[0])])
        else:
            ctx.bad("R1", fk, "the store half of a successful RMW must be tracked (track_store) before it is performed", fn.loc(), detail="store-half")
    ctx.floor("R1", n, 19, "15 entry points + 3 scope guards + rmw store half")


def _tracker_profile(prog, fk, adt):
    """(clocks compared with ahead(), clock joined, [(ahead site, panics with Causality violation?)])"""
    fn = prog.fns[fk]
    inst = prog.ident(fk)
    body = fn.body
    checks = {}
    joins = set()
    for (b, t, c) in prog.sites(inst):
        k = prog.callee_key(c)
        if k == VVP + "::ahead":
            f = None
            for x in subexprs(arg_expr(body, t, 1)):
                if x[0] == "field" and x[3] == adt:
                    f = x[2]
            cur = canon(arg_expr(body, t, 0))
            if f:
                # the Some edge reaches a `location::panic("Causality violation...").fire()`
                fires = False
                msg = ""
                for b2 in body.reachable(b):
                    t2 = body.term(b2)
                    if t2["k"] == "call" and callee_path(t2) == "rt::location::panic":
                        m = canon(arg_expr(body, t2, 0))
                        if "Causality violation" in m:
                            msg = m
                    if t2["k"] == "call" and callee_path(t2) == "rt::location::PanicBuilder::fire":
                        fires = True
                checks[f] = (b, fires and bool(msg), "causality" in cur)
        if k == VVP + "::join":
            for x in subexprs(arg_expr(body, t, 0)):
                if x[0] == "field" and x[3] == adt:
                    if "causality" in canon(arg_expr(body, t, 1)):
                        joins.add(x[2])
    return checks, joins


R2_SPEC = {
    AST: {
        "trackers": {"load": AST + "::track_load", "unsync_load": AST + "::track_unsync_load", "store": AST + "::track_store",
                     "unsync_mut": AST + "::track_unsync_mut"},
        # data-race definition: conflicting = at least one side is a non-atomic (unsync) access and at least one side mutates;
        # atomic/atomic pairs and read/read pairs are compatible
        "conflicts": {("load", "unsync_mut"), ("unsync_load", "store"), ("unsync_load", "unsync_mut"), ("store", "unsync_mut"),
                      ("unsync_mut", "unsync_mut")},
    },
    CST: {
        "trackers": {"read": CST + "::track_read", "write": CST + "::track_write"},
        "conflicts": {("read", "write"), ("write", "write")},
    },
}


def R2(ctx):
    """Conflict-matrix symmetry: tracker X compares the current clock against the clock that tracker Y joins iff (X, Y) is a
    conflicting pair of the data-race definition; every tracker joins its own clock; every comparison leads to the documented
    `Causality violation` panic."""
    prog = ctx.prog
    for adt, spec in R2_SPEC.items():
        prof = {}
        for nm, fk in spec["trackers"].items():
            if prog.fn(fk) is None:
                ctx.missing("R2", fk)
                continue
            prof[nm] = _tracker_profile(prog, fk, adt)
            ctx.touch(fk, len(prof[nm][0]))
        if len(prof) != len(spec["trackers"]):
            continue
        own = {}
        for nm, (checks, joins) in prof.items():
            if len(joins) != 1:
                ctx.bad("R2", spec["trackers"][nm], "tracker must join the current clock into exactly one access clock of its own (joins %s)" % sorted(joins),
                        prog.fns[spec["trackers"][nm]].loc(), detail="own-clock")
            else:
                own[nm] = list(joins)[0]
        if len(own) != len(prof):
            continue
        if len(set(own.values())) != len(own):
            ctx.bad("R2", adt, "two trackers share one access clock: %s" % own, detail="shared-clock")
            continue
        by_clock = {v: k for k, v in own.items()}
        conf = {tuple(p) for p in spec["conflicts"]} | {(b, a) for (a, b) in spec["conflicts"]}
        for x in prof:
            checks, joins = prof[x]
            for y in prof:
                want = (x, y) in conf
                got = own[y] in checks
                name = "%s:%s-vs-%s" % (adt.split("::")[-2], x, y)
                if want and got:
                    b, fires, cur = checks[own[y]]
                    if fires and cur:
                        ctx.ok("R2", name, "conflict checked against %s and reported as Causality violation" % own[y], [site_str(prog, spec["trackers"][x], b)])
                    else:
                        ctx.bad("R2", spec["trackers"][x], "the %s-vs-%s conflict is detected but not reported with the documented `Causality violation` panic "
                                "(or not against the thread's causality)" % (x, y), site_str(prog, spec["trackers"][x], b), detail="%s-%s-report" % (x, y))
                elif want and not got:
                    ctx.bad("R2", spec["trackers"][x], "a %s does not check the %s clock (%s): a %s racing with an earlier %s is not reported" %
                            (x, y, own[y], x, y), prog.fns[spec["trackers"][x]].loc(), detail="%s-%s" % (x, y))
                elif got and not want:
                    ctx.bad("R2", spec["trackers"][x], "a %s checks the %s clock (%s) although %s/%s accesses do not conflict: correct programs are "
                            "reported as racy" % (x, y, own[y], x, y), prog.fns[spec["trackers"][x]].loc(), detail="%s-%s-extra" % (x, y))
                else:
                    ctx.ok("R2", name, "compatible pair, not compared", [prog.fns[spec["trackers"][x]].loc()])
            stray = set(checks) - set(own.values())
            if stray:
                ctx.bad("R2", spec["trackers"][x], "compares against clock(s) %s that no tracker maintains" % sorted(stray), detail="stray")
