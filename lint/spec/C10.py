"""C10 - leaks are reported exactly at the end of every execution (structural clauses only)."""
from . import leaks
from .common import *

EXPLANATION = ("Decides on the MIR of the current tree: every iteration runs the leak scan between scheduler.run and execution.step (K1), the scan "
               "dispatches to every object kind that defines a leak check and visits every entry (K2), the three leak predicates and their "
               "documented panic messages (K3), the writers of the counters the predicates read - Arc ref_cnt, Allocation.is_dropped, channel "
               "msg_cnt, raw allocation registry and alloc/dealloc pairing (K4) - and that lazy statics are destroyed outside the execution "
               "borrow before the main thread finishes (K5). Whether a schedule-dependent leak is *found* depends on exploration (C01)."
               " The leak scan of an execution is unconditional (K2b); from_std creates the modelled Arc only after its rejecting check (K6); a message refused by the std channel is not counted (Q5); how an allocation is marked released is read off the writers (K3/K4); G0/G1 cross-check leak-scan and reference counting.")
RULE_TEXT = "rule instances = iteration steps, dispatch arms, predicate functions, counter writers; non-trivial when matched to concrete MIR"
LEVEL_NOTE = "necessary conditions only"


def run(ctx):
    from . import guardvocab
    guardvocab.G0(ctx, effects={'leak-scan', 'ref-dec', 'ref-inc'})
    guardvocab.G1(ctx, effects={'leak-scan', 'ref-dec', 'ref-inc'})
    guardvocab.G2(ctx, scopes=('rt::arc::', 'rt::alloc::', '<rt::alloc::'))
    guardvocab.G3(ctx, scopes=('rt::arc::', 'rt::alloc::', '<rt::alloc::'))
    leaks.K1(ctx)
    leaks.K2(ctx)
    leaks.K2b(ctx)
    leaks.K6(ctx)
    leaks.K3(ctx)
    leaks.K4_refcnt(ctx)
    leaks.K4_alloc(ctx)
    from .C09 import Q1, Q4, Q5
    Q1(ctx)
    Q4(ctx)
    Q5(ctx)
    from . import g_dpor
    g_dpor.V3(ctx, subset=("rt::arc",))
    leaks.K5(ctx)
    from . import arcrules
    arcrules.arc_drop_decrements(ctx, rule="K4")
