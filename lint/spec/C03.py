"""C03 - every explored execution is C11-consistent (thin: missing-edge direction only)."""
from . import g_sync
from .common import *

EXPLANATION = ("Decides on the MIR of the current tree the 'missing edge' direction only: atomic rows of the happens-before inventory (Y1: store/"
               "load/rmw synchronise with the caller's ordering, rmw Ok/Err arms), ordering tables (Y3, Y4), presence and order of the coherence "
               "bookkeeping steps in State::load/store/rmw (M1), RMW candidate selection and release-sequence inheritance (M2) and the writers of "
               "the per-store clocks (M3). That the vector-clock encoding of modification order is consistent is NOT decided - the two defects "
               "named in the property (stale read of an overwritten value, lost RMW atomicity) are outside static reach (DESIGN.md section 6).")
RULE_TEXT = "rule instances = bookkeeping events and table cells; non-trivial when matched to concrete MIR sites"
LEVEL_NOTE = "thin claim: necessary structural conditions; the known C03 defects of the pinned tree are not detectable by these rules"


def run(ctx):
    from . import guardvocab
    guardvocab.G0(ctx, effects={'release', 'join', 'acquire'})
    guardvocab.G1(ctx, effects={'release', 'join', 'acquire'})
    guardvocab.G2(ctx, scopes=('rt::atomic::', 'rt::synchronize::', 'rt::vv::'))
    guardvocab.G3(ctx, scopes=('rt::atomic::', 'rt::synchronize::', 'rt::vv::', 'sync::atomic::'))
    g_sync.run_all(ctx, ["Y1:atomic", "Y3", "Y4", "O5"])
    from . import atomics
    atomics.M1(ctx)
    atomics.M2(ctx)
    atomics.M3(ctx)
    atomics.M4(ctx)
    atomics.M5(ctx)
    atomics.R1(ctx)
    atomics.N5(ctx)
    atomics.M5b(ctx)
    atomics.M6(ctx)
