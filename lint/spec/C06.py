"""C06 - a failure fails the model run, and only then (structural clauses only)."""
from . import deny, pathrules
from .common import *

EXPLANATION = ("Decides on the MIR of the current tree: no construct that swallows/aborts a panic exists in the crate (P1, deny-list with "
               "positive control); every destructor of a loom handle tolerates an execution that has no active thread, i.e. the state in which "
               "a deadlock panic unwinds through user guards (P2); loom's own diagnostics are not raised from destructors while panicking (P3); "
               "no value owning user closures is destroyed outside the model scope on the unwind path of Scheduler::tick (P4); process-level "
               "mutable state is exactly the inventoried statics (P5). Behaviour of the `generator` crate and panics at every point of user code "
               "are not decided."
               " Scheduler::switch always suspends (P6); G0/G1 cross-check switch and thread_done.")
RULE_TEXT = ("rule instances = Drop impls x reachable accessor paths (P2/P3), denied callees (P1), cleanup drops of tick (P4), statics (P5); "
             "non-trivial when a concrete MIR site / item was matched")
LEVEL_NOTE = "necessary conditions only; generator/scoped-tls behaviour trusted"

DEAD = {"rt::thread::Set::is_active": False, "std::thread::panicking": True}


def unwrapping_accessors(prog):
    """Functions of `impl thread::Set` that unwrap `self.active` (panic when no thread is active)."""
    out = set()
    for k, fn in prog.fns.items():
        if fn.j.get("impl_adt") != SET:
            continue
        inst = prog.ident(k)
        for (b, t, c) in prog.sites(inst):
            ck = prog.callee_key(c)
            if ck in ("std::option::Option::<T>::unwrap", "std::option::Option::<T>::expect"):
                if mentions_field(arg_expr(fn.body, t, 0), SET, "active"):
                    out.add(k)
    return out


def drop_impls(prog):
    return sorted(k for k, fn in prog.fns.items() if fn.j.get("impl_trait") == "std::ops::Drop" and fn.kind == "AssocFn")


def reach_under(prog, root, assume, targets, stop_at=None):
    """Path-sensitive (per body) reachability from instance `root` to any instance whose def is in `targets`.
    Returns the first witness chain [(inst_key, bb)...] or None."""
    seen = set()
    stack = [(root, [])]
    while stack:
        i, chain = stack.pop()
        if i in seen:
            continue
        seen.add(i)
        body = prog.body_of(i)
        reached, _ = PEval(body, assume).run()
        for b in sorted(reached):
            t = body.term(b)
            if t["k"] in ("call", "tailcall"):
                if is_noise(t):
                    continue
                tg = [x for x, _ in prog.call_targets(i, b)]
            elif t["k"] == "drop":
                tg = prog.drop_targets(i, b)
            else:
                continue
            for ti in tg:
                key = prog.insts[ti].key
                step = chain + [(prog.insts[i].key, b)]
                if key in targets:
                    return step + [(key, None)]
                if stop_at and key in stop_at:
                    continue
                stack.append((ti, step))
    return None


def P1(ctx):
    """Deny-list (with positive control): no catch_unwind / resume_unwind / process::abort|exit anywhere in the crate."""
    prog = ctx.prog
    pred = lambda k: k in deny.P1_DENY
    if not deny.check_controls(ctx, "P1", pred, ["p1_catch_unwind", "p1_resume_unwind", "p1_abort", "p1_exit"]):
        return
    hits = deny.find_denied_calls(prog, pred)
    for (k, b, callee) in hits:
        ctx.bad("P1", enclosing_fn(k), "%s is called: %s" % (callee, deny.P1_DENY[callee]), site_str(prog, k, b), detail=callee)
    if not hits:
        n = sum(len(i.calls) for i in prog.insts)
        ctx.ok("P1", "crate", "none of %s among %d resolved call sites" % (sorted(deny.P1_DENY), n), ["crate-wide scan: %d call sites" % n])
        ctx.analysed_sites += n


def P2(ctx):
    """Every Drop impl tolerates a dead execution: no path to an accessor unwrapping `active` when is_active()=false and panicking()=true."""
    prog = ctx.prog
    acc = unwrapping_accessors(prog)
    ctx.floor("P2-accessors", len(acc), 6, "active_id, active, active_mut, active2_mut, split_active, seq_cst_fence")
    drops = drop_impls(prog)
    ctx.floor("P2", len(drops), 9, "9 Drop impls of loom handles/guards")
    for d in drops:
        root = prog.ident(d)
        ctx.touch(d, 1)
        w = reach_under(prog, root, assume_scenario(prog, DEAD), acc)
        if w is None:
            ctx.ok("P2", d, "no path to an accessor that unwraps `active` when the execution is dead (is_active()=false, panicking()=true)",
                   [prog.fns[d].loc()])
        else:
            chain = " -> ".join(k for k, _ in w)
            ctx.bad("P2", d, "destructor reaches %s without a guard on threads.is_active() / !panicking(): after a deadlock report (no active "
                    "thread) unwinding through this value panics again and aborts the process; path: %s" % (w[-1][0], chain),
                    site_str(prog, w[0][0], w[0][1]), extra=dict(path=w))


def P2_wrapper(ctx):
    """Validates the model `rt::execution(f)` / `rt::synchronize(f)` return f's result (used to see guards of the form
    `if !rt::execution(|e| e.threads.is_active()) { return }`)."""
    prog = ctx.prog
    chain = {
        "rt::execution": "rt::scheduler::Scheduler::with_execution",
        "rt::scheduler::Scheduler::with_execution": "rt::scheduler::Scheduler::with_state",
        "rt::scheduler::Scheduler::with_state": "scoped_tls::ScopedKey::<T>::with",
        "rt::synchronize": "rt::execution",
    }
    for fk, callee in chain.items():
        fn = need_fn(ctx, "P2-wrapper", fk)
        if fn is None:
            continue
        e = strip(fn.body.expr_of_local(0))
        ok = e[0] == "call" and e[1] == callee
        if ok:
            # the closure handed on calls (and returns the result of) the caller's own closure parameter
            passes = False
            for a in e[2]:
                a = strip(a)
                if a[0] == "param":
                    passes = True
                if a[0] == "agg" and isinstance(a[1], str) and a[1] in prog.fns:
                    ce = strip(prog.fns[a[1]].body.expr_of_local(0))
                    if ce[0] == "call" and ce[1].endswith("FnOnce::call_once"):
                        passes = True
            ok = passes
        if ok:
            ctx.ok("P2-wrapper", fk, "returns the result of its closure via %s" % callee.split("::")[-1], [fn.loc()])
        else:
            ctx.bad("P2-wrapper", fk, "%s no longer simply returns its closure's result: guards written through it cannot be trusted" % fk, fn.loc())


def P3(ctx):
    """Loom's own diagnostics and the branch-capacity assertion are not raised from destructors while panicking."""
    prog = ctx.prog
    fire = {"rt::location::PanicBuilder::fire"}
    n = 0
    for d in drop_impls(prog):
        root = prog.ident(d)
        w_any = reach_under(prog, root, None, fire)
        if w_any is None:
            continue
        n += 1
        w = reach_under(prog, root, assume_scenario(prog, {"std::thread::panicking": True}), fire)
        if w is None:
            ctx.ok("P3", d, "diagnostics (PanicBuilder::fire) reachable only when not panicking", [prog.fns[d].loc()])
        else:
            ctx.bad("P3", d, "destructor can raise a loom diagnostic while the thread is already panicking (double panic => abort); path: %s" %
                    " -> ".join(k for k, _ in w), site_str(prog, w[0][0], w[0][1]))
    ctx.floor("P3", n, 3, "cell::Reading, cell::Writing, with_mut::Reset")
    # branch-capacity assertion: must be short-circuited while panicking (branches happen in destructors)
    m = 0
    for k, fn in prog.fns.items():
        if not k.startswith("rt::path::Path::"):
            continue
        body = fn.body
        for b in range(body.n):
            t = body.term(b)
            if t["k"] == "call" and exp_has(t, "assert_path_len") and callee_path(t) == "core::panicking::panic_fmt":
                m += 1
                if unreachable_if(body, b, assume_calls({"std::thread::panicking": True})):
                    ctx.ok("P3", k + ":assert_path_len", "capacity assertion skipped while panicking", [site_str(prog, k, b)])
                else:
                    ctx.bad("P3", k, "the branch-capacity assertion fires even while panicking (double panic in Drop impls that branch)",
                            site_str(prog, k, b), detail="assert_path_len")
    ctx.floor("P3-capacity", m, 3, "push_load, branch_spurious, branch_thread")
    # independent of the macro: any panic reachable between entry and the insertion of a branch must be skipped while panicking
    for m_ in ("push_load", "branch_spurious", "branch_thread"):
        k = "rt::path::Path::" + m_
        fn = prog.fn(k)
        if fn is None:
            continue
        body = fn.body
        inst = prog.ident(k)
        ins = [b for (b, t, c) in prog.sites(inst) if prog.callee_key(c) == "rt::object::Store::<T>::insert"]
        dom = body.dominators()
        for (pb, msg) in panic_sites(prog, k):
            # panics that can fire before the insertion (capacity-style guards)
            if any(pb not in body.reachable(i) for i in ins) and any(sb in dom[i] for i in ins for (e, pol, v, sb) in guard_atoms(body, pb)
                                                                    if e[0] == "binop" and ("capacity" in canon(e) or pathrules._is_limit_test(e))):
                if unreachable_if(body, pb, assume_calls({"std::thread::panicking": True})):
                    ctx.ok("P3", k + ":capacity-guard", "capacity panic skipped while panicking", [site_str(prog, k, pb)])
                else:
                    ctx.bad("P3", k, "a capacity assertion before the branch insertion fires even while the thread is panicking: loom "
                            "operations in destructors then double-panic and abort the process", site_str(prog, k, pb), detail="capacity-guard")


def P4(ctx):
    """No value owning user closures is dropped by the cleanup reached from the unwind edge of STATE.set in Scheduler::tick."""
    prog = ctx.prog
    k = "rt::scheduler::Scheduler::tick"
    fn = need_fn(ctx, "P4", k)
    if fn is None:
        return
    body = fn.body
    inst = prog.ident(k)
    sets = [(b, t) for (b, t, c) in prog.sites(inst) if prog.callee_key(c).startswith("scoped_tls::ScopedKey::<T>::set")]
    if not sets:
        ctx.missing("P4", k, "the STATE.set(..) scope is not established here")
        return
    for (b, t) in sets:
        uw = t.get("unwind")
        if not isinstance(uw, int):
            ctx.ok("P4", k, "no cleanup on the unwind edge of STATE.set", [site_str(prog, k, b)])
            continue
        cleanup = body.reachable(uw, unwind=True)
        bad = []
        for cb in sorted(cleanup):
            ct = body.term(cb)
            if ct["k"] == "drop":
                g = prog.insts[inst].drops.get(cb, {})
                if g.get("opaque") or "QueuedSpawn" in ct["ty"] or "dyn " in ct["ty"]:
                    bad.append((cb, ct["ty"], g.get("opaque")))
        if bad:
            ctx.bad("P4", k, "on the unwind edge of STATE.set (every user panic leaves through it) a value that can own user closures is "
                    "dropped outside the model scope: %s - loom handles captured by a not-yet-started thread are destroyed without an "
                    "execution (panic in destructor during unwinding => abort)" % "; ".join("%s" % ty for _, ty, _ in bad),
                    site_str(prog, k, bad[0][0]))
        else:
            ctx.ok("P4", k, "cleanup after a panic in the scope drops no user-owned closures", [site_str(prog, k, b)])


def P4b(ctx):
    """Every coroutine created by Scheduler::run is resumed once (primed) before anything else can run: priming moves the thread's
    closure from the generator's parameter slot onto the coroutine stack.  A closure left in the slot is destroyed by the drop glue
    of the `threads` vector when another thread's panic unwinds run() - outside the model scope (see P4)."""
    prog = ctx.prog
    fk = "rt::scheduler::Scheduler::run"
    fn = need_fn(ctx, "P4b", fk)
    if fn is None:
        return
    inst = prog.ident(fk)
    ea = EventAnalysis(prog, lambda p_, i, b, t, c: (["resume"] if p_.callee_key(c).endswith("::resume") and "generator::" in p_.callee_key(c) else
                                                     (["tick"] if p_.callee_key(c) == "rt::scheduler::Scheduler::tick" else [])),
                       stop=lambda i: prog.insts[i].key != fk).solve([inst])
    spawns = [b for (b, t, c) in prog.sites(inst) if prog.callee_key(c) == "rt::scheduler::spawn_thread" and not fn.body.blocks[b]["cleanup"]]
    if len(spawns) < 2:
        ctx.missing("P4b", fk, "expected the main-thread and the queued-spawn coroutine creation")
        return
    body = fn.body
    # priming done by the creating function itself: in spawn_thread, handing over the closure (`set_para`) is followed by a resume on
    # every path to its return
    sk = "rt::scheduler::spawn_thread"
    sfn = prog.fn(sk)
    if sfn is not None:
        sb_ = sfn.body
        sets = [b for (b, t, c) in prog.sites(prog.ident(sk)) if prog.callee_key(c).endswith("::set_para")]
        res_ = set(b for (b, t, c) in prog.sites(prog.ident(sk)) if prog.callee_key(c).endswith("::resume") and "generator::" in prog.callee_key(c))
        if sets and all(not any(sb_.term(x)["k"] == "return" for x in sb_.reachable(s_, blocked=res_ - {s_})) for s_ in sets):
            for sb in spawns:
                ctx.ok("P4b", "%s:spawn@bb%d" % (fk, sb), "spawn_thread primes the coroutine itself (set_para is followed by resume)", [site_str(prog, fk, sb)])
            return
    for sb in spawns:
        # from the spawn, a resume is passed before the next tick / before returning
        resume_blocks = set(ea.sites_may(inst, "resume"))
        tick_blocks = set(ea.sites_may(inst, "tick"))
        seen = set()
        dq = list(body.succs(sb))
        bad = False
        while dq:
            x = dq.pop()
            if x in seen or x in resume_blocks:
                continue
            seen.add(x)
            if x in tick_blocks or body.term(x)["k"] == "return" or x in spawns:
                bad = True
                break
            dq.extend(body.succs(x))
        if bad:
            ctx.bad("P4b", fk, "a coroutine is created but not resumed (primed) before the scheduler goes on: until its first tick the thread's "
                    "closure stays in the generator's parameter slot and is destroyed outside the model scope if another thread panics",
                    site_str(prog, fk, sb))
        else:
            ctx.ok("P4b", "%s:spawn@bb%d" % (fk, sb), "spawn_thread is followed by resume() before the next tick", [site_str(prog, fk, sb)])


ALLOWED_STATICS = ("rt::execution::Id::new::NEXT_ID", "rt::scheduler::STATE")


def P5(ctx):
    """Process-level mutable state is exactly the inventoried statics (NEXT_ID, scoped STATE)."""
    prog = ctx.prog
    n = 0
    for s in prog.statics:
        nm = s["path"].split("::")[-1].split("#")[0]
        if nm in ("__CALLSITE", "META"):
            continue   # tracing call-site caches: logging infrastructure
        stateful = (not s["freeze"]) or s["thread_local"] or s["mutable"]
        if not stateful:
            continue
        n += 1
        if s["path"].startswith(ALLOWED_STATICS):
            ctx.ok("P5", s["path"], "inventoried process-level state (%s)" % s["ty"][:60], ["%s:%s" % (s["file"], s["line"])])
        else:
            ctx.bad("P5", s["path"], "new process-level mutable state `%s: %s`: it survives a model run and can leak into a later one" %
                    (s["path"], s["ty"]), "%s:%s" % (s["file"], s["line"]))
    ctx.floor("P5", n, 2, "NEXT_ID and the scoped STATE key")
WITNESSES = ['C06ModelNeedsFn', 'C06ModelNeedsSendSync']


def P6(ctx):
    """Scheduler::switch always suspends the coroutine: after Execution::schedule picked another thread, the current one must not
    keep running (no early return, e.g. while panicking) - otherwise a blocking operation in a destructor finds its wait
    condition unmet and panics a second time during unwinding."""
    prog = ctx.prog
    fk = "rt::scheduler::Scheduler::switch"
    fn = need_fn(ctx, "P6", fk)
    if fn is None:
        return
    inst = prog.ident(fk)
    body = fn.body
    polls = [b for (b, t, c) in prog.sites(inst) if callee_path(t).endswith("Future::poll") or "yield_with" in callee_path(t)]
    if polls and every_path_passes(body, polls):
        ctx.ok("P6", fk, "the suspending poll is on every path", [site_str(prog, fk, polls[0])])
    else:
        ctx.bad("P6", fk, "Scheduler::switch can return without suspending the coroutine: the thread keeps running after the scheduler "
                "chose another one", fn.loc(), detail="no-suspend")


def run(ctx):
    from . import guardvocab
    guardvocab.G3(ctx, scopes=('thread::', 'rt::scheduler::', 'model::'))
    guardvocab.G0(ctx, effects={'thread-done', 'switch'})
    guardvocab.G1(ctx, effects={'thread-done', 'switch'})
    P6(ctx)
    P1(ctx)
    P2_wrapper(ctx)
    P2(ctx)
    P3(ctx)
    P4(ctx)
    P4b(ctx)
    from . import round6
    round6.P4c(ctx)
    P5(ctx)
    # the thread limit fails inside the model (Set::new_thread), before the scheduler outside the model would notice it
    from . import pathrules
    pathrules.B4(ctx)
    pathrules.B4b(ctx)
