//! KF-J triage (run by hand; one process per configuration because exceeding the limit may abort during unwinding):
//!   branch_limit_resume <max_branches> <extra> [<checkpoint file> [<max_permutations> [<pre>]]]
//! exit status 0 = the model run completed, anything else = it failed (panic / abort).
use loom::sync::atomic::{AtomicUsize, Ordering::*};
use loom::sync::Arc;
use loom::thread;

fn main() {
    let a: Vec<String> = std::env::args().collect();
    let max_branches: usize = a[1].parse().unwrap();
    let extra: usize = a[2].parse().unwrap();
    let mut b = loom::model::Builder::new();
    b.max_branches = max_branches;
    if let Some(f) = a.get(3) {
        if f != "-" {
            b.checkpoint_file(f);
            b.checkpoint_interval = 1;
        }
    }
    if let Some(p) = a.get(4) {
        b.max_permutations = Some(p.parse().unwrap());
    }
    let pre: usize = a.get(5).map(|p| p.parse().unwrap()).unwrap_or(0);
    b.check(move || {
        let x = Arc::new(AtomicUsize::new(0));
        let x2 = x.clone();
        let t = thread::spawn(move || x2.store(1, Relaxed));
        // a long common prefix, so that the stored path is long when the interesting alternative is the last one
        let y = AtomicUsize::new(0);
        for _ in 0..pre {
            y.load(Relaxed);
        }
        // default schedule: main runs first and reads 0 (shallow execution); later executions read 1 and go deeper
        if x.load(Relaxed) == 1 {
            for _ in 0..extra {
                x.load(Relaxed);
            }
        }
        t.join().unwrap();
    });
}
