use loom::sync::atomic::{AtomicUsize, Ordering::*};
use loom::sync::Arc;
use loom::thread;
use std::collections::BTreeSet;
use std::sync::Mutex as StdMutex;
fn outcomes<R: Ord + Clone + Send + 'static + std::fmt::Debug>(f: impl Fn() -> R + Sync + Send + 'static) -> BTreeSet<R> {
    let set = std::sync::Arc::new(StdMutex::new(BTreeSet::new()));
    let s2 = set.clone();
    loom::model(move || { let r = f(); s2.lock().unwrap().insert(r); });
    let r = set.lock().unwrap().clone(); r
}
#[test]
fn c03_stale_final() {
    let o = outcomes(|| {
        let y = Arc::new(AtomicUsize::new(0));
        let y0 = y.clone(); let y1 = y.clone();
        let t0 = thread::spawn(move || { y0.store(1, Relaxed); y0.store(2, Relaxed); });
        let t1 = thread::spawn(move || { y1.store(3, Relaxed); y1.load(Relaxed) });
        t0.join().unwrap(); let r = t1.join().unwrap();
        (r, y.load(Relaxed))
    });
    println!("c03_stale_final finals={:?}", o.iter().map(|x| x.1).collect::<BTreeSet<_>>());
}
#[test]
fn c03_rmw_atomicity() {
    let o = outcomes(|| {
        let x = Arc::new(AtomicUsize::new(0));
        let x0 = x.clone();
        let t0 = thread::spawn(move || { x0.store(1, Relaxed); });
        let s = x.swap(2, Relaxed);
        t0.join().unwrap();
        (s, x.load(Relaxed))
    });
    println!("c03_rmw_atomicity {:?}", o);
}
