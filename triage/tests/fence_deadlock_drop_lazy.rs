use loom::sync::atomic::{fence, AtomicUsize, Ordering::*};
use loom::sync::{Arc, Mutex};
use loom::thread;
use std::collections::BTreeSet;
use std::rc::Rc;
use std::sync::Mutex as StdMutex;

fn outcomes<R: Ord + Clone + Send + 'static + std::fmt::Debug>(f: impl Fn() -> R + Sync + Send + 'static) -> BTreeSet<R> {
    let set = std::sync::Arc::new(StdMutex::new(BTreeSet::new()));
    let s2 = set.clone();
    loom::model(move || { let r = f(); s2.lock().unwrap().insert(r); });
    let r = set.lock().unwrap().clone(); r
}

// KF-D
#[test]
fn fence_acq_through_other_threads_read() {
    let o = outcomes(|| {
        let x = Arc::new(AtomicUsize::new(0));
        let y = Arc::new(AtomicUsize::new(0));
        let z = Arc::new(AtomicUsize::new(0));
        let (x0, y0) = (x.clone(), y.clone());
        let t0 = thread::spawn(move || { y0.store(1, Relaxed); x0.store(1, Release); });
        let (x1, z1) = (x.clone(), z.clone());
        let t1 = thread::spawn(move || { let a = x1.load(Relaxed); z1.store(1, Release); a });
        let b = z.load(Acquire);
        fence(Acquire);
        let c = y.load(Relaxed);
        t0.join().unwrap();
        let a = t1.join().unwrap();
        (a, b, c)
    });
    println!("KF-D has (1,1,0): {}  all={:?}", o.contains(&(1,1,0)), o);
}

// KF-G Arc: deadlock detected in a thread that owns a loom Arc
#[test]
fn deadlock_owning_arc() {
    let r = std::panic::catch_unwind(|| {
        loom::model(|| {
            let a = Arc::new(Mutex::new(1));
            let b = Arc::new(Mutex::new(2));
            let th = { let a = a.clone(); let b = b.clone();
                thread::spawn(move || { let _b = b.lock().unwrap(); let _a = a.lock().unwrap(); }) };
            let _a = a.lock().unwrap();
            let _b = b.lock().unwrap();
            th.join().unwrap();
        });
    });
    println!("deadlock_owning_arc: {:?}", r.is_err());
}

// KF-G Receiver: deadlock in thread owning a non-empty Receiver
#[test]
fn deadlock_owning_receiver() {
    let r = std::panic::catch_unwind(|| {
        loom::model(|| {
            let (tx, rx) = loom::sync::mpsc::channel();
            tx.send(1).unwrap();
            let m = Rc::new(Mutex::new(0));
            let g = m.lock().unwrap();
            std::mem::forget(g);
            let _g2 = m.lock().unwrap(); // self-deadlock
            drop(rx); drop(tx);
        });
    });
    println!("deadlock_owning_receiver: {:?}", r.is_err());
}

// KF-I lazy_static
struct D(&'static str, std::sync::Arc<StdMutex<Vec<&'static str>>>);
impl Drop for D { fn drop(&mut self) { self.1.lock().unwrap().push(self.0); } }
static LOG: StdMutex<Option<std::sync::Arc<StdMutex<Vec<&'static str>>>>> = StdMutex::new(None);
loom::lazy_static! {
    static ref A: D = D("A", LOG.lock().unwrap().clone().unwrap());
    static ref B: D = D("B", LOG.lock().unwrap().clone().unwrap());
    static ref C: D = D("C", LOG.lock().unwrap().clone().unwrap());
}
#[test]
fn lazy_static_drop_order() {
    let log = std::sync::Arc::new(StdMutex::new(Vec::new()));
    *LOG.lock().unwrap() = Some(log.clone());
    let orders = std::sync::Arc::new(StdMutex::new(BTreeSet::new()));
    let b = loom::model::Builder::new();
    for _ in 0..20 {
        let l2 = log.clone();
        b.check(move || {
            l2.lock().unwrap().clear();
            let _ = (A.0, B.0, C.0);
        });
        orders.lock().unwrap().insert(log.lock().unwrap().clone());
    }
    println!("lazy_static_drop_order: {:?}", orders.lock().unwrap());
}
