// Round-7 side remarks (never run by a check).
use loom::sync::atomic::{fence, AtomicUsize, Ordering::*};
use loom::sync::Arc;
use loom::thread;
use std::collections::BTreeSet;
use std::sync::Mutex as StdMutex;

// (S4) the release half of a SeqCst fence is snapshotted before the fence joins the SC-fence clock: a relaxed store after the
// fence does not publish what the fence obtained from earlier SC fences.  (c,a,b) = (0,1,0) is forbidden (c=0 orders F1 before
// F2 in SC; a=1 gives F2 -hb-> t0's load of x; b=0 then needs F2 before F1).
#[test]
fn sc_fence_release_view() {
    let seen = std::sync::Arc::new(StdMutex::new(BTreeSet::new()));
    let s2 = seen.clone();
    loom::model(move || {
        let x = Arc::new(AtomicUsize::new(0));
        let y = Arc::new(AtomicUsize::new(0));
        let z = Arc::new(AtomicUsize::new(0));
        let (x1, z1) = (x.clone(), z.clone());
        let t1 = thread::spawn(move || {
            x1.store(1, Relaxed);
            fence(SeqCst);
            z1.load(Relaxed)
        });
        let (y2, z2) = (y.clone(), z.clone());
        let t2 = thread::spawn(move || {
            z2.store(1, Relaxed);
            fence(SeqCst);
            y2.store(1, Relaxed);
        });
        let a = y.load(Acquire);
        let b = x.load(Relaxed);
        let c = t1.join().unwrap();
        t2.join().unwrap();
        s2.lock().unwrap().insert((c, a, b));
    });
    let got = seen.lock().unwrap().clone();
    assert!(!got.contains(&(0, 1, 0)), "forbidden outcome (c,a,b)=(0,1,0) produced; all: {:?}", got);
}
