// Round-6 side remarks, part 3: values owned by the execution are destroyed outside the model when a model panics (never run
// by a check; each test aborts the process when the defect is present - run one per process).
use loom::sync::Arc;
use loom::thread;

loom::lazy_static! {
    static ref LS: Arc<usize> = Arc::new(1);
}

loom::thread_local! {
    static TL: Arc<usize> = Arc::new(1);
}

#[test]
#[should_panic(expected = "boom")]
fn panic_with_live_lazy_static() {
    loom::model(|| {
        assert_eq!(**LS, 1);
        thread::yield_now();
        panic!("boom");
    });
}

#[test]
#[should_panic(expected = "boom")]
fn panic_with_live_thread_local() {
    loom::model(|| {
        TL.with(|a| assert_eq!(**a, 1));
        thread::yield_now();
        panic!("boom");
    });
}
