use loom::sync::atomic::{AtomicUsize, Ordering::*};
use loom::sync::{Arc, Notify};
use loom::thread;
use std::collections::BTreeSet;
use std::sync::Mutex as StdMutex;
fn outcomes<R: Ord + Clone + Send + 'static + std::fmt::Debug>(f: impl Fn() -> R + Sync + Send + 'static) -> BTreeSet<R> {
    let set = std::sync::Arc::new(StdMutex::new(BTreeSet::new()));
    let s2 = set.clone();
    loom::model(move || { let r = f(); s2.lock().unwrap().insert(r); });
    let r = set.lock().unwrap().clone(); r
}
#[test]
fn notify_twice_grants_park_token() {
    let o = outcomes(|| {
        let n = Arc::new(Notify::new());
        let flag = Arc::new(AtomicUsize::new(0));
        let stage = Arc::new(AtomicUsize::new(0));
        let (n2, f2, s2) = (n.clone(), flag.clone(), stage.clone());
        let t = thread::spawn(move || { n2.wait(); s2.store(1, SeqCst); thread::park(); f2.store(1, SeqCst); });
        n.notify();
        n.notify();
        while stage.load(SeqCst) == 0 { thread::yield_now(); }
        let f = flag.load(SeqCst);
        t.thread().unpark();
        t.join().unwrap();
        f
    });
    println!("notify_twice_grants_park_token: flag values seen before unpark = {:?}", o);
}
