use loom::sync::{Mutex, RwLock};
use loom::thread;
use std::rc::Rc;

#[test]
fn deadlock_in_holder_rwlock() {
    let r = std::panic::catch_unwind(|| {
        loom::model(|| {
            let a = Rc::new(RwLock::new(1));
            let b = Rc::new(Mutex::new(2));
            let _th = { let a = a.clone(); let b = b.clone();
                thread::spawn(move || { let _b = b.lock().unwrap(); let _a = a.write().unwrap(); }) };
            let _a = a.write().unwrap();
            thread::yield_now();
            let _b = b.lock().unwrap();
        });
    });
    println!("deadlock_in_holder_rwlock: {:?}", r.map_err(|e| e.downcast_ref::<String>().map(|s| s[..20].to_string())));
}
#[test]
fn deadlock_in_holder_mutex() {
    let r = std::panic::catch_unwind(|| {
        loom::model(|| {
            let a = Rc::new(Mutex::new(1));
            let b = Rc::new(Mutex::new(2));
            let _th = { let a = a.clone(); let b = b.clone();
                thread::spawn(move || { let _b = b.lock().unwrap(); let _a = a.lock().unwrap(); }) };
            let _a = a.lock().unwrap();
            thread::yield_now();
            let _b = b.lock().unwrap();
        });
    });
    println!("deadlock_in_holder_mutex: {:?}", r.map_err(|e| e.downcast_ref::<String>().map(|s| s[..20].to_string())));
}
