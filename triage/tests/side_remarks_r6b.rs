// Round-6 side remarks, part 2 (never run by a check).
use loom::cell::UnsafeCell;
use loom::sync::Arc;
use loom::thread;

// control: the race is reported
#[test]
#[should_panic(expected = "Causality violation")]
fn race_without_unpark_is_reported() {
    loom::model(|| {
        let c = Arc::new(UnsafeCell::new(0));
        let c2 = c.clone();
        let t = thread::spawn(move || c2.with(|p| unsafe { *p }));
        c.with_mut(|p| unsafe { *p = 1 });
        t.join().unwrap();
    });
}

// (C) unpark() of a thread that never parks gives it the unparker's clock at once: the same race is hidden
#[test]
#[should_panic(expected = "Causality violation")]
fn race_with_unconsumed_unpark_is_reported() {
    loom::model(|| {
        let c = Arc::new(UnsafeCell::new(0));
        let c2 = c.clone();
        let t = thread::spawn(move || c2.with(|p| unsafe { *p }));
        c.with_mut(|p| unsafe { *p = 1 });
        t.thread().unpark(); // the target never calls park(): no synchronisation in a real program
        t.join().unwrap();
    });
}
