// KF-M: a thread pending at the branch point of Mutex::try_lock / RwLock::try_write / try_read is *blocked* when another
// thread acquires the lock, although a try operation never waits.  If the holder then waits for that thread, loom reports a
// deadlock that cannot happen.
use loom::sync::{Arc, Mutex, RwLock};
use loom::thread;

#[test]
fn try_lock_while_holder_joins() {
    loom::model(|| {
        let m = Arc::new(Mutex::new(0));
        let m2 = m.clone();
        let t = thread::spawn(move || {
            let _ = m2.try_lock().map(|mut g| *g += 1);
        });
        let g = m.lock().unwrap();
        t.join().unwrap(); // real program: try_lock returns WouldBlock, t ends, join returns
        drop(g);
    });
}

#[test]
fn try_write_while_reader_joins() {
    loom::model(|| {
        let m = Arc::new(RwLock::new(0));
        let m2 = m.clone();
        let t = thread::spawn(move || {
            let _ = m2.try_write().map(|mut g| *g += 1);
        });
        let g = m.read().unwrap();
        t.join().unwrap();
        drop(g);
    });
}

#[test]
fn try_read_while_writer_joins() {
    loom::model(|| {
        let m = Arc::new(RwLock::new(0));
        let m2 = m.clone();
        let t = thread::spawn(move || {
            let _ = m2.try_read().map(|g| *g);
        });
        let g = m.write().unwrap();
        t.join().unwrap();
        drop(g);
    });
}
