//! Triage (static rule S3/park-token): a thread that yields, then grants itself the park token, then parks,
//! must not deadlock (std: unpark before park makes park return immediately).
use loom::thread;

#[test]
fn self_unpark_after_yield_then_park() {
    loom::model(|| {
        thread::yield_now();
        thread::current().unpark();
        thread::park();
    });
}

#[test]
fn self_unpark_then_park_no_yield() {
    loom::model(|| {
        thread::current().unpark();
        thread::park();
    });
}

/// The unpark reaches the target while it is in the yielded state (de-prioritised, not parked): the token must be kept.
#[test]
fn unpark_of_yielded_thread_keeps_token() {
    loom::model(|| {
        let t = thread::spawn(|| {
            thread::yield_now();
            thread::park();
        });
        t.thread().unpark();
        t.join().unwrap();
    });
}
