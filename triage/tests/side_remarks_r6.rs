// Round-6 side remarks of seeding agents, triaged against the real code (never run by a check).
use loom::sync::atomic::{AtomicUsize, Ordering::*};
use loom::sync::{Arc, Condvar, Mutex};
use loom::thread;
use std::collections::BTreeSet;
use std::sync::Mutex as StdMutex;

// (A) a try_lock that fails because the holder is inside a critical section *without any other branch point* is never explored
#[test]
fn try_lock_failure_explored() {
    let seen = std::sync::Arc::new(StdMutex::new(BTreeSet::new()));
    let s2 = seen.clone();
    loom::model(move || {
        let m = Arc::new(Mutex::new(0));
        let m2 = m.clone();
        let t = thread::spawn(move || m2.try_lock().is_ok());
        {
            let _g = m.lock().unwrap();
        }
        let r = t.join().unwrap();
        s2.lock().unwrap().insert(r);
    });
    let got = seen.lock().unwrap().clone();
    assert_eq!(got, [false, true].into_iter().collect::<BTreeSet<_>>(), "try_lock outcomes explored: {:?}", got);
}

// (B) a waiter that returned from Condvar::wait through a stale park token stays in the condvar's queue; a later notify_one is
// spent on it and the real waiter sleeps for ever
#[test]
fn condvar_stale_waiter() {
    loom::model(|| {
        let pair = Arc::new((Mutex::new(false), Condvar::new()));
        let p2 = pair.clone();
        // a stale token for the main thread
        thread::current().unpark();
        {
            let g = pair.0.lock().unwrap();
            let g = pair.1.wait(g).unwrap(); // returns at once (token): a spurious return, allowed
            drop(g);
        }
        let u = thread::spawn(move || {
            let mut g = p2.0.lock().unwrap();
            while !*g {
                g = p2.1.wait(g).unwrap();
            }
        });
        {
            *pair.0.lock().unwrap() = true;
        }
        pair.1.notify_one();
        u.join().unwrap();
    });
}

// (D) a failing compare_exchange is a load: it may read a stale value
#[test]
fn failed_cas_reads_stale() {
    let seen = std::sync::Arc::new(StdMutex::new(BTreeSet::new()));
    let s2 = seen.clone();
    loom::model(move || {
        let x = Arc::new(AtomicUsize::new(0));
        let y = Arc::new(AtomicUsize::new(0));
        let (x2, y2) = (x.clone(), y.clone());
        let t = thread::spawn(move || {
            x2.store(1, Relaxed);
            y2.store(1, Relaxed);
        });
        let a = y.load(Relaxed);
        let r = x.compare_exchange(5, 6, Relaxed, Relaxed);
        t.join().unwrap();
        s2.lock().unwrap().insert((a, r.unwrap_err()));
    });
    let got = seen.lock().unwrap().clone();
    assert!(got.contains(&(1, 0)), "y==1 then failed CAS reading the stale x==0 must be explored; got {:?}", got);
}

fn outcomes<F: Fn() -> bool + Sync + Send + 'static>(f: F) -> BTreeSet<bool> {
    let seen = std::sync::Arc::new(StdMutex::new(BTreeSet::new()));
    let s2 = seen.clone();
    loom::model(move || {
        let r = f();
        s2.lock().unwrap().insert(r);
    });
    let got = seen.lock().unwrap().clone();
    got
}

// (A') the same for RwLock: try_write while a reader is inside / try_read while a writer is inside
#[test]
fn try_write_failure_explored() {
    let got = outcomes(|| {
        let m = Arc::new(loom::sync::RwLock::new(0));
        let m2 = m.clone();
        let t = thread::spawn(move || m2.try_write().is_ok());
        {
            let _g = m.read().unwrap();
        }
        t.join().unwrap()
    });
    assert_eq!(got, [false, true].into_iter().collect::<BTreeSet<_>>(), "try_write outcomes explored: {:?}", got);
}

#[test]
fn try_read_failure_explored() {
    let got = outcomes(|| {
        let m = Arc::new(loom::sync::RwLock::new(0));
        let m2 = m.clone();
        let t = thread::spawn(move || m2.try_read().is_ok());
        {
            let _g = m.write().unwrap();
        }
        t.join().unwrap()
    });
    assert_eq!(got, [false, true].into_iter().collect::<BTreeSet<_>>(), "try_read outcomes explored: {:?}", got);
}
