use loom::sync::{Arc, Mutex, RwLock};
use loom::thread;
use std::rc::Rc;

// deadlock while holding an RwLock write guard (no loom Arc involved: use Rc like tests/deadlock.rs)
#[test]
fn deadlock_holding_rwlock_guard() {
    let r = std::panic::catch_unwind(|| {
        loom::model(|| {
            let a = Rc::new(RwLock::new(1));
            let b = Rc::new(Mutex::new(2));
            let th = { let a = a.clone(); let b = b.clone();
                thread::spawn(move || { let _b = b.lock().unwrap(); let _a = a.write().unwrap(); }) };
            let _a = a.write().unwrap();
            let _b = b.lock().unwrap();
            th.join().unwrap();
        });
    });
    println!("deadlock_holding_rwlock_guard: {:?}", r.map_err(|e| e.downcast_ref::<String>().cloned()));
}
// baseline: same with two mutexes (tests/deadlock.rs shape)
#[test]
fn deadlock_holding_mutex_guard() {
    let r = std::panic::catch_unwind(|| {
        loom::model(|| {
            let a = Rc::new(Mutex::new(1));
            let b = Rc::new(Mutex::new(2));
            let th = { let a = a.clone(); let b = b.clone();
                thread::spawn(move || { let _b = b.lock().unwrap(); let _a = a.lock().unwrap(); }) };
            let _a = a.lock().unwrap();
            let _b = b.lock().unwrap();
            th.join().unwrap();
        });
    });
    println!("deadlock_holding_mutex_guard: {:?}", r.map_err(|e| e.downcast_ref::<String>().map(|s| s[..20].to_string())));
}
// join target notified twice -> token?
#[test]
fn panic_before_switch_with_spawned_arc() {
    let r = std::panic::catch_unwind(|| {
        loom::model(|| {
            let a = Arc::new(0);
            let a2 = a.clone();
            thread::spawn(move || { let _ = *a2; });
            assert!(false, "boom");
        });
    });
    println!("panic_before_switch_with_spawned_arc: {:?}", r.is_err());
}
