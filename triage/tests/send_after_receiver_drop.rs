//! KF-K triage: Sender::send after the Receiver is gone returns Err(SendError(value)) - the value comes back to the caller -
//! but the modelled channel has already counted the message, so the iteration ends with "Messages leaked".
use loom::sync::mpsc::channel;

#[test]
fn send_after_receiver_drop() {
    loom::model(|| {
        let (tx, rx) = channel::<usize>();
        drop(rx);
        let r = tx.send(7);
        assert_eq!(r.unwrap_err().0, 7);
    });
}
