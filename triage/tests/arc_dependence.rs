use loom::sync::Arc;
use loom::thread;
use std::collections::BTreeSet;
use std::sync::Mutex as StdMutex;

fn outcomes<R: Ord + Clone + Send + 'static + std::fmt::Debug>(f: impl Fn() -> R + Sync + Send + 'static) -> BTreeSet<R> {
    let set = std::sync::Arc::new(StdMutex::new(BTreeSet::new()));
    let s2 = set.clone();
    loom::model(move || { let r = f(); s2.lock().unwrap().insert(r); });
    let r = set.lock().unwrap().clone(); r
}

#[test]
fn arc_two_incs_one_inspect() {
    // expected: 3,4,5
    let o = outcomes(|| {
        let a = Arc::new(0);
        let a1 = a.clone();
        let a2 = a.clone();
        let t1 = thread::spawn(move || { let b = a1.clone(); (a1, b) });
        let t2 = thread::spawn(move || { let b = a2.clone(); (a2, b) });
        let c = Arc::strong_count(&a);
        let h1 = t1.join().unwrap(); let h2 = t2.join().unwrap();
        drop(h1); drop(h2);
        c
    });
    println!("arc_two_incs_one_inspect: {:?}", o);
}

#[test]
fn arc_two_inspects_one_inc() {
    // expected: all of {3,4}x{3,4}
    let o = outcomes(|| {
        let a = Arc::new(0);
        let a1 = a.clone();
        let a2 = a.clone();
        let t1 = thread::spawn(move || { let c = Arc::strong_count(&a1); (a1, c) });
        let t2 = thread::spawn(move || { let c = Arc::strong_count(&a2); (a2, c) });
        let b = a.clone();
        let (h1, c1) = t1.join().unwrap(); let (h2, c2) = t2.join().unwrap();
        drop(b); drop(h1); drop(h2);
        (c1, c2)
    });
    println!("arc_two_inspects_one_inc: {:?}", o);
}

#[test]
fn arc_inspect_then_inc_vs_inc() {
    // main: inspect r0 ; child: inc ; then child2 inspect
    let o = outcomes(|| {
        let a = Arc::new(0);
        let a1 = a.clone();
        let t1 = thread::spawn(move || { let c0 = Arc::strong_count(&a1); let b = a1.clone(); (a1, b, c0) });
        let b = a.clone();
        let c = Arc::strong_count(&a);
        let (h1, h2, c0) = t1.join().unwrap();
        drop(b); drop(h1); drop(h2);
        (c, c0)
    });
    // main: Inc, Inspect(c) ; child: Inspect(c0), Inc. analog of c01_example. expected c in {3,4}, c0 in {2,3}; (4,3) requires mainInc<childInspect<childInc<mainInspect
    println!("arc_inspect_then_inc_vs_inc: {:?}", o);
}
