use loom::sync::atomic::{AtomicUsize, Ordering::*};
use loom::sync::Arc;
use loom::thread;
use std::collections::BTreeSet;
use std::sync::Mutex as StdMutex;

fn outcomes<R: Ord + Clone + Send + 'static + std::fmt::Debug>(f: impl Fn() -> R + Sync + Send + 'static) -> BTreeSet<R> {
    let set = std::sync::Arc::new(StdMutex::new(BTreeSet::new()));
    let s2 = set.clone();
    loom::model(move || { let r = f(); s2.lock().unwrap().insert(r); });
    let r = set.lock().unwrap().clone(); r
}

#[test]
fn arc_inspect_vs_drop() {
    let o = outcomes(|| {
        let a = Arc::new(0);
        let a2 = a.clone();
        let t = thread::spawn(move || { drop(a2); });
        let c = Arc::strong_count(&a);
        t.join().unwrap();
        c
    });
    println!("arc_inspect_vs_drop: {:?}", o);
}

#[test]
fn arc_drop_vs_inspect_in_child() {
    let o = outcomes(|| {
        let a = Arc::new(0);
        let a2 = a.clone();
        let a3 = a.clone();
        let t = thread::spawn(move || { Arc::strong_count(&a2) });
        drop(a3);
        let c = t.join().unwrap();
        c
    });
    println!("arc_drop_vs_inspect_in_child: {:?}", o);
}

#[test]
fn try_recv_race() {
    let o = outcomes(|| {
        let (tx, rx) = loom::sync::mpsc::channel();
        let t = thread::spawn(move || { tx.send(5).unwrap(); });
        let r = rx.try_recv().ok();
        t.join().unwrap();
        r
    });
    println!("try_recv_race: {:?}", o);
}

#[test]
fn c01_example() {
    let o = outcomes(|| {
        let x = Arc::new(AtomicUsize::new(0));
        let x2 = x.clone();
        let t = thread::spawn(move || { let r1 = x2.load(SeqCst); x2.store(2, SeqCst); r1 });
        x.store(1, SeqCst);
        let r0 = x.load(SeqCst);
        let r1 = t.join().unwrap();
        (r0, r1)
    });
    println!("c01_example: {:?}", o);
}
