use loom::sync::atomic::{AtomicUsize, Ordering::*};
use loom::sync::{Arc, Mutex};
use loom::thread;
use std::collections::BTreeSet;
use std::sync::Mutex as StdMutex;

fn outcomes<R: Ord + Clone + Send + 'static + std::fmt::Debug>(f: impl Fn() -> R + Sync + Send + 'static) -> BTreeSet<R> {
    let set = std::sync::Arc::new(StdMutex::new(BTreeSet::new()));
    let s2 = set.clone();
    loom::model(move || { let r = f(); s2.lock().unwrap().insert(r); });
    let r = set.lock().unwrap().clone(); r
}

// D5: unpark while blocked on a lock
#[test]
fn unpark_blocked_on_lock() {
    let r = std::panic::catch_unwind(|| {
        loom::model(|| {
            let m = Arc::new(Mutex::new(0));
            let m2 = m.clone();
            let g = m.lock().unwrap();
            let t = thread::spawn(move || { let _g = m2.lock().unwrap(); });
            thread::yield_now();
            t.thread().unpark();
            thread::yield_now();
            drop(g);
            t.join().unwrap();
        });
    });
    println!("unpark_blocked_on_lock: {:?}", r.map_err(|e| e.downcast_ref::<String>().cloned()));
}

// D8: token delivered while target waits for a mutex is dropped at release
#[test]
fn token_lost_on_release() {
    let r = std::panic::catch_unwind(|| {
        loom::model(|| {
            let m = Arc::new(Mutex::new(0));
            let m2 = m.clone();
            let t = thread::spawn(move || { let g = m2.lock().unwrap(); drop(g); thread::park(); });
            let g = m.lock().unwrap();
            t.thread().unpark();
            drop(g);
            t.join().unwrap();
        });
    });
    println!("token_lost_on_release: {:?}", r.map_err(|e| e.downcast_ref::<String>().cloned()));
}

// thread-local drop order determinism
struct D(&'static str, std::sync::Arc<StdMutex<Vec<&'static str>>>);
impl Drop for D { fn drop(&mut self) { self.1.lock().unwrap().push(self.0); } }
static LOG: StdMutex<Option<std::sync::Arc<StdMutex<Vec<&'static str>>>>> = StdMutex::new(None);
loom::thread_local! {
    static A: D = D("A", LOG.lock().unwrap().clone().unwrap());
    static B: D = D("B", LOG.lock().unwrap().clone().unwrap());
    static C: D = D("C", LOG.lock().unwrap().clone().unwrap());
}
#[test]
fn tls_drop_order() {
    let log = std::sync::Arc::new(StdMutex::new(Vec::new()));
    *LOG.lock().unwrap() = Some(log.clone());
    let orders = std::sync::Arc::new(StdMutex::new(BTreeSet::new()));
    let o2 = orders.clone();
    let l2 = log.clone();
    let b = loom::model::Builder::new();
    for _ in 0..20 {
        let o2 = o2.clone(); let l2 = l2.clone();
        b.check(move || {
            l2.lock().unwrap().clear();
            let l3 = l2.clone(); let o3 = o2.clone();
            let t = thread::spawn(move || { A.with(|_| ()); B.with(|_| ()); C.with(|_| ()); });
            t.join().unwrap();
            o3.lock().unwrap().insert(l3.lock().unwrap().clone());
        });
    }
    println!("tls_drop_order: {:?}", orders.lock().unwrap());
}
