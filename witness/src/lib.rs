//! E3 - type-level witnesses.  Each fact that loom enforces through the type system (and on which a property relies) is kept
//! as a rustdoc `compile_fail,E0xxx` test paired with a compiling `no_run` twin that differs only in the offending line.
//! Nothing is executed (`no_run`); rustc only type-checks against the current /repo tree.
//! Run with `cargo +nightly test --doc` (error codes are honoured on nightly only).

/// C07: a MutexGuard cannot be sent to another thread.
/// ```compile_fail,E0277
/// fn is_send<T: Send>() {}
/// is_send::<loom::sync::MutexGuard<'static, u32>>();
/// ```
/// twin:
/// ```no_run
/// fn is_send<T: Send>() {}
/// is_send::<loom::sync::Mutex<u32>>();
/// ```
pub struct C07MutexGuardNotSend;

/// C07: RwLock guards cannot be sent to another thread.
/// ```compile_fail,E0277
/// fn is_send<T: Send>() {}
/// is_send::<loom::sync::RwLockReadGuard<'static, u32>>();
/// ```
/// ```compile_fail,E0277
/// fn is_send<T: Send>() {}
/// is_send::<loom::sync::RwLockWriteGuard<'static, u32>>();
/// ```
/// twin:
/// ```no_run
/// fn is_send<T: Send>() {}
/// is_send::<loom::sync::RwLock<u32>>();
/// ```
pub struct C07RwLockGuardsNotSend;

/// C07: get_mut needs exclusive access to the lock.
/// ```compile_fail,E0596
/// let m = loom::sync::Mutex::new(1u32);
/// let _ = m.get_mut();
/// ```
/// twin:
/// ```no_run
/// let mut m = loom::sync::Mutex::new(1u32);
/// let _ = m.get_mut();
/// ```
pub struct C07GetMutNeedsMut;

/// C06/C16: `model` needs a re-runnable closure (`Fn`), not `FnOnce`.
/// ```compile_fail,E0507
/// let s = String::new();
/// loom::model(move || drop(s));
/// ```
/// twin:
/// ```no_run
/// let s = String::new();
/// loom::model(move || drop(s.clone()));
/// ```
pub struct C06ModelNeedsFn;

/// C06/C16: the model closure must be `Send + Sync` (it must not smuggle thread-bound state between iterations).
/// ```compile_fail,E0277
/// let r = std::rc::Rc::new(1u32);
/// loom::model(move || { let _ = *r; });
/// ```
/// twin:
/// ```no_run
/// let r = std::sync::Arc::new(1u32);
/// loom::model(move || { let _ = *r; });
/// ```
pub struct C06ModelNeedsSendSync;

/// C16: the runtime (and with it the Execution) is not reachable from outside the crate.
/// ```compile_fail,E0603
/// use loom::rt::execution;
/// ```
/// twin:
/// ```no_run
/// use loom::model;
/// ```
pub struct C16RtIsPrivate;

/// C11: `Arc::get_mut` needs exclusive access to the handle.
/// ```compile_fail,E0596
/// let a = loom::sync::Arc::new(1u32);
/// let _ = loom::sync::Arc::get_mut(&mut a);
/// ```
/// twin:
/// ```no_run
/// let mut a = loom::sync::Arc::new(1u32);
/// let _ = loom::sync::Arc::get_mut(&mut a);
/// ```
pub struct C11ArcGetMutNeedsMut;

/// C12: `with_mut` on an atomic needs exclusive access.
/// ```compile_fail,E0596
/// let a = loom::sync::atomic::AtomicU32::new(1);
/// a.with_mut(|v| *v += 1);
/// ```
/// twin:
/// ```no_run
/// let mut a = loom::sync::atomic::AtomicU32::new(1);
/// a.with_mut(|v| *v += 1);
/// ```
pub struct C12WithMutNeedsMut;

/// C09: a Receiver cannot be shared between threads (single consumer).
/// ```compile_fail,E0277
/// fn is_sync<T: Sync>() {}
/// is_sync::<loom::sync::mpsc::Receiver<u32>>();
/// ```
/// twin:
/// ```no_run
/// fn is_send<T: Send>() {}
/// is_send::<loom::sync::mpsc::Receiver<u32>>();
/// ```
pub struct C09ReceiverNotSync;

/// C08: joining consumes the handle (a thread is joined at most once).
/// ```compile_fail,E0382
/// fn f(h: loom::thread::JoinHandle<()>) { let _ = h.join(); let _ = h.join(); }
/// ```
/// twin:
/// ```no_run
/// fn f(h: loom::thread::JoinHandle<()>) { let _ = h.join(); }
/// ```
pub struct C08JoinConsumes;
