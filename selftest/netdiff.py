#!/usr/bin/env python3
"""Developer tool (evaluation of the checker, never part of a check): compute the G4 value tables of scratch copies of /repo with
one patch applied each and print what differs from the tables of the unchanged tree.

usage: selftest/netdiff.py [-j N] <patch.diff>...      (worker mode: --one <patch> )"""
import json
import os
import shutil
import subprocess
import sys
import tempfile
from concurrent.futures import ThreadPoolExecutor

HERE = os.path.dirname(os.path.abspath(__file__))
VERIF = os.path.dirname(HERE)
sys.path.insert(0, VERIF)
BASE = os.path.join(VERIF, ".cache", "netdiff-base.json")


def tables():
    from lint import facts
    from lint.spec import valuevocab
    return valuevocab.value_tables(facts.load("all"))


def one(patch):
    scratch = tempfile.mkdtemp(prefix="verif-nd-")
    try:
        repo = os.path.join(scratch, "repo")
        subprocess.run(["rsync", "-a", "--exclude", "target", "--exclude", ".git", "/repo/", repo + "/"], check=True)
        subprocess.run(["git", "init", "-q"], cwd=repo)
        r = subprocess.run(["git", "apply", "--whitespace=nowarn", patch], cwd=repo, stdout=subprocess.PIPE, stderr=subprocess.STDOUT, text=True)
        if r.returncode != 0:
            r = subprocess.run(["patch", "-p1", "-s", "--fuzz=3", "--no-backup-if-mismatch", "-i", patch], cwd=repo, stdout=subprocess.PIPE, stderr=subprocess.STDOUT, text=True)
            if r.returncode != 0:
                return patch, None, "patch does not apply"
        tdir = os.path.join(scratch, "target")
        subprocess.run(["cp", "-a", os.path.join(VERIF, ".cache", "target"), tdir], check=True)
        env = dict(os.environ, VERIF_REPO=repo, VERIF_TARGET_DIR=tdir)
        r = subprocess.run([sys.executable, os.path.abspath(__file__), "--tables"], env=env, stdout=subprocess.PIPE, stderr=subprocess.PIPE, text=True)
        if r.returncode != 0:
            return patch, None, r.stderr[-600:]
        return patch, json.loads(r.stdout), ""
    finally:
        shutil.rmtree(scratch, ignore_errors=True)


def main(argv):
    if "--tables" in argv:
        json.dump(tables(), sys.stdout)
        return 0
    jobs = 6
    if "-j" in argv:
        jobs = int(argv[argv.index("-j") + 1])
    patches = [os.path.abspath(a) for a in argv[1:] if a.endswith(".diff")]
    if "--rebase" in argv or not os.path.exists(BASE):
        json.dump(tables(), open(BASE, "w"))
    base = json.load(open(BASE))
    with ThreadPoolExecutor(max_workers=jobs) as ex:
        for patch, t, err in ex.map(one, patches):
            name = os.path.basename(os.path.dirname(patch))
            if t is None:
                print("%-8s ERROR %s" % (name, err))
                continue
            new, lost = [], []
            for k, v in t.items():
                if k in base:
                    n_ = sorted(set(v) - set(base[k]))
                    l_ = sorted(set(base[k]) - set(v))
                    if n_:
                        new.append((k, n_))
                    if l_:
                        lost.append((k, l_))
            print("%-8s new=%d lost=%d" % (name, len(new), len(lost)))
            for k, n_ in new[:12]:
                print("      + %s : %s" % (k, n_))
            if "--lost" in argv:
                for k, l_ in lost[:12]:
                    print("      - %s : %s" % (k, l_))
    return 0


if __name__ == "__main__":
    sys.exit(main(sys.argv))
