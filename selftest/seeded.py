#!/usr/bin/env python3
"""Confirm and evaluate seeded breakages produced by independent sub-agents.

  seeded.py import <src_dir> <id>   confirm a candidate (suite passes with it, demo fails with / passes without) in a scratch
                                    copy and, if confirmed, store it as /verif/seeded/<id>/{patch.diff,demo.rs,meta.json}
  seeded.py eval [<id>...]          apply each stored seed to a scratch copy and run all 20 static checks on it; records in
                                    meta.json which checks report a new violation (never touches /repo)

The confirmation step runs the repository's tests (dynamic) - it belongs to the *evaluation of the checker*, not to any check.
"""
import json
import os
import shutil
import subprocess
import sys
import tempfile
from concurrent.futures import ThreadPoolExecutor

HERE = os.path.dirname(os.path.abspath(__file__))
VERIF = os.path.dirname(HERE)
SEEDED = os.path.join(VERIF, "seeded")
PROPS = ["C%02d" % i for i in range(1, 21)]


def sh(cmd, cwd=None, env=None, timeout=3600):
    r = subprocess.run(cmd, cwd=cwd, env=env, shell=isinstance(cmd, str), stdout=subprocess.PIPE, stderr=subprocess.STDOUT, text=True, timeout=timeout)
    return r.returncode, r.stdout


def scratch_repo(with_target=True):
    d = tempfile.mkdtemp(prefix="verif-seed-")
    repo = os.path.join(d, "repo")
    subprocess.run(["rsync", "-a", "--exclude", "target", "--exclude", ".git", "/repo/", repo + "/"], check=True)
    if with_target and os.path.isdir("/repo/target"):
        subprocess.run(["cp", "-a", "/repo/target", os.path.join(repo, "target")], check=True)
    return d, repo


def confirm(src, sid):
    patch = os.path.join(src, "patch.diff")
    demo = os.path.join(src, "demo.rs")
    meta = json.load(open(os.path.join(src, "meta.json")))
    d, repo = scratch_repo()
    env = dict(os.environ, CARGO_NET_OFFLINE="true")
    res = dict(id=sid)
    try:
        shutil.copy(demo, os.path.join(repo, "tests", "seeded_demo.rs"))
        feats = "--all-features" if ("future" in open(demo).read() or meta.get("property") == "C20" or "checkpoint" in open(demo).read()) else ""
        rc0, out0 = sh("cargo test --offline %s --test seeded_demo -- --test-threads 1" % feats, cwd=repo, env=env)
        res["demo_passes_without_change"] = rc0 == 0
        subprocess.run(["git", "init", "-q"], cwd=repo)
        rc, out = sh(["git", "apply", "--whitespace=nowarn", patch], cwd=repo)
        if rc != 0:
            rc, out = sh(["patch", "-p1", "-i", patch], cwd=repo)
        res["patch_applies"] = rc == 0
        rc1, out1 = sh("cargo test --offline %s --test seeded_demo -- --test-threads 1" % feats, cwd=repo, env=env)
        res["demo_fails_with_change"] = rc1 != 0
        res["demo_output_tail"] = out1[-1500:]
        os.remove(os.path.join(repo, "tests", "seeded_demo.rs"))
        rc2, out2 = sh("cargo test --workspace --no-fail-fast --offline", cwd=repo, env=env)
        res["suite_passes_with_change"] = rc2 == 0
        if rc2 != 0:
            res["suite_tail"] = out2[-1500:]
        ok = res["demo_passes_without_change"] and res["patch_applies"] and res["demo_fails_with_change"] and res["suite_passes_with_change"]
        res["confirmed"] = ok
        if ok:
            dst = os.path.join(SEEDED, sid)
            os.makedirs(dst, exist_ok=True)
            shutil.copy(patch, os.path.join(dst, "patch.diff"))
            shutil.copy(demo, os.path.join(dst, "demo.rs"))
            meta.update(dict(id=sid, confirmed_by_evaluator=dict(
                demo_passes_without_change=True, demo_fails_with_change=True, suite_passes_with_change=True,
                ran=["cargo test --offline %s --test seeded_demo (without patch: pass; with patch: fail)" % feats,
                     "cargo test --workspace --no-fail-fast --offline (with patch: pass)"])))
            json.dump(meta, open(os.path.join(dst, "meta.json"), "w"), indent=1)
        return res
    finally:
        shutil.rmtree(d, ignore_errors=True)


def evaluate(sid):
    dst = os.path.join(SEEDED, sid)
    d, repo = scratch_repo(with_target=False)
    try:
        subprocess.run(["git", "init", "-q"], cwd=repo)
        rc, out = sh(["git", "apply", "--whitespace=nowarn", os.path.join(dst, "patch.diff")], cwd=repo)
        if rc != 0:
            rc, out = sh(["patch", "-p1", "-i", os.path.join(dst, "patch.diff")], cwd=repo)
            if rc != 0:
                return sid, None, "patch does not apply: " + out[-300:]
        tdir = os.path.join(d, "target")
        base = os.path.join(VERIF, ".cache", "target")
        if os.path.isdir(base):
            subprocess.run(["cp", "-a", base, tdir], check=True)
        env = dict(os.environ, VERIF_REPO=repo, VERIF_TARGET_DIR=tdir, VERIF_NO_EVIDENCE="1")
        fired = {}
        for prop in ["ALL"]:
            rc, out = sh([os.path.join(VERIF, "check"), prop], env=env)
            if "fact extraction failed" in out:
                return sid, None, "does not compile under nightly check: " + out[-400:]
            for line in out.splitlines():
                if line.startswith("SELFTEST-KEY\t"):
                    _, p_, key, kind = line.split("\t", 3)
                    if kind.startswith("new"):
                        fired.setdefault(p_, []).append(key)
        return sid, fired, ""
    finally:
        shutil.rmtree(d, ignore_errors=True)


def write_results():
    rows = []
    for sid in sorted(os.listdir(SEEDED)):
        mp = os.path.join(SEEDED, sid, "meta.json")
        if not os.path.exists(mp):
            continue
        m = json.load(open(mp))
        sc = m.get("static_checks", {})
        nv = sc.get("new_violations", {})
        own = m.get("property")
        own_hit = ", ".join(sorted({k.split(":")[0] for k in nv.get(own, [])}))
        others = "; ".join("%s: %s" % (p, ", ".join(sorted({k.split(":")[0] for k in ks}))) for p, ks in sorted(nv.items()) if p != own)
        status = ("obsolete (was: %s)" % ("detected" if nv else "missed")) if m.get("obsolete") else "detected" if nv.get(own) else ("detected (other property only)" if nv else
                                                 ("not statically detectable" if m.get("not_statically_detectable") else "MISSED"))
        rows.append((sid, "%s (r%s)" % (own, m.get("round", 1)), m.get("title", "")[:90], m.get("needs_to_manifest", "")[:160].replace("\n", " "),
                     status, m.get("first_evaluation", "-"), own_hit, others))
    with open(os.path.join(SEEDED, "RESULTS.md"), "w") as fh:
        fh.write("# Seeded breakages: which checks catch which\n\n")
        fh.write("Generated by `selftest/seeded.py eval` (all 20 quick checks run on a scratch copy with the seed applied). "
                 "`rules (own property)` = rule ids reporting a new violation under the seed's own property.\n\n")
        fh.write("| seed | property (round) | change | needs to manifest | verdict now | first evaluation (rules as they were when the seed arrived) | rules (own property) | also reported under |\n|---|---|---|---|---|---|---|---|\n")
        for r in rows:
            fh.write("| %s |\n" % " | ".join(x.replace("|", "/") for x in r))
        det = sum(1 for r in rows if r[4].startswith("detected"))
        fh.write("\n%d seeds, %d detected, %d not statically detectable, %d missed.\n" % (
            len(rows), det, sum(1 for r in rows if r[4].startswith("not statically")), sum(1 for r in rows if r[4] == "MISSED")))
        for sid in sorted(os.listdir(SEEDED)):
            mp = os.path.join(SEEDED, sid, "meta.json")
            if os.path.exists(mp):
                m = json.load(open(mp))
                if m.get("not_statically_detectable"):
                    fh.write("\n* %s: %s\n" % (sid, m["not_statically_detectable"]))
                if m.get("obsolete"):
                    fh.write("\n* %s: %s\n" % (sid, m["obsolete"]))
                if m.get("rebased"):
                    fh.write("\n* %s: %s\n" % (sid, m["rebased"][:200]))


def main(argv):
    if len(argv) >= 4 and argv[1] == "import":
        r = confirm(argv[2], argv[3])
        print(json.dumps({k: v for k, v in r.items() if k not in ("demo_output_tail",)}, indent=1))
        if not r.get("confirmed"):
            print(r.get("demo_output_tail", "")[-800:])
        return 0 if r.get("confirmed") else 1
    if len(argv) >= 2 and argv[1] == "eval":
        ids = argv[2:] or sorted(os.listdir(SEEDED))
        ids = [i for i in ids if os.path.isdir(os.path.join(SEEDED, i))]
        # seeds made obsolete by a later `fix:` commit keep their last evaluation (made on the tree they were written for)
        ids = [i for i in ids if not json.load(open(os.path.join(SEEDED, i, "meta.json"))).get("obsolete")]
        with ThreadPoolExecutor(max_workers=int(os.environ.get("VERIF_JOBS", "4"))) as ex:
            results = list(ex.map(evaluate, ids))
        for sid, fired, err in results:
            mp = os.path.join(SEEDED, sid, "meta.json")
            meta = json.load(open(mp))
            meta["static_checks"] = dict(detected=bool(fired), new_violations=fired or {}, error=err)
            if "first_evaluation" not in meta and fired is not None:
                own_ = meta.get("property")
                meta["first_evaluation"] = "detected" if (fired or {}).get(own_) else (
                    "detected under another property only" if fired else "missed")
            json.dump(meta, open(mp, "w"), indent=1)
            own = meta.get("property")
            print("%-8s %-9s own=%s %s %s" % (sid, "DETECTED" if fired else ("ERROR" if fired is None else "missed"), own,
                                             "; ".join("%s:%s" % (p, ",".join(k)) for p, k in (fired or {}).items())[:300], err[:200]))
        write_results()
        return 0
    if len(argv) >= 2 and argv[1] == "results":
        write_results()
        return 0
    print(__doc__)
    return 2


if __name__ == "__main__":
    sys.exit(main(sys.argv))
