#!/usr/bin/env python3
"""Rule self-test: apply each registered mutant to a scratch copy of the *current* /repo tree, re-extract, re-check,
and record whether the expected rule fires and names the broken instance.  Evidence about the checker only: nothing
here decides a property of /repo.  Scratch copies live under $TMPDIR (default /tmp) and are removed immediately.

usage: selftest/run.py [--only substr] [--prop Cnn] [-j N] [--json out.json]
"""
import json
import os
import shutil
import subprocess
import sys
import tempfile
import time
from concurrent.futures import ThreadPoolExecutor

HERE = os.path.dirname(os.path.abspath(__file__))
VERIF = os.path.dirname(HERE)
sys.path.insert(0, VERIF)
from selftest.mutants import MUTANTS, EQUIV  # noqa: E402

REPO = os.environ.get("VERIF_REPO", "/repo")


def run_mutant(m):
    t0 = time.time()
    scratch = tempfile.mkdtemp(prefix="verif-mut-")
    res = dict(name=m["name"], expects=m["expects"], status="?", fired=[], detail="")
    try:
        repo = os.path.join(scratch, "repo")
        subprocess.run(["rsync", "-a", "--exclude", "target", "--exclude", ".git", REPO + "/", repo + "/"], check=True)
        applied = False
        if m.get("patch"):
            subprocess.run(["git", "init", "-q"], cwd=repo)
            r = subprocess.run(["git", "apply", "--whitespace=nowarn", m["patch"]], cwd=repo, stdout=subprocess.PIPE, stderr=subprocess.STDOUT, text=True)
            if r.returncode != 0:
                # the tree has moved on since the patch was written (a later `fix:` commit): try with fuzz
                r = subprocess.run(["patch", "-p1", "-s", "--fuzz=3", "--no-backup-if-mismatch", "-i", m["patch"]], cwd=repo,
                                   stdout=subprocess.PIPE, stderr=subprocess.STDOUT, text=True)
            if r.returncode != 0:
                res["status"] = "skipped"
                res["detail"] = "seed patch no longer applies: " + r.stdout[-200:]
                return res
            applied = True
        for (rel, old, new) in m["edits"]:
            p = os.path.join(repo, rel)
            s = open(p).read()
            if old not in s:
                res["status"] = "skipped"
                res["detail"] = "anchor text not found in %s (tree edited?)" % rel
                return res
            s = s.replace(old, new, 1)
            open(p, "w").write(s)
            applied = True
        if not applied:
            res["status"] = "skipped"
            return res
        tdir = os.path.join(scratch, "target")
        base = os.path.join(VERIF, ".cache", "target")
        if os.path.isdir(base):
            subprocess.run(["cp", "-a", base, tdir], check=True)
        env = dict(os.environ, VERIF_REPO=repo, VERIF_TARGET_DIR=tdir, VERIF_NO_EVIDENCE="1")
        fired = []
        outs = []
        props = sorted({p for (p, k) in m["expects"]}) or m.get("props") or ["C%02d" % i for i in range(1, 21)]
        if len(props) > 3:
            props = ["ALL"]      # one process, one load of the facts
        for prop in props:
            r = subprocess.run([os.path.join(VERIF, "check"), prop], env=env, stdout=subprocess.PIPE, stderr=subprocess.STDOUT, text=True)
            outs.append(r.stdout)
            if "fact extraction failed" in r.stdout:
                res["status"] = "does-not-compile"
                res["detail"] = r.stdout[-1500:]
                return res
            for line in r.stdout.splitlines():
                if line.startswith("SELFTEST-KEY\t"):
                    _, p_, key, kind = line.split("\t", 3)
                    fired.append((p_, key, kind))
        res["fired"] = fired
        if any(kind == "crash" for (_, _, kind) in fired):
            res["status"] = "error"
            res["detail"] = "a rule crashed: " + "\n".join(o[-1500:] for o in outs)
            return res
        if not m["expects"]:
            # behaviour-preserving edit: any new violation is a false alarm
            new_v = [(fp, fk) for (fp, fk, kind) in fired if kind.startswith("new")]
            res["status"] = "silent" if not new_v else "FALSE-ALARM"
            res["detail"] = "\n".join("%s %s" % x for x in new_v)
            return res
        ok = True
        for (p, k) in m["expects"]:
            if not any(fp == p and k in fk and kind.startswith("new") for (fp, fk, kind) in fired):
                ok = False
        res["status"] = "detected" if ok else "MISSED"
        if not ok:
            res["detail"] = "\n".join(o[-1200:] for o in outs)
        return res
    except Exception as e:  # noqa
        res["status"] = "error"
        res["detail"] = repr(e)
        return res
    finally:
        shutil.rmtree(scratch, ignore_errors=True)
        res["wall_s"] = round(time.time() - t0, 1)


def equiv_patches():
    """Behaviour-preserving refactorings produced by independent sub-agents (/verif/selftest/equiv/<id>/patch.diff)."""
    out = []
    d = os.path.join(VERIF, "selftest", "equiv")
    if os.path.isdir(d):
        for sid in sorted(os.listdir(d)):
            p = os.path.join(d, sid, "patch.diff")
            if os.path.exists(p):
                out.append(dict(name="equiv_" + sid, patch=p, edits=[], expects=[]))
    return out


def seed_mutants(prop=None):
    """Seeded breakages (independent sub-agents, /verif/seeded/<id>) as mutants: expectation = some new violation of the
    seed's own property, unless the seed is recorded as not statically detectable."""
    out = []
    d = os.path.join(VERIF, "seeded")
    if not os.path.isdir(d):
        return out
    for sid in sorted(os.listdir(d)):
        mp = os.path.join(d, sid, "meta.json")
        if not os.path.exists(mp):
            continue
        meta = json.load(open(mp))
        if meta.get("not_statically_detectable") or meta.get("obsolete"):
            continue
        nv = (meta.get("static_checks") or {}).get("new_violations") or {}
        own = meta["property"]
        # a seed is expected under its own property when the last evaluation saw it there, otherwise under the property that reports it
        target = own if (own in nv or not nv) else sorted(nv)[0]
        if prop and target != prop:
            continue
        out.append(dict(name="seed_" + sid, patch=os.path.join(d, sid, "patch.diff"), edits=[], expects=[(target, "")]))
    return out


def main(argv):
    only = None
    prop = None
    jobs = 6
    out = None
    i = 1
    while i < len(argv):
        if argv[i] == "--only":
            only = argv[i + 1]; i += 2
        elif argv[i] == "--prop":
            prop = argv[i + 1]; i += 2
        elif argv[i] == "-j":
            jobs = int(argv[i + 1]); i += 2
        elif argv[i] == "--json":
            out = argv[i + 1]; i += 2
        else:
            i += 1
    allm = (EQUIV + equiv_patches()) if "--equiv" in argv else (MUTANTS + seed_mutants())
    todo = [m for m in allm if (only is None or only in m["name"]) and (prop is None or any(p == prop for p, _ in m["expects"]))]
    # make sure the base target dir and driver exist (so copies are warm)
    subprocess.run([os.path.join(VERIF, "check"), "--setup"], stdout=subprocess.DEVNULL, stderr=subprocess.DEVNULL)
    with ThreadPoolExecutor(max_workers=jobs) as ex:
        results = list(ex.map(run_mutant, todo))
    bad = 0
    for r in results:
        print("%-14s %-46s %s  (%.0fs)" % (r["status"], r["name"], ",".join("%s:%s" % e for e in r["expects"]), r.get("wall_s", 0)))
        if r["status"] in ("MISSED", "error", "does-not-compile", "FALSE-ALARM"):
            bad += 1
            print("    " + r["detail"].replace("\n", "\n    ")[-1500:])
    print("selftest: %d mutants, %d detected, %d skipped, %d not ok" % (
        len(results), sum(r["status"] == "detected" for r in results), sum(r["status"] == "skipped" for r in results), bad))
    if out:
        json.dump(results, open(out, "w"), indent=1)
    return 1 if bad else 0


if __name__ == "__main__":
    sys.exit(main(sys.argv))
