#!/usr/bin/env python3
"""IR-level robustness sweep (no sub-agent needed): for every small function of the crate with few call sites, pretend a
maintainer inlined it into its callers and deleted it - by force-inlining it in the extracted facts - and run all 20 rule
sets on the result.  Any violation that is not reported on the unchanged tree is a potential false alarm of the refactoring
"inline helper X"; the list drives the hardening of rules that still anchor on helper names.

usage: selftest/inline_sim.py [-j N] [--only <substr>]        (writes selftest/inline_sim.json)
Nothing here is part of a registered check."""
import importlib, json, os, sys, copy, traceback
from concurrent.futures import ProcessPoolExecutor

VERIF = os.path.dirname(os.path.dirname(os.path.abspath(__file__)))
sys.path.insert(0, VERIF)
os.environ["VERIF_NO_EVIDENCE"] = "1"
PROPS = ["C%02d" % i for i in range(1, 21)]


def run_all(force=None):
    """violation keys per property with `force` (a fn key or None) force-inlined."""
    from lint import facts, normalize
    from lint.report import Ctx
    normalize.FORCE_INLINE = {force} if force else set()
    normalize.REPARENT.clear()
    facts._loaded.clear()
    out = {}
    progs = {"all": facts.load("all")}
    if force and force not in progs["all"].inlined:
        return None
    for p in PROPS:
        spec = importlib.import_module("lint.spec." + p)
        ctx = Ctx(p, "quick", progs, 0)
        ctx.config = "all"
        try:
            spec.run(ctx)
            out[p] = sorted({v["key"] for v in ctx.violations})
        except Exception as e:      # a crash of a rule on the transformed program is a finding about the rule, too
            out[p] = ["CRASH:%s:%s" % (type(e).__name__, str(e)[:80].replace(" ", "_"))]
    return out


def one(force):
    try:
        return force, run_all(force)
    except Exception as e:
        return force, {"ERR": [traceback.format_exc()[-300:]]}


def main(argv):
    jobs = 8
    only = None
    i = 1
    while i < len(argv):
        if argv[i] == "-j":
            jobs = int(argv[i + 1]); i += 2
        elif argv[i] == "--only":
            only = argv[i + 1]; i += 2
        else:
            i += 1
    from lint import facts, normalize
    base = run_all(None)
    prog = facts.load("all")
    cands = normalize.force_candidates(prog)
    if only:
        cands = [c for c in cands if only in c]
    print("%d candidate helpers" % len(cands))
    res = {}
    with ProcessPoolExecutor(max_workers=jobs) as ex:
        for force, r in ex.map(one, cands):
            if r is None:
                continue
            new = {p: [k for k in ks if k not in base.get(p, [])] for p, ks in r.items()}
            new = {p: ks for p, ks in new.items() if ks}
            res[force] = new
            print("%-70s %s" % (force, "ok" if not new else json.dumps(new)[:400]))
    json.dump(res, open(os.path.join(VERIF, "selftest", "inline_sim.json"), "w"), indent=1, sort_keys=True)
    bad = {k: v for k, v in res.items() if v}
    print("inline_sim: %d helpers force-inlined, %d with new reports" % (len(res), len(bad)))
    return 0


if __name__ == "__main__":
    sys.exit(main(sys.argv))
