#!/bin/bash
# usage: mkscratch.sh <name> <patch>  -> /tmp/scr-<name> (repo copy with patch applied)
d=/tmp/scr-$1; rm -rf $d; mkdir -p $d; rsync -a --exclude target --exclude .git /repo/ $d/repo/; cd $d/repo && patch -p1 -s < $2 && echo $d/repo
