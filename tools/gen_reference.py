#!/usr/bin/env python3
"""Write lint/reference.json: names and signatures of the functions and the field lists of the structs of the *reference
tree* (the tree the rules were written against and reviewed on).  lint/normalize.py uses it to (1) recognise helpers that
are new, (2) undo renames of functions (same impl/module, same signature, one vanished / one new) and of struct fields
(same position and type, name unknown to the reference).  Regenerate only when the rules have been reviewed against a new
reference tree (e.g. after a `fix:` commit)."""
import json, os, sys
sys.path.insert(0, os.path.join(os.path.dirname(os.path.abspath(__file__)), ".."))
os.environ["VERIF_NO_INLINE"] = "1"
from lint import facts
fns, adts, closures = {}, {}, {}
enums = set()


def fingerprint(f):
    """Callee paths of a closure body (tracing noise excluded): what the closure does, independent of its number."""
    from lint.program import is_noise, callee_path
    out = []
    for b in range(f.body.n):
        t = f.body.term(b)
        if t["k"] == "call" and not is_noise(t):
            out.append(callee_path(t))
    return sorted(out)


for cfg in ("all", "default", "checkpoint", "futures"):
    p = facts.load(cfg)
    for k, f in p.fns.items():
        if f.kind in ("Fn", "AssocFn"):
            b = f.body
            from lint.normalize import _is_tiny
            fns[k] = dict(sig=f.j.get("sig", ""), tiny=bool(_is_tiny(f.j)), fp=fingerprint(f), params=[[b.locals[l].get("name") or "", b.locals[l]["ty"]] for l in range(1, b.arg_count + 1)])
    for k, f in p.fns.items():
        if f.kind == "Closure":
            closures[k] = fingerprint(f)
    for a, d in p.adts.items():
        if d["kind"] != "struct":
            enums.add(a)
        if d["kind"] == "struct" and len(d["variants"]) == 1:
            adts[a] = [[x["name"], x["ty"]] for x in d["variants"][0]["fields"]]
# guard vocabulary of the effect sites (lint/spec/guardvocab.py), computed on the *normalised* program of each configuration
os.environ.pop("VERIF_NO_INLINE", None)
facts._loaded.clear()
from lint.spec import guardvocab
vocab = {}
for cfg in ("all", "default", "checkpoint", "futures"):
    p = facts.load(cfg)
    for k, v in guardvocab.site_vocab(p).items():
        vocab[k] = sorted(set(vocab.get(k, [])) | set(v))
must = {}
for cfg in ("all", "default", "checkpoint", "futures"):
    p = facts.load(cfg)
    for k, v in guardvocab.must_effects(p).items():
        # a function compiled in several configurations: keep what holds in all of them
        must[k] = sorted(set(must[k]) & set(v)) if k in must else v
reach = {}
mayeff = {}
wsites = {}
mw = {}
wv = {}
for cfg in ("all", "default", "checkpoint", "futures"):
    p = facts.load(cfg)
    for k, v in guardvocab.reach_effects(p).items():
        reach[k] = sorted(set(reach[k]) & set(v)) if k in reach else v
    for k, v in guardvocab.may_effects(p)[0].items():
        mayeff[k] = sorted(set(mayeff.get(k, [])) | set(v))
    m_, v_, n_ = guardvocab.write_tables(p)
    for k, v in n_.items():
        wsites[k] = max(wsites.get(k, 0), len(set(v)))
    for k, v in m_.items():
        mw[k] = sorted(set(mw[k]) & set(v)) if k in mw else v
    for k, v in v_.items():
        wv[k] = sorted(set(wv.get(k, [])) | set(v))
out = os.path.join(os.path.dirname(os.path.abspath(__file__)), "..", "lint", "reference.json")
with open(out, "w") as fh:
    json.dump(dict(fns=fns, adts=adts, enums=sorted(enums), closures=closures, guard_vocab=vocab, must_effects=must, reach_effects=reach, must_writes=mw, write_vocab=wv, may_effects=mayeff, write_sites=wsites), fh, indent=0, sort_keys=True)
print(len(fns), "functions,", len(adts), "structs,", len(closures), "closures written")
