#!/bin/bash
# round 7: /tmp/seed7-Cnn/SEED/k -> /verif/seeded/Cnn-(k+12); records first-pass static result before any rule change
cd /verif
for p in "$@"; do
  for k in 1 2; do
    d=/tmp/seed7-$p/SEED/$k; id=$p-$((k+12))
    if [ -f $d/patch.diff ] && [ -f $d/meta.json ] && [ ! -d /verif/seeded/$id ] && [ ! -f $d/.rejected ]; then
      ( python3 selftest/seeded.py import $d $id > /tmp/import-$id.log 2>&1 || touch $d/.rejected; grep -E '"confirmed"' /tmp/import-$id.log | sed "s/^/$id /"
        if [ -d /verif/seeded/$id ]; then python3 - <<PY
import json
mp='/verif/seeded/$id/meta.json'; m=json.load(open(mp)); m["round"]=7; json.dump(m,open(mp,'w'),indent=1)
PY
        fi ) &
    fi
  done
done
wait
