#!/usr/bin/env python3
"""Regenerate MANIFEST.json from the spec modules (run by hand after editing specs)."""
import importlib
import json
import os
import subprocess
import sys

VERIF = os.path.dirname(os.path.dirname(os.path.abspath(__file__)))
sys.path.insert(0, VERIF)

TECH = {
    "C01": "static analysis: must-pass-through (branch point) + relation algebra on dependence tables extracted from MIR by partial evaluation",
    "C02": "static analysis: finite-domain partial evaluation of ordering tables + ordering pass-through dataflow over resolved MIR call sites",
    "C03": "static analysis: must/order dataflow of coherence bookkeeping steps + who-may-write on per-store clocks (thin)",
    "C04": "static analysis: happens-before edge inventory (must-pass-through with constant-argument constraints, who-may-write causality)",
    "C05": "static analysis: typestate discipline of Thread.state (who-may-write, dominating-guard and path-sensitive reachability rules)",
    "C06": "static analysis: deny-list with positive control, path-sensitive call-graph reachability from Drop impls, cleanup-block drop inventory, statics inventory",
    "C07": "static analysis: who-may-write + dominating guards on lock holder fields, must-precede pairing of rt and std lock calls",
    "C08": "static analysis: must-precede ordering of wait steps, writer/guard rules on token and notification flags",
    "C09": "static analysis: branch-point/dependence rules for channel ops, counter writers, adjacency of bookkeeping and std channel call",
    "C10": "static analysis: dispatch exhaustiveness, predicate partial evaluation of leak checks, counter who-may-write, step ordering in Builder::check",
    "C11": "static analysis: dependence-table algebra (Arc), guard rules on last-handle bookkeeping, handle balance counting over drop glue",
    "C12": "static analysis: expression reconstruction of fetch_* closures and Numeric casts from MIR, compared with std's documented operator table",
    "C13": "static analysis: derive/attribute inventory, deny-list (hash-order iteration, clocks) with positive controls, replay-discipline guards",
    "C14": "static analysis: who-may-write on branch state + dominating strict-advance guards of Path::step (premises of a manual measure argument)",
    "C15": "static analysis: path-sensitive partial evaluation of the bound test in Schedule::backtrack, preemption arithmetic shape (thin)",
    "C16": "static analysis: struct-field reset completeness of Execution::step / Set::clear, who-may-call on scoped state, statics inventory",
    "C17": "static analysis: must-precede teardown order, init-once guards, deny-list on hash-ordered destruction",
    "C18": "static analysis: must-reach yield_now, writer/guard rules on yield bookkeeping (thin skeleton)",
    "C19": "static analysis: exhaustive partial evaluation of the (skipping, exploring) control state machine, capacity/limit assertion guards",
    "C20": "static analysis: loop-path rule (Pending -> wait -> poll), handle-balance counting of the waker vtable, lock pairing on all paths",
}

props = [json.loads(l) for l in open(os.path.join(VERIF, "properties.jsonl"))]
checks = []
for p in props:
    pid = p["id"]
    spec = importlib.import_module("lint.spec." + pid)
    checks.append(dict(
        property_id=pid,
        quick_cmd="./check %s --tier quick" % pid,
        thorough_cmd="./check %s --tier thorough" % pid,
        evidence_file="evidence/%s.json" % pid,
        replay_cmd_template="./check %s --replay {path}" % pid,
        engine="loomfacts+lint",
        level_claimed=dict(category="other",
                           text="Partial (necessary-condition) claim decided by static analysis of the type-checked program: " + spec.EXPLANATION,
                           design_ref="DESIGN.md section 5, " + pid),
        level_note=getattr(spec, "LEVEL_NOTE", "") + "; trusted base: rustc MIR construction and instance resolution, the closed list of "
        "external higher-order function models (lint/program.py HOF_MODELS), the semantics-preserving program normalisation (lint/normalize.py), "
        "rule tables in lint/spec written from the property/C11/std docs, and - for the cross-checks G0/G1 - the reviewed reference tree "
        "recorded in lint/reference.json",
        technique=TECH[pid],
    ))

repo_commits = subprocess.check_output(["git", "-C", "/repo", "log", "--format=%h %s", "--grep=^fix:"], text=True).strip().splitlines()
manifest = dict(
    version=1,
    setup_cmd="./check --setup",
    hooks=dict(
        guard="loom_verif (reserved, unused: static analysis needs no hooks or instrumentation in /repo)",
        enable="none - checks run `cargo +nightly check` on /repo's working tree through the loomfacts RUSTC_WORKSPACE_WRAPPER; no cfg is set",
        baseline_off_cmd="cd /repo && cargo test --workspace --no-fail-fast --offline",
        source_commits=[],
        add_only=True,
    ),
    engines=[
        dict(name="loomfacts", path="loomfacts/", serves_properties=[p["id"] for p in props],
             kind_free_text="rustc_private driver (nightly): dumps items, MIR bodies, resolved per-instance call graph and drop glue of /repo as JSON; encodes no rule"),
        dict(name="lint", path="lint/", serves_properties=[p["id"] for p in props],
             kind_free_text="Python analyses over the facts (reachability, must-pass-through, dominating guards, path-sensitive partial evaluation, who-may-write, "
             "expression reconstruction) and per-property rule tables in lint/spec; the extracted program is first normalised "
             "(lint/normalize.py: renames, closure numbers, parameter order, std combinators, private-helper inlining - all semantics "
             "preserving) against the reference data in lint/reference.json, which also feeds the cross-checks G0/G1"),
        dict(name="selftest", path="selftest/", serves_properties=[p["id"] for p in props],
             kind_free_text="mutants, pre-fix trees, independently seeded breakages and behaviour-preserving refactorings applied to scratch copies: shows each rule fires "
             "and names the instance, and stays silent on equivalent code (thorough tier; evidence about the checker only)"),
    ],
    checks=checks,
    notes="Static analysis only: nothing of /repo is executed by any check. All claims are partial (necessary structural conditions, level 'other'); "
          "see DESIGN.md for the clauses decided and not decided per property. Genuine defects repaired in /repo by unguarded `fix:` commits: "
          + "; ".join(repo_commits) + ". Unrepaired genuine defects are listed in known_findings.txt. triage/ holds dynamic programs used once by hand to "
          "confirm findings; they are never run by a check.",
    not_applicable=[],
)
json.dump(manifest, open(os.path.join(VERIF, "MANIFEST.json"), "w"), indent=1)
print("wrote MANIFEST.json with %d checks" % len(checks))
