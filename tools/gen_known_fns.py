#!/usr/bin/env python3
"""Write lint/known_fns.txt: the function keys of the reference tree (the tree the rules were written against).
lint/normalize.py inlines private helpers that are *not* in this list (a helper the rules cannot know) in addition to
helpers whose name no rule mentions.  Regenerate only when the rules have been reviewed against a new reference tree."""
import json, glob, os, sys
sys.path.insert(0, os.path.join(os.path.dirname(os.path.abspath(__file__)), ".."))
os.environ["VERIF_NO_INLINE"] = "1"
from lint import facts
keys = set()
for cfg in ("all", "default", "checkpoint", "futures"):
    p = facts.load(cfg)
    keys |= {k for k, f in p.fns.items() if f.kind in ("Fn", "AssocFn")}
out = os.path.join(os.path.dirname(os.path.abspath(__file__)), "..", "lint", "known_fns.txt")
with open(out, "w") as fh:
    fh.write("\n".join(sorted(keys)) + "\n")
print(len(keys), "function keys written")
