//! loomfacts: a rustc_private driver that serialises the type-checked program
//! (items, MIR bodies, resolved call graph per partially-monomorphised instance,
//! drop glue) of one crate as JSON.  It encodes no loom-specific rule.
//!
//! Used as RUSTC_WORKSPACE_WRAPPER: argv[1] is the real rustc path, the rest are
//! rustc's arguments.  Acts only on the crate named by LOOMFACTS_CRATE (default
//! "loom") and only if LOOMFACTS_OUT names an output file; otherwise plain rustc.
#![feature(rustc_private)]
#![allow(clippy::all)]

extern crate rustc_abi;
extern crate rustc_data_structures;
extern crate rustc_driver;
extern crate rustc_hir;
extern crate rustc_interface;
extern crate rustc_middle;
extern crate rustc_session;
extern crate rustc_span;

mod json;

use json::J;
use rustc_driver::{Callbacks, Compilation};
use rustc_hir::def::DefKind;
use rustc_hir::def_id::{DefId, LOCAL_CRATE};
use rustc_interface::interface::Compiler;
use rustc_middle::mir::{
    self, AggregateKind, BasicBlock, Body, BorrowKind, Const, Operand, Place, PlaceElem, Rvalue,
    StatementKind, TerminatorKind, UnwindAction,
};
use rustc_middle::ty::print::{with_no_trimmed_paths, PrintTraitRefExt};
use rustc_middle::ty::{
    self, EarlyBinder, GenericArgsRef, Instance, InstanceKind, Ty, TyCtxt, TypeVisitableExt,
    TypingEnv,
};
use rustc_span::Span;
use std::collections::{HashMap, HashSet, VecDeque};

struct Cb;

impl Callbacks for Cb {
    fn after_analysis<'tcx>(&mut self, _c: &Compiler, tcx: TyCtxt<'tcx>) -> Compilation {
        let want = std::env::var("LOOMFACTS_CRATE").unwrap_or_else(|_| "loom".to_string());
        if tcx.crate_name(LOCAL_CRATE).as_str() == want {
            if let Ok(out) = std::env::var("LOOMFACTS_OUT") {
                // only the library target (cargo may also compile tests/bins of the same name)
                let is_lib = tcx
                    .crate_types()
                    .iter()
                    .any(|t| !matches!(t, rustc_session::config::CrateType::Executable));
                if is_lib {
                    let mut cx = Cx::new(tcx);
                    let j = cx.extract();
                    let mut s = String::with_capacity(32 << 20);
                    j.write(&mut s);
                    s.push('\n');
                    let tmp = format!("{}.tmp.{}", out, std::process::id());
                    std::fs::write(&tmp, s).expect("loomfacts: cannot write facts");
                    std::fs::rename(&tmp, &out).expect("loomfacts: cannot rename facts");
                }
            }
        }
        Compilation::Continue
    }
}

fn main() {
    let args: Vec<String> = std::env::args().skip(1).collect();
    rustc_driver::run_compiler(&args, &mut Cb);
}

#[derive(Clone)]
struct InstRec<'tcx> {
    def: DefId,
    args: GenericArgsRef<'tcx>,
    root: DefId,
}

struct Cx<'tcx> {
    tcx: TyCtxt<'tcx>,
    keys: HashMap<DefId, String>,
    used: HashSet<String>,
    insts: Vec<InstRec<'tcx>>,
    inst_ids: HashMap<(DefId, String, Option<DefId>), usize>,
    work: VecDeque<usize>,
    glue_memo: HashMap<(String, DefId), J>,
}

fn ts<'tcx>(ty: Ty<'tcx>) -> String {
    with_no_trimmed_paths!(format!("{}", ty))
}

impl<'tcx> Cx<'tcx> {
    fn new(tcx: TyCtxt<'tcx>) -> Self {
        Cx {
            tcx,
            keys: HashMap::new(),
            used: HashSet::new(),
            insts: Vec::new(),
            inst_ids: HashMap::new(),
            work: VecDeque::new(),
            glue_memo: HashMap::new(),
        }
    }

    /// Stable, human-readable key of a definition (def path, no crate prefix for local items).
    fn key(&mut self, d: DefId) -> String {
        if let Some(k) = self.keys.get(&d) {
            return k.clone();
        }
        let mut k = with_no_trimmed_paths!(self.tcx.def_path_str(d));
        if d.is_local() {
            if self.used.contains(&k) {
                let mut n = 2;
                while self.used.contains(&format!("{}#{}", k, n)) {
                    n += 1;
                }
                k = format!("{}#{}", k, n);
            }
            self.used.insert(k.clone());
        }
        self.keys.insert(d, k.clone());
        k
    }

    fn line(&self, sp: Span) -> i128 {
        let sp = sp.source_callsite();
        if sp.is_dummy() {
            return 0;
        }
        self.tcx.sess.source_map().lookup_char_pos(sp.lo()).line as i128
    }

    fn file(&self, sp: Span) -> String {
        let sp = sp.source_callsite();
        if sp.is_dummy() {
            return String::new();
        }
        let loc = self.tcx.sess.source_map().lookup_char_pos(sp.lo());
        format!("{}", loc.file.name.prefer_local_unconditionally())
    }

    fn macros(&self, sp: Span) -> Option<J> {
        if !sp.from_expansion() {
            return None;
        }
        let mut names: Vec<String> = Vec::new();
        for ed in sp.macro_backtrace() {
            let n = match ed.kind {
                rustc_span::ExpnKind::Macro(_, name) => name.to_string(),
                rustc_span::ExpnKind::Desugaring(k) => format!("desugar:{:?}", k),
                rustc_span::ExpnKind::AstPass(k) => format!("astpass:{:?}", k),
                rustc_span::ExpnKind::Root => "root".to_string(),
            };
            if !names.contains(&n) {
                names.push(n);
            }
        }
        if names.is_empty() {
            None
        } else {
            Some(J::s(names.join(">")))
        }
    }

    // ------------------------------------------------------------------ items

    fn extract(&mut self) -> J {
        let tcx = self.tcx;
        let mut fns: Vec<(String, J)> = Vec::new();
        let mut adts: Vec<(String, J)> = Vec::new();
        let mut statics: Vec<J> = Vec::new();
        let mut impls: Vec<J> = Vec::new();

        // assign keys to all fn-like bodies first, in definition order
        let body_owners: Vec<DefId> = tcx
            .mir_keys(())
            .iter()
            .map(|l| l.to_def_id())
            .filter(|d| matches!(tcx.def_kind(*d), DefKind::Fn | DefKind::AssocFn | DefKind::Closure))
            .collect();
        let mut body_owners = body_owners;
        body_owners.sort_by_key(|d| tcx.def_path_hash(*d));
        // sort by source position for readability / determinism
        body_owners.sort_by_key(|d| {
            let sp = tcx.def_span(*d);
            (self.file(sp), self.line(sp), sp.lo().0)
        });
        for d in &body_owners {
            self.key(*d);
        }

        for ld in tcx.hir_crate_items(()).definitions() {
            let d = ld.to_def_id();
            match tcx.def_kind(d) {
                DefKind::Struct | DefKind::Enum | DefKind::Union => {
                    let k = self.key(d);
                    let j = self.dump_adt(d);
                    adts.push((k, j));
                }
                DefKind::Static { .. } => {
                    let ty = tcx.type_of(d).instantiate_identity().skip_norm_wip();
                    let env = TypingEnv::post_analysis(tcx, d);
                    let sp = tcx.def_span(d);
                    statics.push(
                        J::obj()
                            .set("path", J::s(self.key(d)))
                            .set("ty", J::s(ts(ty)))
                            .set("freeze", J::Bool(ty.is_freeze(tcx, env)))
                            .set("thread_local", J::Bool(tcx.is_thread_local_static(d)))
                            .set("mutable", J::Bool(tcx.is_mutable_static(d)))
                            .set("file", J::s(self.file(sp)))
                            .set("line", J::Int(self.line(sp))),
                    );
                }
                DefKind::Impl { of_trait } => {
                    let self_ty = tcx.type_of(d).instantiate_identity().skip_norm_wip();
                    let mut j = J::obj().set("self_ty", J::s(ts(self_ty)));
                    if of_trait {
                        let tr = tcx.impl_trait_ref(d).instantiate_identity().skip_norm_wip();
                        j.put("trait", J::s(with_no_trimmed_paths!(tcx.def_path_str(tr.def_id))));
                        j.put("trait_ref", J::s(with_no_trimmed_paths!(format!("{}", tr.print_only_trait_path()))));
                    }
                    j.put("derived", J::Bool(tcx.is_automatically_derived(d)));
                    let sp = tcx.def_span(d);
                    j.put("file", J::s(self.file(sp)));
                    j.put("line", J::Int(self.line(sp)));
                    let mut items = Vec::new();
                    for it in tcx.associated_items(d).in_definition_order() {
                        items.push(J::s(it.name().to_string()));
                    }
                    j.put("items", J::Arr(items));
                    if !self_ty.has_param() {
                        let env = TypingEnv::post_analysis(tcx, d);
                        if let Ok(l) = tcx.layout_of(env.as_query_input(self_ty)) {
                            j.put("size", J::Int(l.size.bytes() as i128));
                        }
                        j.put("signed", J::Bool(self_ty.is_signed()));
                    }
                    impls.push(j);
                }
                _ => {}
            }
        }

        for d in &body_owners {
            let k = self.key(*d);
            let j = self.dump_fn(*d);
            fns.push((k, j));
        }

        // instances: identity instance of every body, then closure of resolved callees
        for d in &body_owners {
            let args = ty::GenericArgs::identity_for_item(tcx, *d);
            self.intern_inst(*d, args, *d);
        }
        let mut inst_out: Vec<J> = Vec::new();
        let mut done = 0usize;
        while let Some(i) = self.work.pop_front() {
            assert_eq!(i, done, "instances are processed in id order");
            done += 1;
            let j = self.dump_inst(i);
            inst_out.push(j);
            if inst_out.len() > 60000 {
                panic!("loomfacts: instance explosion");
            }
        }

        J::obj()
            .set("crate", J::s(tcx.crate_name(LOCAL_CRATE).to_string()))
            .set("fns", J::Obj(fns))
            .set("adts", J::Obj(adts))
            .set("statics", J::Arr(statics))
            .set("impls", J::Arr(impls))
            .set("instances", J::Arr(inst_out))
    }

    fn attrs_of(&self, d: DefId) -> J {
        let tcx = self.tcx;
        let mut out = Vec::new();
        if let Some(ld) = d.as_local() {
            let hir_id = tcx.local_def_id_to_hir_id(ld);
            for a in tcx.hir_attrs(hir_id) {
                match a {
                    rustc_hir::Attribute::Unparsed(item) => {
                        if let Ok(s) = tcx.sess.source_map().span_to_snippet(item.span) {
                            out.push(J::s(s));
                        }
                    }
                    rustc_hir::Attribute::Parsed(k) => {
                        let s: String = format!("{:?}", k).chars().take(60).collect();
                        out.push(J::s(format!("parsed:{}", s)));
                    }
                }
            }
        }
        J::Arr(out)
    }

    fn dump_adt(&mut self, d: DefId) -> J {
        let tcx = self.tcx;
        let adt = tcx.adt_def(d);
        let sp = tcx.def_span(d);
        let mut j = J::obj()
            .set("kind", J::s(if adt.is_enum() { "enum" } else if adt.is_union() { "union" } else { "struct" }))
            .set("file", J::s(self.file(sp)))
            .set("line", J::Int(self.line(sp)))
            .set("attrs", self.attrs_of(d));
        let mut discrs: HashMap<usize, i128> = HashMap::new();
        if adt.is_enum() {
            for (vi, dis) in adt.discriminants(tcx) {
                discrs.insert(vi.as_usize(), dis.val as i128);
            }
        }
        let mut variants = Vec::new();
        for (vi, v) in adt.variants().iter_enumerated() {
            let mut fields = Vec::new();
            for f in v.fields.iter() {
                let fty = tcx.type_of(f.did).instantiate_identity().skip_norm_wip();
                fields.push(
                    J::obj()
                        .set("name", J::s(f.name.to_string()))
                        .set("ty", J::s(ts(fty)))
                        .set("attrs", self.attrs_of(f.did)),
                );
            }
            let mut vj = J::obj().set("name", J::s(v.name.to_string())).set("fields", J::Arr(fields));
            if let Some(x) = discrs.get(&vi.as_usize()) {
                vj.put("discr", J::Int(*x));
            }
            vj.put("attrs", self.attrs_of(v.def_id));
            variants.push(vj);
        }
        j.put("variants", J::Arr(variants));
        j
    }

    // ------------------------------------------------------------------ bodies

    fn dump_fn(&mut self, d: DefId) -> J {
        let tcx = self.tcx;
        let kind = tcx.def_kind(d);
        let sp = tcx.def_span(d);
        let mut j = J::obj()
            .set("kind", J::s(format!("{:?}", kind)))
            .set("file", J::s(self.file(sp)))
            .set("line", J::Int(self.line(sp)));
        if matches!(kind, DefKind::Fn | DefKind::AssocFn) {
            j.put("vis", J::s(format!("{:?}", tcx.visibility(d))));
            j.put("name", J::s(tcx.item_name(d).to_string()));
            let sig = tcx.fn_sig(d).instantiate_identity().skip_norm_wip();
            j.put("sig", J::s(with_no_trimmed_paths!(format!("{}", sig))));
            j.put("unsafe", J::Bool(sig.safety().is_unsafe()));
        }
        if let Some(p) = tcx.opt_parent(d) {
            match tcx.def_kind(p) {
                DefKind::Impl { of_trait } => {
                    let self_ty = tcx.type_of(p).instantiate_identity().skip_norm_wip();
                    j.put("impl_self", J::s(ts(self_ty)));
                    if let ty::Adt(a, _) = self_ty.kind() {
                        j.put("impl_adt", J::s(self.key(a.did())));
                    }
                    if of_trait {
                        let tr = tcx.impl_trait_ref(p).instantiate_identity().skip_norm_wip();
                        j.put("impl_trait", J::s(with_no_trimmed_paths!(tcx.def_path_str(tr.def_id))));
                    }
                    j.put("derived", J::Bool(tcx.is_automatically_derived(p)));
                }
                DefKind::Fn | DefKind::AssocFn | DefKind::Closure => {
                    j.put("parent_fn", J::s(self.key(p)));
                }
                DefKind::Trait => {
                    j.put("in_trait", J::s(self.key(p)));
                }
                _ => {}
            }
        }
        if kind == DefKind::Closure {
            if let Some(ld) = d.as_local() {
                let mut ups = Vec::new();
                for c in tcx.closure_captures(ld) {
                    ups.push(J::s(c.to_symbol().to_string()));
                }
                j.put("upvars", J::Arr(ups));
            }
        }
        j.put("attrs", self.attrs_of(d));
        let body = tcx.optimized_mir(d);
        j.put("body", self.dump_body(body, d));
        let promoted = tcx.promoted_mir(d);
        let mut pj = Vec::new();
        for pb in promoted.iter() {
            pj.push(self.dump_body(pb, d));
        }
        j.put("promoted", J::Arr(pj));
        j
    }

    fn dump_body(&mut self, body: &Body<'tcx>, owner: DefId) -> J {
        let mut names: HashMap<usize, String> = HashMap::new();
        for vdi in &body.var_debug_info {
            if let mir::VarDebugInfoContents::Place(p) = &vdi.value {
                if p.projection.is_empty() {
                    names.entry(p.local.as_usize()).or_insert_with(|| vdi.name.to_string());
                } else {
                    // captured variable: `(*_1).0` etc. -> name the projection
                }
            }
        }
        let mut upvar_dbg = Vec::new();
        for vdi in &body.var_debug_info {
            if let mir::VarDebugInfoContents::Place(p) = &vdi.value {
                if !p.projection.is_empty() {
                    upvar_dbg.push(J::obj().set("name", J::s(vdi.name.to_string())).set("place", self.place(body, p)));
                }
            }
        }
        let mut locals = Vec::new();
        for (l, decl) in body.local_decls.iter_enumerated() {
            let mut lj = J::obj().set("ty", J::s(ts(decl.ty)));
            if let Some(n) = names.get(&l.as_usize()) {
                lj.put("name", J::s(n.clone()));
            }
            if let ty::Adt(a, _) = decl.ty.peel_refs().kind() {
                lj.put("adt", J::s(self.key(a.did())));
            }
            locals.push(lj);
        }
        let mut blocks = Vec::new();
        for (_bb, data) in body.basic_blocks.iter_enumerated() {
            let mut stmts = Vec::new();
            for st in &data.statements {
                if let Some(sj) = self.stmt(body, owner, st) {
                    stmts.push(sj);
                }
            }
            let tj = match &data.terminator {
                Some(t) => self.term(body, owner, t),
                None => J::obj().set("k", J::s("none")),
            };
            blocks.push(
                J::obj()
                    .set("cleanup", J::Bool(data.is_cleanup))
                    .set("stmts", J::Arr(stmts))
                    .set("term", tj),
            );
        }
        J::obj()
            .set("arg_count", J::Int(body.arg_count as i128))
            .set("locals", J::Arr(locals))
            .set("upvar_names", J::Arr(upvar_dbg))
            .set("blocks", J::Arr(blocks))
    }

    fn place(&mut self, body: &Body<'tcx>, p: &Place<'tcx>) -> J {
        let tcx = self.tcx;
        let mut pty = mir::PlaceTy::from_ty(body.local_decls[p.local].ty);
        let mut proj = Vec::new();
        for elem in p.projection.iter() {
            let e = match elem {
                PlaceElem::Deref => J::s("*"),
                PlaceElem::Field(idx, fty) => {
                    let mut fj = J::obj().set("i", J::Int(idx.as_usize() as i128));
                    match pty.ty.kind() {
                        ty::Adt(adt, _) => {
                            let vi = pty.variant_index.unwrap_or(rustc_abi::FIRST_VARIANT);
                            let v = adt.variant(vi);
                            fj.put("f", J::s(v.fields[idx].name.to_string()));
                            fj.put("a", J::s(self.key(adt.did())));
                            if adt.is_enum() {
                                fj.put("v", J::s(v.name.to_string()));
                            }
                        }
                        ty::Closure(cd, _) => {
                            fj.put("closure", J::s(self.key(*cd)));
                        }
                        ty::Tuple(_) => {
                            fj.put("tuple", J::Bool(true));
                        }
                        _ => {}
                    }
                    fj.put("ty", J::s(ts(fty)));
                    fj
                }
                PlaceElem::Index(l) => J::obj().set("idx", J::Int(l.as_usize() as i128)),
                PlaceElem::ConstantIndex { offset, from_end, .. } => {
                    J::obj().set("cidx", J::Int(offset as i128)).set("from_end", J::Bool(from_end))
                }
                PlaceElem::Subslice { from, to, from_end } => J::obj()
                    .set("sub", J::Arr(vec![J::Int(from as i128), J::Int(to as i128)]))
                    .set("from_end", J::Bool(from_end)),
                PlaceElem::Downcast(name, vi) => {
                    let n = match name {
                        Some(s) => s.to_string(),
                        None => match pty.ty.kind() {
                            ty::Adt(adt, _) => adt.variant(vi).name.to_string(),
                            _ => format!("{}", vi.as_usize()),
                        },
                    };
                    J::obj().set("dc", J::s(n))
                }
                PlaceElem::OpaqueCast(_) => J::s("opaque"),
                PlaceElem::UnwrapUnsafeBinder(_) => J::s("unwrap_binder"),
            };
            proj.push(e);
            pty = pty.projection_ty(tcx, elem);
        }
        J::obj().set("l", J::Int(p.local.as_usize() as i128)).set("p", J::Arr(proj))
    }

    fn enum_variant_of_scalar(&mut self, ty: Ty<'tcx>, bits: u128) -> Option<String> {
        if let ty::Adt(adt, _) = ty.kind() {
            if adt.is_enum() && adt.variants().iter().all(|v| v.fields.is_empty()) {
                for (vi, dis) in adt.discriminants(self.tcx) {
                    if dis.val == bits {
                        return Some(adt.variant(vi).name.to_string());
                    }
                }
            }
        }
        None
    }

    fn konst(&mut self, owner: DefId, c: &mir::ConstOperand<'tcx>) -> J {
        let tcx = self.tcx;
        let ty = c.const_.ty();
        let mut j = J::obj().set("ty", J::s(ts(ty)));
        match ty.kind() {
            ty::FnDef(d, args) => {
                j.put("fn", J::s(self.key(*d)));
                j.put("local", J::Bool(d.is_local()));
                j.put("gargs", J::s(with_no_trimmed_paths!(format!("{:?}", args))));
                return j;
            }
            _ => {}
        }
        if let Const::Unevaluated(uv, _) = c.const_ {
            if let Some(p) = uv.promoted {
                j.put("promoted", J::Int(p.as_usize() as i128));
                return j;
            }
        }
        let env = TypingEnv::post_analysis(tcx, owner);
        let scalar_like = ty.is_integral() || ty.is_bool() || ty.is_char() || matches!(ty.kind(), ty::Adt(a, _) if a.is_enum());
        if scalar_like {
            if let Some(si) = c.const_.try_eval_scalar_int(tcx, env) {
                let size = si.size();
                if ty.is_signed() {
                    j.put("int", J::Int(si.to_int(size)));
                } else {
                    let bits = si.to_uint(size);
                    j.put("int", J::Int(bits as i128));
                    if let Some(v) = self.enum_variant_of_scalar(ty, bits) {
                        j.put("variant", J::s(v));
                    }
                }
            }
        }
        let text = with_no_trimmed_paths!(format!("{}", c.const_));
        let text = if text.len() > 400 { text[..400].to_string() } else { text };
        j.put("text", J::s(text));
        j
    }

    fn operand(&mut self, body: &Body<'tcx>, owner: DefId, o: &Operand<'tcx>) -> J {
        match o {
            Operand::Copy(p) => J::obj().set("c", self.place(body, p)),
            Operand::Move(p) => J::obj().set("m", self.place(body, p)),
            Operand::Constant(c) => J::obj().set("k", self.konst(owner, c)),
            _ => J::obj().set("k", J::obj().set("ty", J::s("runtime_checks")).set("text", J::s("runtime_checks"))),
        }
    }

    fn stmt(&mut self, body: &Body<'tcx>, owner: DefId, st: &mir::Statement<'tcx>) -> Option<J> {
        let sp = st.source_info.span;
        let mut j = match &st.kind {
            StatementKind::Assign(b) => {
                let (lhs, rv) = &**b;
                J::obj().set("k", J::s("=")).set("lhs", self.place(body, lhs)).set("rv", self.rvalue(body, owner, rv))
            }
            StatementKind::SetDiscriminant { place, variant_index } => {
                let pty = place.ty(&body.local_decls, self.tcx).ty;
                let vn = match pty.kind() {
                    ty::Adt(adt, _) => adt.variant(*variant_index).name.to_string(),
                    _ => format!("{}", variant_index.as_usize()),
                };
                J::obj().set("k", J::s("setdiscr")).set("lhs", self.place(body, place)).set("variant", J::s(vn))
            }
            _ => return None,
        };
        j.put("ln", J::Int(self.line(sp)));
        if let Some(m) = self.macros(sp) {
            j.put("exp", m);
        }
        Some(j)
    }

    fn rvalue(&mut self, body: &Body<'tcx>, owner: DefId, rv: &Rvalue<'tcx>) -> J {
        let tcx = self.tcx;
        match rv {
            Rvalue::Use(o, ..) => J::obj().set("k", J::s("use")).set("op", self.operand(body, owner, o)),
            Rvalue::Repeat(o, _) => J::obj().set("k", J::s("repeat")).set("op", self.operand(body, owner, o)),
            Rvalue::Ref(_, bk, p) => J::obj()
                .set("k", J::s("ref"))
                .set("mut", J::Bool(matches!(bk, BorrowKind::Mut { .. })))
                .set("place", self.place(body, p)),
            Rvalue::ThreadLocalRef(d) => J::obj().set("k", J::s("tlsref")).set("static", J::s(self.key(*d))),
            Rvalue::RawPtr(kind, p) => J::obj()
                .set("k", J::s("rawptr"))
                .set("mut", J::Bool(matches!(kind, mir::RawPtrKind::Mut)))
                .set("place", self.place(body, p)),
            Rvalue::Cast(kind, o, ty) => {
                let from = o.ty(&body.local_decls, tcx);
                J::obj()
                    .set("k", J::s("cast"))
                    .set("kind", J::s(format!("{:?}", kind)))
                    .set("op", self.operand(body, owner, o))
                    .set("from", J::s(ts(from)))
                    .set("ty", J::s(ts(*ty)))
            }
            Rvalue::BinaryOp(op, b) => J::obj()
                .set("k", J::s("binop"))
                .set("op", J::s(format!("{:?}", op)))
                .set("a", self.operand(body, owner, &b.0))
                .set("b", self.operand(body, owner, &b.1))
                .set("ty", J::s(ts(b.0.ty(&body.local_decls, tcx)))),
            Rvalue::UnaryOp(op, o) => J::obj()
                .set("k", J::s("unop"))
                .set("op", J::s(format!("{:?}", op)))
                .set("a", self.operand(body, owner, o)),
            Rvalue::Discriminant(p) => {
                let pty = p.ty(&body.local_decls, tcx).ty;
                let mut j = J::obj().set("k", J::s("discr")).set("place", self.place(body, p));
                if let ty::Adt(a, _) = pty.kind() {
                    j.put("adt", J::s(self.key(a.did())));
                    // external enums (Option, Result, Ordering, Poll): give the variant table inline
                    if !a.did().is_local() && a.is_enum() {
                        let mut vs = Vec::new();
                        for (vi, dis) in a.discriminants(tcx) {
                            vs.push(J::Arr(vec![J::Int(dis.val as i128), J::s(a.variant(vi).name.to_string())]));
                        }
                        j.put("variants", J::Arr(vs));
                    }
                }
                j
            }
            Rvalue::Aggregate(kind, ops) => {
                let mut j = J::obj().set("k", J::s("agg"));
                match &**kind {
                    AggregateKind::Array(_) => j.put("agg", J::s("array")),
                    AggregateKind::Tuple => j.put("agg", J::s("tuple")),
                    AggregateKind::Adt(d, vi, _, _, active) => {
                        let adt = tcx.adt_def(*d);
                        j.put("agg", J::s("adt"));
                        j.put("adt", J::s(self.key(*d)));
                        let v = adt.variant(*vi);
                        j.put("variant", J::s(v.name.to_string()));
                        let mut fns = Vec::new();
                        if let Some(fi) = active {
                            fns.push(J::s(v.fields[*fi].name.to_string()));
                        } else {
                            for f in v.fields.iter() {
                                fns.push(J::s(f.name.to_string()));
                            }
                        }
                        j.put("field_names", J::Arr(fns));
                    }
                    AggregateKind::Closure(d, _) => {
                        j.put("agg", J::s("closure"));
                        j.put("closure", J::s(self.key(*d)));
                    }
                    AggregateKind::Coroutine(d, _) | AggregateKind::CoroutineClosure(d, _) => {
                        j.put("agg", J::s("coroutine"));
                        j.put("closure", J::s(self.key(*d)));
                    }
                    AggregateKind::RawPtr(..) => j.put("agg", J::s("rawptr")),
                }
                let mut oj = Vec::new();
                for o in ops.iter() {
                    oj.push(self.operand(body, owner, o));
                }
                j.put("ops", J::Arr(oj));
                j
            }
            Rvalue::CopyForDeref(p) => J::obj().set("k", J::s("use")).set("op", J::obj().set("c", self.place(body, p))),
            Rvalue::WrapUnsafeBinder(o, _) => J::obj().set("k", J::s("use")).set("op", self.operand(body, owner, o)),
        }
    }

    fn bb(b: BasicBlock) -> J {
        J::Int(b.as_usize() as i128)
    }

    fn unwind(u: &UnwindAction) -> J {
        match u {
            UnwindAction::Cleanup(b) => Self::bb(*b),
            UnwindAction::Continue => J::s("continue"),
            UnwindAction::Unreachable => J::s("unreachable"),
            UnwindAction::Terminate(_) => J::s("terminate"),
        }
    }

    fn term(&mut self, body: &Body<'tcx>, owner: DefId, t: &mir::Terminator<'tcx>) -> J {
        let tcx = self.tcx;
        let sp = t.source_info.span;
        let mut j = match &t.kind {
            TerminatorKind::Goto { target } => J::obj().set("k", J::s("goto")).set("target", Self::bb(*target)),
            TerminatorKind::SwitchInt { discr, targets } => {
                let mut ts_ = Vec::new();
                for (v, b) in targets.iter() {
                    ts_.push(J::Arr(vec![J::Int(v as i128), Self::bb(b)]));
                }
                J::obj()
                    .set("k", J::s("switch"))
                    .set("op", self.operand(body, owner, discr))
                    .set("opty", J::s(ts(discr.ty(&body.local_decls, tcx))))
                    .set("targets", J::Arr(ts_))
                    .set("otherwise", Self::bb(targets.otherwise()))
            }
            TerminatorKind::UnwindResume => J::obj().set("k", J::s("resume")),
            TerminatorKind::UnwindTerminate(_) => J::obj().set("k", J::s("terminate")),
            TerminatorKind::Return => J::obj().set("k", J::s("return")),
            TerminatorKind::Unreachable => J::obj().set("k", J::s("unreachable")),
            TerminatorKind::Drop { place, target, unwind, .. } => {
                let pty = place.ty(&body.local_decls, tcx).ty;
                J::obj()
                    .set("k", J::s("drop"))
                    .set("place", self.place(body, place))
                    .set("ty", J::s(ts(pty)))
                    .set("target", Self::bb(*target))
                    .set("unwind", Self::unwind(unwind))
            }
            TerminatorKind::Call { func, args, destination, target, unwind, fn_span, .. } => {
                let mut aj = Vec::new();
                for a in args.iter() {
                    aj.push(self.operand(body, owner, &a.node));
                }
                let mut cj = J::obj()
                    .set("k", J::s("call"))
                    .set("func", self.operand(body, owner, func))
                    .set("args", J::Arr(aj))
                    .set("dest", self.place(body, destination))
                    .set("target", match target { Some(b) => Self::bb(*b), None => J::Null })
                    .set("unwind", Self::unwind(unwind));
                cj.put("fn_ln", J::Int(self.line(*fn_span)));
                cj
            }
            TerminatorKind::TailCall { func, args, .. } => {
                let mut aj = Vec::new();
                for a in args.iter() {
                    aj.push(self.operand(body, owner, &a.node));
                }
                J::obj().set("k", J::s("tailcall")).set("func", self.operand(body, owner, func)).set("args", J::Arr(aj))
            }
            TerminatorKind::Assert { cond, expected, msg, target, unwind } => J::obj()
                .set("k", J::s("assert"))
                .set("cond", self.operand(body, owner, cond))
                .set("expected", J::Bool(*expected))
                .set("msg", J::s(format!("{:?}", msg).chars().take(80).collect::<String>()))
                .set("target", Self::bb(*target))
                .set("unwind", Self::unwind(unwind)),
            TerminatorKind::FalseEdge { real_target, .. } => J::obj().set("k", J::s("goto")).set("target", Self::bb(*real_target)),
            TerminatorKind::FalseUnwind { real_target, .. } => J::obj().set("k", J::s("goto")).set("target", Self::bb(*real_target)),
            TerminatorKind::Yield { .. } => J::obj().set("k", J::s("yield")),
            TerminatorKind::CoroutineDrop => J::obj().set("k", J::s("coroutine_drop")),
            TerminatorKind::InlineAsm { .. } => J::obj().set("k", J::s("asm")),
        };
        j.put("ln", J::Int(self.line(sp)));
        if let Some(m) = self.macros(sp) {
            j.put("exp", m);
        }
        j
    }

    // ------------------------------------------------------------------ instances

    fn intern_inst(&mut self, def: DefId, args: GenericArgsRef<'tcx>, root: DefId) -> usize {
        let args = self.tcx.erase_and_anonymize_regions(args);
        let astr = with_no_trimmed_paths!(format!("{:?}", args));
        let root_key = if args.has_param() { Some(root) } else { None };
        let k = (def, astr, root_key);
        if let Some(i) = self.inst_ids.get(&k) {
            return *i;
        }
        let i = self.insts.len();
        self.insts.push(InstRec { def, args, root });
        self.inst_ids.insert(k, i);
        self.work.push_back(i);
        i
    }

    fn has_body(&self, d: DefId) -> bool {
        d.is_local()
            && matches!(self.tcx.def_kind(d), DefKind::Fn | DefKind::AssocFn | DefKind::Closure)
            && self.tcx.is_mir_available(d)
    }

    /// fn-like types (closures, fn items) mentioned in generic args: candidates for being invoked by
    /// an external higher-order function.
    fn fn_like_args(&mut self, args: GenericArgsRef<'tcx>, root: DefId, out: &mut Vec<J>) {
        for ga in args.iter() {
            if let Some(t) = ga.as_type() {
                self.fn_like_ty(t, root, out, 0);
            }
        }
    }

    fn fn_like_ty(&mut self, t: Ty<'tcx>, root: DefId, out: &mut Vec<J>, depth: usize) {
        if depth > 4 {
            return;
        }
        match t.kind() {
            ty::Closure(d, cargs) => {
                if self.has_body(*d) {
                    let i = self.intern_inst(*d, cargs, root);
                    out.push(J::obj().set("inst", J::Int(i as i128)));
                } else {
                    out.push(J::obj().set("ext", J::s(self.key(*d))));
                }
            }
            ty::FnDef(d, fargs) => {
                if self.has_body(*d) {
                    let i = self.intern_inst(*d, fargs, root);
                    out.push(J::obj().set("inst", J::Int(i as i128)));
                } else {
                    out.push(J::obj().set("ext", J::s(self.key(*d))));
                }
            }
            ty::Ref(_, inner, _) => self.fn_like_ty(*inner, root, out, depth + 1),
            ty::Adt(_, aargs) => {
                for ga in aargs.iter() {
                    if let Some(t2) = ga.as_type() {
                        self.fn_like_ty(t2, root, out, depth + 1);
                    }
                }
            }
            ty::Tuple(ts_) => {
                for t2 in ts_.iter() {
                    self.fn_like_ty(t2, root, out, depth + 1);
                }
            }
            _ => {}
        }
    }

    fn resolve_call(&mut self, rec: &InstRec<'tcx>, callee: DefId, cargs: GenericArgsRef<'tcx>) -> J {
        let tcx = self.tcx;
        let env = TypingEnv::post_analysis(tcx, rec.root);
        let inst_args = EarlyBinder::bind(cargs).instantiate(tcx, rec.args).skip_norm_wip();
        let inst_args = match tcx.try_normalize_erasing_regions(env, ty::Unnormalized::new_wip(inst_args)) {
            Ok(a) => a,
            Err(_) => tcx.erase_and_anonymize_regions(inst_args),
        };
        let path = self.key(callee);
        let astr = with_no_trimmed_paths!(format!("{:?}", inst_args));
        let mut fnargs = Vec::new();
        let kind = tcx.def_kind(callee);
        if !matches!(kind, DefKind::Fn | DefKind::AssocFn | DefKind::Closure | DefKind::Ctor(..)) {
            return J::obj().set("k", J::s("other")).set("path", J::s(path));
        }
        if matches!(kind, DefKind::Ctor(..)) {
            return J::obj().set("k", J::s("ctor")).set("path", J::s(path));
        }
        let resolved = Instance::try_resolve(tcx, env, callee, inst_args);
        match resolved {
            Ok(Some(inst)) => {
                let (kstr, target): (&str, Option<DefId>) = match inst.def {
                    InstanceKind::Item(d) => ("item", Some(d)),
                    InstanceKind::ClosureOnceShim { call_once: _, .. } => {
                        // by-value call of an Fn/FnMut closure: the closure body itself
                        let self_ty = inst.args.type_at(0);
                        match self_ty.kind() {
                            ty::Closure(cd, _) => ("item", Some(*cd)),
                            _ => ("shim", None),
                        }
                    }
                    InstanceKind::Intrinsic(d) => ("intrinsic", Some(d)),
                    InstanceKind::Virtual(d, _) => ("virtual", Some(d)),
                    InstanceKind::FnPtrShim(..) => ("fnptr", None),
                    InstanceKind::ReifyShim(d, _) => ("item", Some(d)),
                    InstanceKind::VTableShim(d) => ("item", Some(d)),
                    InstanceKind::DropGlue(_, Some(t)) => {
                        let g = self.drop_glue(t, rec.root);
                        return J::obj().set("k", J::s("dropglue")).set("ty", J::s(ts(t))).set("glue", g).set("path", J::s(path));
                    }
                    InstanceKind::DropGlue(_, None) => ("noop", None),
                    InstanceKind::CloneShim(d, _) => ("cloneshim", Some(d)),
                    _ => ("shim", None),
                };
                let mut j = J::obj();
                match (kstr, target) {
                    ("item", Some(d)) => {
                        let iargs = match inst.def {
                            InstanceKind::ClosureOnceShim { .. } => match inst.args.type_at(0).kind() {
                                ty::Closure(_, ca) => *ca,
                                _ => inst.args,
                            },
                            _ => inst.args,
                        };
                        if self.has_body(d) {
                            let id = self.intern_inst(d, iargs, rec.root);
                            j.put("k", J::s("inst"));
                            j.put("id", J::Int(id as i128));
                            j.put("path", J::s(self.key(d)));
                        } else {
                            j.put("k", J::s("ext"));
                            j.put("path", J::s(self.key(d)));
                            if tcx.is_diagnostic_item(rustc_span::sym::mem_drop, d) && iargs.len() > 0 {
                                if let Some(t0) = iargs[0].as_type() {
                                    let g = self.drop_glue(t0, rec.root).set("ty", J::s(ts(t0)));
                                    j.put("glue", g);
                                }
                            }
                            j.put("gargs", J::s(with_no_trimmed_paths!(format!("{:?}", iargs))));
                            self.fn_like_args(iargs, rec.root, &mut fnargs);
                            j.put("fnargs", J::Arr(fnargs));
                        }
                        if d != callee {
                            j.put("via", J::s(path));
                        }
                    }
                    (k, d) => {
                        j.put("k", J::s(k));
                        j.put("path", J::s(match d { Some(d) => self.key(d), None => path.clone() }));
                        j.put("gargs", J::s(astr));
                        self.fn_like_args(inst_args, rec.root, &mut fnargs);
                        j.put("fnargs", J::Arr(fnargs));
                    }
                }
                j
            }
            Ok(None) => {
                // trait method on a type parameter (or otherwise too generic)
                let mut j = J::obj().set("k", J::s("unresolved")).set("path", J::s(path)).set("gargs", J::s(astr));
                if inst_args.len() > 0 {
                    if let Some(t) = inst_args[0].as_type() {
                        j.put("self", J::s(ts(t)));
                        if let ty::Param(p) = t.kind() {
                            j.put("param", J::s(p.name.to_string()));
                        }
                    }
                }
                j
            }
            Err(_) => J::obj().set("k", J::s("error")).set("path", J::s(path)),
        }
    }

    /// What dropping a value of type `t` runs: local `Drop::drop` impls (as instances), whether it may run
    /// opaque code (dyn / type parameter), and external types with their own destructor.
    fn drop_glue(&mut self, t: Ty<'tcx>, root: DefId) -> J {
        let memo_key = (with_no_trimmed_paths!(format!("{:?}", t)), root);
        if let Some(j) = self.glue_memo.get(&memo_key) {
            return j.clone();
        }
        let mut own: Option<usize> = None;
        if let ty::Adt(adt, aargs) = t.kind() {
            if let Some(dtor) = adt.destructor(self.tcx) {
                if self.has_body(dtor.did) {
                    own = Some(self.intern_inst(dtor.did, aargs, root));
                }
            }
        }
        let mut drops: Vec<usize> = Vec::new();
        let mut ext: Vec<String> = Vec::new();
        let mut opaque: Vec<String> = Vec::new();
        let mut seen: HashSet<String> = HashSet::new();
        self.glue_walk(t, root, &mut drops, &mut ext, &mut opaque, &mut seen, 0);
        drops.sort();
        drops.dedup();
        ext.sort();
        ext.dedup();
        opaque.sort();
        opaque.dedup();
        let j = J::obj()
            .set("drops", J::Arr(drops.into_iter().map(|i| J::Int(i as i128)).collect()))
            .set("ext", J::Arr(ext.into_iter().map(J::s).collect()))
            .set("opaque", J::Arr(opaque.into_iter().map(J::s).collect()))
            .set("own", match own { Some(i) => J::Int(i as i128), None => J::Null });
        self.glue_memo.insert(memo_key, j.clone());
        j
    }

    fn glue_walk(
        &mut self,
        t: Ty<'tcx>,
        root: DefId,
        drops: &mut Vec<usize>,
        ext: &mut Vec<String>,
        opaque: &mut Vec<String>,
        seen: &mut HashSet<String>,
        depth: usize,
    ) {
        let tcx = self.tcx;
        let k = with_no_trimmed_paths!(format!("{:?}", t));
        if !seen.insert(k) || depth > 12 {
            return;
        }
        let env = TypingEnv::post_analysis(tcx, root);
        if !t.has_param() && !t.needs_drop(tcx, env) {
            return;
        }
        match t.kind() {
            ty::Adt(adt, aargs) => {
                if adt.is_manually_drop() {
                    return;
                }
                if let Some(dtor) = adt.destructor(tcx) {
                    if self.has_body(dtor.did) {
                        let i = self.intern_inst(dtor.did, aargs, root);
                        drops.push(i);
                    } else {
                        ext.push(ts(t));
                    }
                }
                if adt.did().is_local() || adt.is_box() {
                    for v in adt.variants().iter() {
                        for f in v.fields.iter() {
                            let fty = tcx.type_of(f.did).instantiate(tcx, aargs).skip_norm_wip();
                            let fty = tcx
                                .try_normalize_erasing_regions(env, ty::Unnormalized::new_wip(fty))
                                .unwrap_or(fty);
                            self.glue_walk(fty, root, drops, ext, opaque, seen, depth + 1);
                        }
                    }
                    if adt.is_box() {
                        if let Some(inner) = aargs.get(0).and_then(|a| a.as_type()) {
                            self.glue_walk(inner, root, drops, ext, opaque, seen, depth + 1);
                        }
                    }
                } else {
                    // external container: conservatively owns values of its type arguments
                    for ga in aargs.iter() {
                        if let Some(t2) = ga.as_type() {
                            self.glue_walk(t2, root, drops, ext, opaque, seen, depth + 1);
                        }
                    }
                }
            }
            ty::Closure(_, cargs) => {
                for up in cargs.as_closure().upvar_tys().iter() {
                    self.glue_walk(up, root, drops, ext, opaque, seen, depth + 1);
                }
            }
            ty::Tuple(ts_) => {
                for t2 in ts_.iter() {
                    self.glue_walk(t2, root, drops, ext, opaque, seen, depth + 1);
                }
            }
            ty::Array(inner, _) | ty::Slice(inner) => {
                self.glue_walk(*inner, root, drops, ext, opaque, seen, depth + 1);
            }
            ty::Dynamic(..) => opaque.push(format!("dyn:{}", ts(t))),
            ty::Param(_) | ty::Alias(..) => opaque.push(format!("param:{}", ts(t))),
            _ => {}
        }
    }

    fn dump_inst(&mut self, i: usize) -> J {
        let tcx = self.tcx;
        let rec = self.insts[i].clone();
        let body = tcx.optimized_mir(rec.def);
        let mut calls: Vec<(String, J)> = Vec::new();
        let mut dropsj: Vec<(String, J)> = Vec::new();
        for (bb, data) in body.basic_blocks.iter_enumerated() {
            let Some(t) = &data.terminator else { continue };
            match &t.kind {
                TerminatorKind::Call { func, .. } | TerminatorKind::TailCall { func, .. } => {
                    let fty = func.ty(&body.local_decls, tcx);
                    let cj = match fty.kind() {
                        ty::FnDef(d, cargs) => self.resolve_call(&rec, *d, cargs),
                        ty::FnPtr(..) => J::obj().set("k", J::s("fnptr")).set("path", J::s("<fn pointer>")),
                        _ => J::obj().set("k", J::s("other")).set("path", J::s(ts(fty))),
                    };
                    calls.push((bb.as_usize().to_string(), cj));
                }
                TerminatorKind::Drop { place, .. } => {
                    let pty = place.ty(&body.local_decls, tcx).ty;
                    let ity = EarlyBinder::bind(pty).instantiate(tcx, rec.args).skip_norm_wip();
                    let env = TypingEnv::post_analysis(tcx, rec.root);
                    let ity = tcx.try_normalize_erasing_regions(env, ty::Unnormalized::new_wip(ity)).unwrap_or(ity);
                    let g = self.drop_glue(ity, rec.root).set("ty", J::s(ts(ity)));
                    dropsj.push((bb.as_usize().to_string(), g));
                }
                _ => {}
            }
        }
        J::obj()
            .set("id", J::Int(i as i128))
            .set("def", J::s(self.key(rec.def)))
            .set("args", J::s(with_no_trimmed_paths!(format!("{:?}", rec.args))))
            .set("root", J::s(self.key(rec.root)))
            .set("identity", J::Bool(rec.args == ty::GenericArgs::identity_for_item(tcx, rec.def) || !rec.args.has_param() && tcx.generics_of(rec.def).count() == 0))
            .set("calls", J::Obj(calls))
            .set("drops", J::Obj(dropsj))
    }
}
