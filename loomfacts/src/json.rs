//! Minimal JSON value + serializer (no external crates available for a rustc_private driver).

use std::fmt::Write;

#[derive(Clone, Debug)]
pub enum J {
    Null,
    Bool(bool),
    Int(i128),
    Str(String),
    Arr(Vec<J>),
    Obj(Vec<(String, J)>),
}

impl J {
    pub fn obj() -> J {
        J::Obj(Vec::new())
    }
    pub fn s<S: Into<String>>(s: S) -> J {
        J::Str(s.into())
    }
    pub fn set<S: Into<String>>(mut self, k: S, v: J) -> J {
        if let J::Obj(ref mut o) = self {
            o.push((k.into(), v));
        }
        self
    }
    pub fn put<S: Into<String>>(&mut self, k: S, v: J) {
        if let J::Obj(ref mut o) = self {
            o.push((k.into(), v));
        }
    }
    pub fn opt(v: Option<J>) -> J {
        v.unwrap_or(J::Null)
    }
    pub fn write(&self, out: &mut String) {
        match self {
            J::Null => out.push_str("null"),
            J::Bool(b) => out.push_str(if *b { "true" } else { "false" }),
            J::Int(i) => {
                let _ = write!(out, "{}", i);
            }
            J::Str(s) => write_str(s, out),
            J::Arr(a) => {
                out.push('[');
                for (i, v) in a.iter().enumerate() {
                    if i > 0 {
                        out.push(',');
                    }
                    v.write(out);
                }
                out.push(']');
            }
            J::Obj(o) => {
                out.push('{');
                for (i, (k, v)) in o.iter().enumerate() {
                    if i > 0 {
                        out.push(',');
                    }
                    write_str(k, out);
                    out.push(':');
                    v.write(out);
                }
                out.push('}');
            }
        }
    }
}

fn write_str(s: &str, out: &mut String) {
    out.push('"');
    for c in s.chars() {
        match c {
            '"' => out.push_str("\\\""),
            '\\' => out.push_str("\\\\"),
            '\n' => out.push_str("\\n"),
            '\r' => out.push_str("\\r"),
            '\t' => out.push_str("\\t"),
            c if (c as u32) < 0x20 => {
                let _ = write!(out, "\\u{:04x}", c as u32);
            }
            c => out.push(c),
        }
    }
    out.push('"');
}
